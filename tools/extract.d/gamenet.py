"""gamenet/generate/spec/*.json (the four protocol descriptions named by C14) -> Lean data
(lean/Tw/Gen/Spec_*.lean) and the Rust dispatch / description table of the harness
(harness/src/gen_gamenet_table.rs).  Both are regenerated on every check run, so a changed
description changes the model and the harness generator; the generated Rust *codecs* under test
(gamenet/*/src) are not touched."""
import json
import os
import re

import exlib

PROTOS = [
    # (short id, JSON file, crate directory, Rust crate name)
    ("tw05", "teeworlds-0.5.json", "teeworlds-0.5", "libtw2_gamenet_teeworlds_0_5"),
    ("tw06", "teeworlds-0.6.json", "teeworlds-0.6", "libtw2_gamenet_teeworlds_0_6"),
    ("tw07", "teeworlds-0.7-trunk.json", "teeworlds-0.7", "libtw2_gamenet_teeworlds_0_7"),
    ("ddnet", "ddnet-19.6.json", "ddnet", "libtw2_gamenet_ddnet"),
]

# --- naming rules of gamenet/generate/datatypes.py (title / snake / caps) ------------------------

SNAKE_REPLACEMENTS = {("self",): "self_", ("type",): "type_"}


def snake(c):
    c = tuple(c)
    if c in SNAKE_REPLACEMENTS:
        return SNAKE_REPLACEMENTS[c]
    return "_".join(c)


def title(c):
    return "".join(p.title() for p in c)


def caps(c):
    return "_".join(p.upper() for p in c)


def err(msg):
    raise exlib.ExtractError("gamenet: " + msg)


# --- description -> intermediate tree ---------------------------------------------------------------
# A member type is a tuple: ("int32", min|None, max|None) ("boolean",) ("enum", name, lo, n)
# ("flags", name, mask) ("tick",) ("tune",) ("string", strict) ("intstr",) ("data",) ("rest",)
# ("raw", n, "sha256"|"uuid") ("be16",) ("u8",) ("addrs",) ("clients",) ("twstr", n) ("opt", t)
# ("arr", n, t) ("obj", name_tuple, [(field, t)])

class Ctx:
    def __init__(self, pid, j):
        self.pid = pid
        self.j = j
        self.enums = {}
        for e in j["game_enumerations"]:
            vals = sorted(v["value"] for v in e["values"])
            if any(v != vals[0] + i for i, v in enumerate(vals)):
                err("%s: enumeration %s is not contiguous" % (pid, e["name"]))
            self.enums[tuple(e["name"])] = (vals[0] if vals else 0, len(vals))
        self.flags = {}
        for e in j["game_flags"]:
            vals = sorted(v["value"] for v in e["values"])
            if any(v != 1 << i for i, v in enumerate(vals)):
                err("%s: flag set %s is not contiguous" % (pid, e["name"]))
            self.flags[tuple(e["name"])] = sum(vals)
        self.objs = {tuple(o["name"]): o for o in j["snapshot_objects"]}

    def mtype(self, t, where):
        k = t.get("kind")
        if k == "int32":
            if "max" in t and "min" not in t:
                err("%s: int32 with max but no min (the generator cannot load this)" % where)
            for key in ("min", "max"):
                if key in t and not isinstance(t[key], int):
                    err("%s: non-integer %s" % (where, key))
            return ("int32", t.get("min"), t.get("max"))
        if k == "boolean":
            return ("boolean",)
        if k == "enum":
            n = tuple(t["enum"])
            if n not in self.enums:
                err("%s: unknown enumeration %s" % (where, n))
            return ("enum", n) + self.enums[n]
        if k == "flags":
            n = tuple(t["flags"])
            if n not in self.flags:
                err("%s: unknown flag set %s" % (where, n))
            return ("flags", n, self.flags[n])
        if k == "tick":
            return ("tick",)
        if k == "tune_param":
            return ("tune",)
        if k == "string":
            return ("string", bool(t["disallow_cc"]))
        if k == "int32_string":
            return ("intstr",)
        if k == "data":
            return ("data",)
        if k == "rest":
            return ("rest",)
        if k == "sha256":
            return ("raw", 32, "sha256")
        if k == "uuid":
            return ("raw", 16, "uuid")
        if k == "be_uint16":
            return ("be16",)
        if k == "uint8":
            return ("u8",)
        if k == "packed_addresses":
            return ("addrs",)
        if k == "serverinfo_client":
            return ("clients",)
        if k == "int32_twstring":
            return ("twstr", int(t["count"]))
        if k == "optional":
            return ("opt", self.mtype(t["inner"], where))
        if k == "array":
            return ("arr", int(t["count"]), self.mtype(t["member_type"], where))
        if k == "snapshot_object":
            n = tuple(t["name"])
            if n not in self.objs:
                err("%s: unknown snapshot object %s" % (where, n))
            o = self.objs[n]
            if "msg_encoding" not in o.get("attributes", []):
                err("%s: snapshot object %s has no msg_encoding attribute" % (where, n))
            if "super" in o:
                err("%s: message-encoded snapshot object %s has a super type" % (where, n))
            return ("obj", n, self.members(o, where + "/" + snake(n)))
        err("%s: unknown member kind %r" % (where, k))

    def members(self, s, where):
        return [(snake(m["name"]), self.mtype(m["type"], where + "." + snake(m["name"]))) for m in s["members"]]

    def obj_members(self, o):
        """flattened members of a snapshot object, inherited first: [(rust access path, type)]"""
        own = [("." + f, t) for f, t in self.members(o, "%s obj %s" % (self.pid, snake(o["name"])))]
        if "super" in o:
            sup = tuple(o["super"])
            if sup not in self.objs:
                err("%s: unknown super object %s" % (self.pid, sup))
            return [("." + snake(sup) + p, t) for p, t in self.obj_members(self.objs[sup])] + own
        return own


# --- Lean output -------------------------------------------------------------------------------------

def lean_int(v):
    return "(%d)" % v if v < 0 else str(v)


def lean_opt(v):
    return "none" if v is None else "(some %s)" % lean_int(v)


def lean_mt(t):
    k = t[0]
    if k == "int32":
        return "(.int32 %s %s)" % (lean_opt(t[1]), lean_opt(t[2]))
    if k == "boolean":
        return ".boolean"
    if k == "enum":
        return '(.enum "%s" %s %d)' % (snake(t[1]), lean_int(t[2]), t[3])
    if k == "flags":
        return '(.flags "%s" %d)' % (snake(t[1]), t[2])
    if k == "tick":
        return ".tick"
    if k == "tune":
        return ".tuneParam"
    if k == "string":
        return "(.string %s)" % ("true" if t[1] else "false")
    if k == "intstr":
        return ".int32String"
    if k == "data":
        return ".data"
    if k == "rest":
        return ".rest"
    if k == "raw":
        return "(.raw %d)" % t[1]
    if k == "be16":
        return ".beUint16"
    if k == "u8":
        return ".uint8"
    if k == "addrs":
        return ".packedAddresses"
    if k == "clients":
        return ".serverinfoClient"
    if k == "twstr":
        return "(.twString %d)" % t[1]
    if k == "opt":
        return "(.optional %s)" % lean_mt(t[1])
    if k == "arr":
        return "(.array %d %s)" % (t[1], lean_mt(t[2]))
    if k == "obj":
        return "(.object (ML.ofList [%s]))" % ", ".join(lean_mt(x) for _, x in t[2])
    raise AssertionError(k)


def lean_ident(i):
    if isinstance(i, int):
        return "(.ordinal %s)" % lean_int(i)
    b = bytes.fromhex(i.replace("-", ""))
    if len(b) != 16:
        err("bad uuid %r" % i)
    return "(.uuid [%s])" % ", ".join(str(x) for x in b)


def lean_members(ms):
    return "ML.ofList [%s]" % ", ".join(lean_mt(t) for _, t in ms)


def obj_sizes(repo, cdir):
    rel = "gamenet/%s/src/snap_obj.rs" % cdir
    src = exlib.strip_rust_comments(exlib.read(repo, rel))
    body = exlib.fn_body(src, "obj_size", 0, rel)
    consts = dict(re.findall(r"pub const ([A-Z0-9_]+): u16 = (\d+);", src))
    out = []
    for name, size in re.findall(r"\b([A-Z0-9_]+) => (\d+),", body):
        if name not in consts:
            err("%s: obj_size arm %s has no u16 constant" % (rel, name))
        out.append((int(consts[name]), int(size)))
    if not out:
        err("%s: no arms found in obj_size" % rel)
    return out


def rust_consts(src, rel):
    """identifier constants of a generated module: name -> Lean Ident / byte list text"""
    out = {}
    for name, val in re.findall(r"pub const ([A-Z0-9_]+): (?:i32|u16) = (-?\d+);", src):
        out[name] = "(.ordinal %s)" % lean_int(int(val))
    for name, val in re.findall(r"pub const ([A-Z0-9_]+): Uuid = Uuid::from_u128\(0x([0-9a-fA-F_]+)\);", src):
        h = val.replace("_", "")
        if len(h) != 32:
            err("%s: uuid constant %s is not 128 bits" % (rel, name))
        out[name] = "(.uuid [%s])" % ", ".join(str(x) for x in bytes.fromhex(h))
    for name, val in re.findall(r"pub const ([A-Z0-9_]+): &'static \[u8; 8\] = b\"((?:\\x[0-9a-fA-F]{2}|[^\"\\])*)\";", src):
        bs = []
        i = 0
        while i < len(val):
            if val[i] == "\\":
                bs.append(int(val[i + 2:i + 4], 16))
                i += 4
            else:
                bs.append(ord(val[i]))
                i += 1
        out[name] = "[%s]" % ", ".join(str(x) for x in bs)
    return out


def rust_dispatch(repo, cdir, relfile, fn, connless=False):
    """the arms of a generated dispatch function in source order: [(identifier, variant)]; the
    variant must be decoded by the struct of the same name"""
    rel = "gamenet/%s/src/%s" % (cdir, relfile)
    src = exlib.strip_rust_comments(exlib.read(repo, rel))
    consts = rust_consts(src, rel)
    body = exlib.fn_body(src, fn, 0, rel)
    if connless:
        arms = [(c, v, st) for c, v, st in re.findall(r"\b([A-Z0-9_]+) => \w+::(\w+)\((\w+)::decode\(", body)]
    else:
        arms = [(c, v, st) for _, c, v, st in re.findall(r"\b(Ordinal|Uuid)\(([A-Z0-9_]+)\) => \w+::(\w+)\((\w+)::decode\(", body)]
    if not arms:
        err("%s: no dispatch arms found in %s" % (rel, fn))
    out = []
    for c, v, st in arms:
        if c not in consts:
            err("%s: dispatch arm %s has no constant" % (rel, c))
        if v != st:
            err("%s: arm %s constructs variant %s from struct %s" % (rel, c, v, st))
        out.append("(%s, \"%s\")" % (consts[c], v))
    return "[" + ", ".join(out) + "]"


def lean_file(pid, jname, ctx, sizes, dispatch):
    j = ctx.j
    s = exlib.HEADER
    s += "-- source: gamenet/generate/spec/%s\n" % jname
    s += "import Tw.Model.GamenetSpec\nnamespace Tw.Gen.Spec_%s\nopen Tw.Gamenet\n\n" % pid
    names = {"system": [], "game": [], "objects": [], "connless": []}
    for sec, key, pre in (("system_messages", "system", "sys"), ("game_messages", "game", "game")):
        for m in j[sec]:
            dn = "%s_%s" % (pre, snake(m["name"]).strip("_"))
            ms = ctx.members(m, "%s %s %s" % (pid, pre, snake(m["name"])))
            s += 'def %s : Spec := { name := "%s", id := %s, members := %s }\n' % (dn, snake(m["name"]), lean_ident(m["id"]), lean_members(ms))
            names[key].append(dn)
        s += "\n"
    for o in j["snapshot_objects"]:
        dn = "obj_%s" % snake(o["name"])
        ms = ctx.obj_members(o)
        s += 'def %s : Spec := { name := "%s", id := %s, members := %s }\n' % (dn, snake(o["name"]), lean_ident(o["id"]), lean_members(ms))
        names["objects"].append(dn)
    s += "\n"
    for m in j["connless_messages"]:
        dn = "cl_%s" % snake(m["name"])
        ident = list(m["id"])
        if len(ident) != 8:
            err("%s connless %s: id is not 8 bytes" % (pid, m["name"]))
        ms = ctx.members(m, "%s connless %s" % (pid, snake(m["name"])))
        s += 'def %s : ConnlessSpec := { name := "%s", id := [%s], members := %s }\n' % (dn, snake(m["name"]), ", ".join(str(x) for x in ident), lean_members(ms))
        names["connless"].append(dn)
    s += "\n"

    def enum_list(key):
        out = []
        for e in j[key]:
            out.append('{ name := "%s", values := [%s] }' % (snake(e["name"]), ", ".join(lean_int(v) for v in sorted(x["value"] for x in e["values"]))))
        return "[" + ",\n    ".join(out) + "]"

    s += "def spec : ProtoSpec := {\n"
    s += '  name := "%s",\n' % pid
    s += "  enums := %s,\n" % enum_list("game_enumerations")
    s += "  flags := %s,\n" % enum_list("game_flags")
    for key in ("system", "game", "connless", "objects"):
        s += "  %s := [%s],\n" % (key, ", ".join(names[key]))
    s += "  objSizes := [%s]\n}\n\n" % ", ".join("(%d, %d)" % x for x in sizes)
    s += "/-- the arms of the generated `System::decode_msg` in source order: identifier the constant stands for, variant -/\n"
    s += "def rustSystem : List (Ident × String) := %s\n" % dispatch["system"]
    s += "def rustGame : List (Ident × String) := %s\n" % dispatch["game"]
    s += "def rustObjects : List (Ident × String) := %s\n" % dispatch["objects"]
    s += "def rustConnless : List (List UInt8 × String) := %s\n\n" % dispatch["connless"]
    s += "end Tw.Gen.Spec_%s\n" % pid
    return s


# --- Rust output -------------------------------------------------------------------------------------

class RustGen:
    def __init__(self):
        self.n = 0

    def fresh(self, p):
        self.n += 1
        return "%s%d" % (p, self.n)

    # print the value of Rust expression `e` (by value, Copy) of member type t into `o`
    def pr(self, t, e):
        k = t[0]
        if k in ("int32", "flags", "intstr"):
            return "pi(o, (%s) as i64);" % e
        if k in ("tick", "tune"):
            return "pi(o, (%s).0 as i64);" % e
        if k == "enum":
            return "pi(o, (%s).to_i32() as i64);" % e
        if k == "boolean":
            return "pb(o, %s);" % e
        if k in ("string", "data", "rest"):
            return "px(o, %s);" % e
        if k == "raw":
            return "px(o, &(%s).0);" % e if t[2] == "sha256" else "px(o, (%s).as_bytes());" % e
        if k in ("be16", "u8"):
            return "pi(o, (%s) as i64);" % e
        if k in ("addrs", "clients"):
            return "px(o, (%s).as_bytes());" % e
        if k == "twstr":
            v = self.fresh("e")
            return "o.push('['); for (k_, %s) in (%s).iter().enumerate() { if k_ > 0 { o.push(','); } pi(o, *%s as i64); } o.push(']');" % (v, e, v)
        if k == "opt":
            v = self.fresh("v")
            return "match %s { None => o.push('n'), Some(%s) => { o.push_str(\"s(\"); %s o.push(')'); } }" % (e, v, self.pr(t[1], v))
        if k == "arr":
            v = self.fresh("e")
            return "o.push('['); for (k_, %s) in (%s).iter().enumerate() { if k_ > 0 { o.push(','); } %s } o.push(']');" % (v, e, self.pr(t[2], "(*%s)" % v))
        if k == "obj":
            v = self.fresh("m")
            return "{ let %s = %s; %s }" % (v, e, self.pr_fields([("." + f, x) for f, x in t[2]], v))
        raise AssertionError(k)

    def pr_fields(self, fields, m):
        parts = ["o.push('[');"]
        for i, (path, t) in enumerate(fields):
            if i:
                parts.append("o.push(',');")
            parts.append(self.pr(t, m + path))
        parts.append("o.push(']');")
        return " ".join(parts)

    # expression of type Option<rust type of t> built from `&V` expression v
    def bd(self, t, v, kpath):
        k = t[0]
        if k in ("int32", "flags", "intstr"):
            return "%s.i32_()?" % v
        if k == "tick":
            return "%s::snap_obj::Tick(%s.i32_()?)" % (kpath, v)
        if k == "tune":
            return "%s::msg::game::TuneParam(%s.i32_()?)" % (kpath, v)
        if k == "enum":
            return "%s::enums::%s::from_i32(%s.i32_()?).ok()?" % (kpath, title(t[1]), v)
        if k == "boolean":
            return "%s.bool_()?" % v
        if k in ("string", "data", "rest"):
            return "%s.bytes_()?" % v
        if k == "raw":
            if t[2] == "sha256":
                return "libtw2_common::digest::Sha256::from_slice(%s.bytes_()?).ok()?" % v
            return "uuid::Uuid::from_slice(%s.bytes_()?).ok()?" % v
        if k == "be16":
            return "u16::try_from(%s.int_()?).ok()?" % v
        if k == "u8":
            return "u8::try_from(%s.int_()?).ok()?" % v
        if k == "addrs":
            return "addrs_(%s.bytes_()?)?" % v
        if k == "clients":
            return "%s::msg::ClientsData::from_bytes(%s.bytes_()?)" % (kpath, v)
        if k == "twstr":
            l = self.fresh("l")
            return "{ let %s = %s.list_(%d)?; [%s] }" % (l, v, t[1], ", ".join("%s[%d].i32_()?" % (l, i) for i in range(t[1])))
        if k == "opt":
            w = self.fresh("w")
            return "match %s.opt_()? { None => None, Some(%s) => Some(%s) }" % (v, w, self.bd(t[1], w, kpath))
        if k == "arr":
            l = self.fresh("l")
            return "{ let %s = %s.list_(%d)?; [%s] }" % (l, v, t[1], ", ".join(self.bd(t[2], "(&%s[%d])" % (l, i), kpath) for i in range(t[1])))
        if k == "obj":
            l = self.fresh("l")
            fs = ", ".join("%s: %s" % (f, self.bd(x, "(&%s[%d])" % (l, i), kpath)) for i, (f, x) in enumerate(t[2]))
            return "{ let %s = %s.list_(%d)?; %s::snap_obj::%s { %s } }" % (l, v, len(t[2]), kpath, title(t[1]), fs)
        raise AssertionError(k)

    # static description data
    def desc(self, t):
        k = t[0]
        if k == "int32":
            f = lambda x: "None" if x is None else "Some(%d)" % x
            return "T::Int(%s, %s)" % (f(t[1]), f(t[2]))
        if k == "boolean":
            return "T::Bool"
        if k == "enum":
            return "T::Enum(%d, %d)" % (t[2], t[3])
        if k == "flags":
            return "T::Flags(%d)" % t[2]
        if k == "tick":
            return "T::Tick"
        if k == "tune":
            return "T::Tune"
        if k == "string":
            return "T::Str(%s)" % ("true" if t[1] else "false")
        if k == "intstr":
            return "T::IntStr"
        if k == "data":
            return "T::Data"
        if k == "rest":
            return "T::Rest"
        if k == "raw":
            return "T::Raw(%d)" % t[1]
        if k == "be16":
            return "T::Be16"
        if k == "u8":
            return "T::U8"
        if k == "addrs":
            return "T::Addrs"
        if k == "clients":
            return "T::Clients"
        if k == "twstr":
            return "T::TwStr(%d)" % t[1]
        if k == "opt":
            return "T::Opt(&%s)" % self.desc(t[1])
        if k == "arr":
            return "T::Arr(%d, &%s)" % (t[1], self.desc(t[2]))
        if k == "obj":
            return "T::Obj(&[%s])" % ", ".join(self.desc(x) for _, x in t[2])
        raise AssertionError(k)


def rust_ident(i):
    if isinstance(i, int):
        return "Id::Ord(%d)" % i
    b = bytes.fromhex(i.replace("-", ""))
    return "Id::Uuid([%s])" % ", ".join(str(x) for x in b)


def has_bool(t):
    return t[0] == "boolean" or (t[0] in ("arr",) and has_bool(t[2])) or (t[0] == "opt" and has_bool(t[1]))


def rust_proto(pid, crate, ctx):
    j = ctx.j
    g = RustGen()
    k = "k"
    s = "pub mod %s {\n" % pid
    s += "    #![allow(unused_variables, unused_imports, unused_parens, unreachable_patterns, clippy::all)]\n"
    s += "    use super::super::*;\n    use %s as k;\n" % crate
    s += "    use libtw2_gamenet_common::msg::AddrPackedSliceExt;\n    use std::convert::TryFrom;\n\n"
    descs = {}
    for sec, enum, modname, key in (("system_messages", "System", "system", "SYSTEM"), ("game_messages", "Game", "game", "GAME"), ("connless_messages", "Connless", "connless", "CONNLESS")):
        arms, barms, dl = [], [], []
        for m in j[sec]:
            ms = ctx.members(m, "%s %s %s" % (pid, modname, snake(m["name"])))
            name = snake(m["name"])
            arms.append("            k::msg::%s::%s(m) => { %s \"%s\" }" % (enum, title(m["name"]), g.pr_fields([("." + f, t) for f, t in ms], "m"), name))
            l = g.fresh("l")
            if ms:
                lit = "k::msg::%s::%s { %s }" % (modname, title(m["name"]), ", ".join("%s: %s" % (f, g.bd(t, "(&%s[%d])" % (l, i), k)) for i, (f, t) in enumerate(ms)))
            else:
                lit = "k::msg::%s::%s" % (modname, title(m["name"]))
            barms.append("            \"%s\" => { let %s = v.list_(%d)?; let m = k::msg::%s::%s(%s); Some(enc_bytes(|p| m.encode(p))) }" % (name, l, len(ms), enum, title(m["name"]), lit))
            ident = "Id::Conn([%s])" % ", ".join(str(x) for x in m["id"]) if sec == "connless_messages" else rust_ident(m["id"])
            dl.append("        D { name: \"%s\", id: %s, members: &[%s] }," % (name, ident, ", ".join(g.desc(t) for _, t in ms)))
        s += "    pub fn print_%s(m: &k::msg::%s, o: &mut String) -> &'static str {\n        match m {\n%s\n        }\n    }\n" % (modname, enum, "\n".join(arms))
        s += "    pub fn build_%s(name: &str, v: &V) -> Option<String> {\n        match name {\n%s\n            _ => None,\n        }\n    }\n" % (modname, "\n".join(barms))
        s += "    pub static %s: &[D] = &[\n%s\n    ];\n\n" % (key, "\n".join(dl))
    arms, barms, dl = [], [], []
    for o in j["snapshot_objects"]:
        ms = ctx.obj_members(o)
        name = snake(o["name"])
        arms.append("            k::SnapObj::%s(m) => { %s \"%s\" }" % (title(o["name"]), g.pr_fields(ms, "m"), name))
        # struct literal with nested super structs
        counter = [0]
        l = g.fresh("l")

        def lit(obj):
            parts = []
            if "super" in obj:
                sup = tuple(obj["super"])
                parts.append("%s: %s" % (snake(sup), lit(ctx.objs[sup])))
            for f, t in ctx.members(obj, "%s obj %s" % (pid, snake(obj["name"]))):
                parts.append("%s: %s" % (f, g.bd(t, "(&%s[%d])" % (l, counter[0]), k)))
                counter[0] += 1
            if parts:
                return "k::snap_obj::%s { %s }" % (title(obj["name"]), ", ".join(parts))
            return "k::snap_obj::%s" % title(obj["name"])
        body = lit(o)
        barms.append("            \"%s\" => { let %s = v.list_(%d)?; let m = k::SnapObj::%s(%s); Some(enc_ints(|| m.encode().to_vec(), %s)) }" % (
            name, l, len(ms), title(o["name"]), body, "true" if any(has_bool(t) for _, t in ms) else "false"))
        dl.append("        D { name: \"%s\", id: %s, members: &[%s] }," % (name, rust_ident(o["id"]), ", ".join(g.desc(t) for _, t in ms)))
    s += "    pub fn print_obj(m: &k::SnapObj, o: &mut String) -> &'static str {\n        match m {\n%s\n        }\n    }\n" % "\n".join(arms)
    s += "    pub fn build_obj(name: &str, v: &V) -> Option<String> {\n        match name {\n%s\n            _ => None,\n        }\n    }\n" % "\n".join(barms)
    s += "    pub static OBJECTS: &[D] = &[\n%s\n    ];\n" % "\n".join(dl)
    s += "}\n\n"
    return s


def run(repo):
    files = {}
    rust = "// GENERATED by tools/extract.d/gamenet.py from gamenet/generate/spec/*.json on every check run — do not edit\n"
    rust += "// Dispatch over every message / object type of the four generated protocol crates (value printing,\n"
    rust += "// construction from values) and the descriptions as static data for the request generator.\n\n"
    for pid, jname, cdir, crate in PROTOS:
        rel = "gamenet/generate/spec/" + jname
        try:
            j = json.loads(exlib.read(repo, rel))
        except ValueError as e:
            err("%s is not valid JSON: %s" % (rel, e))
        for part in ("game_enumerations", "game_flags", "game_messages", "snapshot_objects", "system_messages", "connless_messages"):
            if part not in j:
                err("%s: missing part %s" % (rel, part))
        ctx = Ctx(pid, j)
        dispatch = {
            "system": rust_dispatch(repo, cdir, "msg/system.rs", "decode_msg"),
            "game": rust_dispatch(repo, cdir, "msg/game.rs", "decode_msg"),
            "objects": rust_dispatch(repo, cdir, "snap_obj.rs", "decode_obj"),
            "connless": rust_dispatch(repo, cdir, "msg/connless.rs", "decode_connless", connless=True),
        }
        files["Spec_%s.lean" % pid] = lean_file(pid, jname, ctx, obj_sizes(repo, cdir), dispatch)
        rust += rust_proto(pid, crate, ctx)
    # gamenet/common/src/msg.rs: the integer literals of the id codec, in source order
    rel = "gamenet/common/src/msg.rs"
    src = exlib.strip_rust_comments(exlib.read(repo, rel))
    g = exlib.HEADER + "namespace Tw.Gen.GamenetMsg\n\n"
    for fn in ("decode_id", "encode_id"):
        g += "/-- integer literals of `fn %s` in %s, in source order -/\n" % (fn, rel)
        g += "def lits_%s : List Nat := %s\n\n" % (fn, exlib.lean_nat_list(exlib.int_literals(exlib.fn_body(src, fn, 0, rel))))
    g += "end Tw.Gen.GamenetMsg\n"
    files["GamenetMsg.lean"] = g
    path = os.path.join(os.path.dirname(os.path.dirname(os.path.dirname(os.path.abspath(__file__)))), "harness", "src", "gen_gamenet_table.rs")
    old = None
    if os.path.exists(path):
        with open(path) as f:
            old = f.read()
    if old != rust:
        with open(path, "w") as f:
            f.write(rust)
    return files
