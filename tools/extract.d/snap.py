"""snapshot: limits and type-id constants of snapshot/src/{snap,format,storage}.rs and gamenet/snap,
the integer literals of the functions the model was written against, and the pre-agreed object
size tables (`obj_size`) of the four gamenet crates."""
import re
import exlib


def obj_size_table(repo, rel):
    src = exlib.strip_rust_comments(exlib.read(repo, rel))
    consts = {}
    for m in re.finditer(r"pub const\s+([A-Z0-9_]+)\s*:\s*u16\s*=\s*([0-9xa-fA-F_]+)\s*;", src):
        consts[m.group(1)] = int(m.group(2).replace("_", ""), 0)
    body = exlib.fn_body(src, "obj_size", 0, rel)
    rows = []
    for m in re.finditer(r"([A-Z][A-Z0-9_]*|[0-9]+)\s*=>\s*([0-9_]+)\s*,", body):
        name, size = m.group(1), int(m.group(2).replace("_", ""))
        if name.isdigit():
            t = int(name)
        elif name in consts:
            t = consts[name]
        else:
            raise exlib.ExtractError("obj_size of %s: unknown type constant %s" % (rel, name))
        rows.append((t, size))
    if not rows:
        raise exlib.ExtractError("obj_size of %s: no `TYPE => size` arms found" % rel)
    if "_ => return None" not in body:
        raise exlib.ExtractError("obj_size of %s: default arm `_ => return None` not found" % rel)
    return rows


def run(repo):
    snap_rel, fmt_rel, sto_rel, gs_rel = ("snapshot/src/snap.rs", "snapshot/src/format.rs",
                                          "snapshot/src/storage.rs", "gamenet/snap/src/lib.rs")
    snap = exlib.strip_rust_comments(exlib.read(repo, snap_rel))
    fmt = exlib.strip_rust_comments(exlib.read(repo, fmt_rel))
    sto = exlib.strip_rust_comments(exlib.read(repo, sto_rel))
    gs = exlib.strip_rust_comments(exlib.read(repo, gs_rel))
    s = exlib.HEADER + "namespace Tw.Gen.Snap\n\n"
    for name, src, rel in (("MAX_SNAPSHOT_SIZE", snap, snap_rel), ("MAX_SNAPSHOT_ITEMS", snap, snap_rel),
                           ("TYPE_ID_EX", fmt, fmt_rel), ("OFFSET_EXTENDED_TYPE_ID", fmt, fmt_rel),
                           ("MAX_STORED_SNAPSHOT", sto, sto_rel), ("MAX_SNAPSHOT_PACKSIZE", gs, gs_rel)):
        s += "/-- `%s` of %s -/\ndef %s : Nat := %d\n\n" % (name, rel, name, exlib.const_expr(src, name, rel))
    # named constants the modelled functions may mention (their own files' and the shared ones)
    known = {}
    for src_, rel_ in ((gs, gs_rel), (fmt, fmt_rel), (snap, snap_rel)):
        known = exlib.file_consts(src_, rel_, env=known)
    for fn, src, rel, which in (("key_to_raw_type_id", fmt, fmt_rel, 0), ("key_to_id", fmt, fmt_rel, 0),
                                ("key", fmt, fmt_rel, 0), ("uuid_to_item_data", fmt, fmt_rel, 0),
                                ("item_data_to_uuid", fmt, fmt_rel, 0), ("encode_obj", fmt, fmt_rel, 0),
                                ("serialized_ints_size", snap, snap_rel, 0), ("prepare_item_vacant", snap, snap_rel, 0),
                                ("read_from_ints", snap, snap_rel, 0), ("recycle", snap, snap_rel, 1),
                                ("add_item", snap, snap_rel, 2), ("raw_type_id", snap, snap_rel, 0)):
        body = exlib.fn_body(src, fn, which, rel)
        s += "/-- significant numbers of `fn %s` (#%d) in %s: integer literals and the values of the named\nconstants it uses, sorted set without 0 and 1 -/\n" % (fn, which, rel)
        s += "def lits_%s : List Nat := %s\n\n" % (fn, exlib.lean_nat_list(exlib.significant_set(body, known)))
    for name, rel in (("ddnet", "gamenet/ddnet/src/snap_obj.rs"), ("tw06", "gamenet/teeworlds-0.6/src/snap_obj.rs"),
                      ("tw07", "gamenet/teeworlds-0.7/src/snap_obj.rs"), ("tw05", "gamenet/teeworlds-0.5/src/snap_obj.rs")):
        rows = obj_size_table(repo, rel)
        s += "/-- `obj_size` of %s: `(type_id, size)`; every other type has no pre-agreed size -/\n" % rel
        s += "def objSize_%s : List (Nat × Nat) := [%s]\n\n" % (name, ", ".join("(%d, %d)" % r for r in rows))
    s += "end Tw.Gen.Snap\n"
    return {"Snap.lean": s}
