"""Snapshot transfer (C12/C13): the part size constant of gamenet/snap, and the integer literals of
the sender's chunker (snapshot/src/snap.rs `delta_chunks`, `DeltaChunks::next`) and of the
receiver (snapshot/src/receiver.rs `snap`), in source order."""
import re

import exlib


def _impl_fn_body(src, impl_pat, fn, rel):
    """Body of `fn <fn>` inside the first `impl` block whose header matches impl_pat."""
    m = re.search(impl_pat, src)
    if not m:
        raise exlib.ExtractError("impl block /%s/ not found in %s" % (impl_pat, rel))
    return exlib.fn_body(src[m.start():], fn, 0, rel)


def run(repo):
    s = exlib.HEADER + "namespace Tw.Gen.SnapXfer\n\n"

    rel = "gamenet/snap/src/lib.rs"
    src = exlib.strip_rust_comments(exlib.read(repo, rel))
    v = exlib.const_expr(src, "MAX_SNAPSHOT_PACKSIZE", rel)
    if v < 0:
        raise exlib.ExtractError("MAX_SNAPSHOT_PACKSIZE is negative in %s" % rel)
    s += "/-- `pub const MAX_SNAPSHOT_PACKSIZE` of %s -/\n" % rel
    s += "def MAX_SNAPSHOT_PACKSIZE : Nat := %d\n\n" % v

    rel = "snapshot/src/snap.rs"
    src = exlib.strip_rust_comments(exlib.read(repo, rel))
    body = exlib.fn_body(src, "delta_chunks", 0, rel)
    s += "/-- integer literals of `fn delta_chunks` in %s, in source order -/\n" % rel
    s += "def lits_delta_chunks : List Nat := %s\n\n" % exlib.lean_nat_list(exlib.int_literals(body))
    s += "/-- does `fn delta_chunks` compute the wire's relative tick with `wrapping_sub`? -/\n"
    s += "def delta_chunks_wrapping : Bool := %s\n\n" % ("true" if "wrapping_sub" in body else "false")
    body = _impl_fn_body(src, r"impl\s*<[^>]*>\s*Iterator\s+for\s+DeltaChunks", "next", rel)
    s += "/-- integer literals of `DeltaChunks::next` in %s, in source order -/\n" % rel
    s += "def lits_delta_chunks_next : List Nat := %s\n\n" % exlib.lean_nat_list(exlib.int_literals(body))

    rel = "snapshot/src/receiver.rs"
    src = exlib.strip_rust_comments(exlib.read(repo, rel))
    # the unit tests at the end of the file define no fn of these names, but cut them off anyway
    cut = src.find("#[cfg(test)]")
    if cut >= 0:
        src = src[:cut]
    for fn in ("snap",):
        body = exlib.fn_body(src, fn, 0, rel)
        s += "/-- integer literals of `DeltaReceiver::%s` in %s, in source order -/\n" % (fn, rel)
        s += "def lits_receiver_%s : List Nat := %s\n\n" % (fn, exlib.lean_nat_list(exlib.int_literals(body)))
    s += "end Tw.Gen.SnapXfer\n"
    return {"SnapXfer.lean": s}
