"""Snapshot transfer (C12/C13): the part size constant of gamenet/snap, and the integer literals of
the sender's chunker (snapshot/src/snap.rs `delta_chunks`, `DeltaChunks::next`) and of the
receiver (snapshot/src/receiver.rs `snap`).  Robust against behaviour-preserving rewrites: file-level
constants are resolved, private helpers followed, literal lists are sorted multisets, and the two
argument checks of `snap` are extracted as ranges whichever way they are spelt."""
import re

import exlib


def _impl_fn_body(src, impl_pat, fn, rel):
    """Body of `fn <fn>` inside the first `impl` block whose header matches impl_pat."""
    m = re.search(impl_pat, src)
    if not m:
        raise exlib.ExtractError("impl block /%s/ not found in %s" % (impl_pat, rel))
    return exlib.fn_body(src[m.start():], fn, 0, rel)


def _file_consts(src, rel):
    """name -> value for the file-level `const NAME: T = <integer expr>;` items."""
    out = {}
    for m in re.finditer(r"\bconst\s+([A-Z][A-Z0-9_]*)\s*:", src):
        try:
            out[m.group(1)] = exlib.const_expr(src, m.group(1), rel, env=out)
        except exlib.ExtractError:
            pass
    return out


def _with_helpers(src, body, rel, seen=None):
    """`body` followed by the bodies of the private `self.<helper>(..)` methods it calls
    (transitively), so that moving a test into a helper does not change what is extracted."""
    seen = seen if seen is not None else set()
    out = body
    for m in re.finditer(r"\bself\s*\.\s*([a-z_][a-z0-9_]*)\s*\(", body):
        name = m.group(1)
        if name in seen or not re.search(r"\bfn\s+%s\b" % name, src):
            continue
        seen.add(name)
        out += "\n" + _with_helpers(src, exlib.fn_body(src, name, 0, rel), rel, seen)
    return out


def _literal_multiset(text, consts):
    """Sorted integer literals of a piece of Rust, file-level constants resolved to their values.
    Order carries no meaning for these ties (the comparisons themselves are extracted separately
    where they matter, or tied by the correspondence)."""
    return exlib.significant_set(text, consts)


def _value(tok, consts, what, rel):
    tok = tok.strip()
    if tok in consts:
        return consts[tok]
    try:
        return int(tok.replace("_", ""), 0)
    except ValueError:
        raise exlib.ExtractError("cannot evaluate bound `%s` of %s in %s" % (tok, what, rel))


def _bounds(body, var, consts, rel):
    """The check on `var` in `DeltaReceiver::snap`, in either spelling:
         `lo <= var && var <= hi` / `var < hi`      or      `(lo..=hi).contains(&var)` / `(lo..hi)`.
    Returns (lo, hi_token, hi_inclusive): `lo` an integer, `hi_token` the source text of the upper
    bound."""
    v = re.escape(var)
    m = re.search(r"([A-Za-z0-9_]+)\s*<=\s*%s\s*&&\s*%s\s*(<=|<)\s*([A-Za-z0-9_.]+)" % (v, v), body)
    if m:
        return _value(m.group(1), consts, var, rel), m.group(3), m.group(2) == "<="
    m = re.search(r"\(\s*([A-Za-z0-9_]+)\s*(\.\.=|\.\.)\s*([A-Za-z0-9_.]+)\s*\)\s*\.contains\(\s*&\s*%s\s*\)" % v, body)
    if m:
        return _value(m.group(1), consts, var, rel), m.group(3), m.group(2) == "..="
    raise exlib.ExtractError("range check on %s not found in DeltaReceiver::snap of %s" % (var, rel))


def run(repo):
    s = exlib.HEADER + "namespace Tw.Gen.SnapXfer\n\n"

    rel = "gamenet/snap/src/lib.rs"
    src = exlib.strip_rust_comments(exlib.read(repo, rel))
    v = exlib.const_expr(src, "MAX_SNAPSHOT_PACKSIZE", rel)
    if v < 0:
        raise exlib.ExtractError("MAX_SNAPSHOT_PACKSIZE is negative in %s" % rel)
    s += "/-- `pub const MAX_SNAPSHOT_PACKSIZE` of %s -/\n" % rel
    s += "def MAX_SNAPSHOT_PACKSIZE : Nat := %d\n\n" % v

    rel = "snapshot/src/snap.rs"
    src = exlib.strip_rust_comments(exlib.read(repo, rel))
    sconsts = _file_consts(src, rel)
    sconsts.pop("MAX_SNAPSHOT_PACKSIZE", None)
    body = exlib.fn_body(src, "delta_chunks", 0, rel)
    s += "/-- integer literals of `fn delta_chunks` in %s, constants resolved, sorted -/\n" % rel
    s += "def lits_delta_chunks : List Nat := %s\n\n" % exlib.lean_nat_list(_literal_multiset(body, sconsts))
    s += "/-- does `fn delta_chunks` compute the wire's relative tick with `wrapping_sub`? -/\n"
    s += "def delta_chunks_wrapping : Bool := %s\n\n" % ("true" if "wrapping_sub" in body else "false")
    body = _impl_fn_body(src, r"impl\s*<[^>]*>\s*Iterator\s+for\s+DeltaChunks", "next", rel)
    s += "/-- integer literals of `DeltaChunks::next` in %s, constants resolved, sorted -/\n" % rel
    s += "def lits_delta_chunks_next : List Nat := %s\n\n" % exlib.lean_nat_list(_literal_multiset(body, sconsts))

    rel = "snapshot/src/receiver.rs"
    src = exlib.strip_rust_comments(exlib.read(repo, rel))
    # the unit tests at the end of the file define no fn of these names, but cut them off anyway
    cut = src.find("#[cfg(test)]")
    if cut >= 0:
        src = src[:cut]
    consts = _file_consts(src, rel)
    body = exlib.fn_body(src, "snap", 0, rel)
    # the two argument checks, as inclusive integer ranges / relations (spelling-independent)
    lo, hi_tok, incl = _bounds(body, "snap.num_parts", consts, rel)
    hi = _value(hi_tok, consts, "snap.num_parts", rel)
    if not incl:
        hi -= 1
    if lo < 0 or hi < 0:
        raise exlib.ExtractError("negative num_parts bound in %s" % rel)
    s += "/-- `DeltaReceiver::snap` accepts `num_parts` in this inclusive range (%s) -/\n" % rel
    s += "def receiver_num_parts_range : Nat × Nat := (%d, %d)\n\n" % (lo, hi)
    plo, phi_tok, pincl = _bounds(body, "snap.part", consts, rel)
    if plo < 0:
        raise exlib.ExtractError("negative part bound in %s" % rel)
    s += "/-- `DeltaReceiver::snap` accepts `part` from this value … -/\n"
    s += "def receiver_part_lower : Nat := %d\n\n" % plo
    s += "/-- … up to `num_parts`, exclusive -/\n"
    s += "def receiver_part_below_num_parts : Bool := %s\n\n" % ("true" if (phi_tok == "snap.num_parts" and not pincl) else "false")
    # all integer literals of `snap` and the private helpers it calls, constants resolved, sorted
    full = _with_helpers(src, body, rel)
    s += "/-- integer literals of `DeltaReceiver::snap` and the private helpers it calls in %s,\nfile-level constants resolved, sorted -/\n" % rel
    s += "def lits_receiver_snap : List Nat := %s\n\n" % exlib.lean_nat_list(_literal_multiset(full, consts))
    s += "end Tw.Gen.SnapXfer\n"
    return {"SnapXfer.lean": s}
