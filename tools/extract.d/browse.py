"""serverbrowse/src/protocol.rs: response headers, limits, string capacities, the bound checks that
guard the two `1 << n` sites of parse_server_info, per-version feature tables."""
import re
import exlib

REL = "serverbrowse/src/protocol.rs"


def byte_string(lit, what):
    """Bytes of a Rust byte-string literal body (the text between b" and ")."""
    out, i = [], 0
    while i < len(lit):
        c = lit[i]
        if c == "\\":
            e = lit[i + 1]
            if e == "x":
                out.append(int(lit[i + 2:i + 4], 16))
                i += 4
            elif e == "0":
                out.append(0)
                i += 2
            elif e in "nrt\\\"'":
                out.append({"n": 10, "r": 13, "t": 9, "\\": 92, '"': 34, "'": 39}[e])
                i += 2
            else:
                raise exlib.ExtractError("unknown escape \\%s in %s" % (e, what))
        else:
            out.append(ord(c))
            i += 1
    return out


def header(src, name):
    m = re.search(r"\bpub\s+const\s+%s\s*:[^=]*=\s*b\"((?:[^\"\\]|\\.)*)\"\s*;" % re.escape(name), src, re.S)
    if not m:
        raise exlib.ExtractError("byte-string constant %s not found in %s" % (name, REL))
    return byte_string(m.group(1), name)


def byte_array(src, name):
    m = re.search(r"\bpub\s+const\s+%s\s*:[^=]*=\s*&?\[([^\]]*)\]\s*;" % re.escape(name), src, re.S)
    if not m:
        raise exlib.ExtractError("array constant %s not found in %s" % (name, REL))
    return exlib.int_literals(m.group(1))


def struct_body(src, name):
    m = re.search(r"\bpub\s+struct\s+%s\s*\{" % re.escape(name), src)
    if not m:
        raise exlib.ExtractError("struct %s not found in %s" % (name, REL))
    i = m.end() - 1
    depth, j = 0, i
    while j < len(src):
        if src[j] == "{":
            depth += 1
        elif src[j] == "}":
            depth -= 1
            if depth == 0:
                return src[i:j + 1]
        j += 1
    raise exlib.ExtractError("unbalanced struct %s" % name)


def capacity(body, field, env, what):
    m = re.search(r"\bpub\s+%s\s*:\s*(?:Option<)?ArrayString<\[u8;\s*([A-Za-z0-9_]+)\s*\]>" % re.escape(field), body)
    if not m:
        raise exlib.ExtractError("ArrayString field %s.%s not found in %s" % (what, field, REL))
    t = m.group(1)
    if t in env:
        return env[t]
    return int(t)


def reject_from(op, n, what):
    """`x > n` rejects from n+1 on, `x >= n` from n on."""
    if op == ">":
        return n + 1
    if op == ">=":
        return n
    raise exlib.ExtractError("unexpected comparison %s in %s" % (op, what))


VERSIONS = ["V5", "V6", "V6Ddper", "V664", "V6Ex", "V7"]


def version_pred(src, fn):
    """Truth table of a `ServerInfoVersion::has_*` predicate `self <op> ServerInfoVersion::X`."""
    body = exlib.fn_body(src, fn, 0, REL)
    m = re.search(r"self\s*(>=|==|<=|>|<|!=)\s*ServerInfoVersion::(\w+)", body)
    if not m:
        raise exlib.ExtractError("predicate %s has an unexpected shape in %s" % (fn, REL))
    op, v = m.group(1), VERSIONS.index(m.group(2))
    f = {">=": lambda a: a >= v, "==": lambda a: a == v, "<=": lambda a: a <= v,
         ">": lambda a: a > v, "<": lambda a: a < v, "!=": lambda a: a != v}[op]
    return [f(i) for i in range(len(VERSIONS))]


def version_table(src, fn, env):
    """`max_clients` / `clients_per_packet`: per version `some n` or `none`."""
    body = exlib.fn_body(src, fn, 0, REL)
    out = []
    for v in VERSIONS:
        m = re.search(r"ServerInfoVersion::%s\s*=>\s*([^,]+)," % v, body)
        if not m:
            raise exlib.ExtractError("%s has no arm for %s in %s" % (fn, v, REL))
        e = m.group(1).strip()
        if e.startswith("return None"):
            out.append(None)
        elif e in env:
            out.append(env[e])
        else:
            out.append(int(e))
    return out


FN_RE = re.compile(r"\bfn\s+(\w+)\s*(?:<[^>]*>)?\s*\(([^)]*)\)\s*(?:->\s*([^{]+?))?\s*\{")


def all_fns(src):
    """name -> (params text, return type, body text incl. braces) of every fn in the file (first wins)."""
    out = {}
    for m in FN_RE.finditer(src):
        i = m.end() - 1
        depth, j = 0, i
        while j < len(src):
            if src[j] == "{":
                depth += 1
            elif src[j] == "}":
                depth -= 1
                if depth == 0:
                    break
            j += 1
        out.setdefault(m.group(1), (m.group(2), (m.group(3) or "").strip(), src[i:j + 1]))
    return out


def expr_body(body):
    """The single expression of a `{ expr }` body, or None if the body has statements."""
    inner = body.strip()[1:-1].strip()
    if ";" in inner or "{" in inner or not inner:
        return None
    return inner


def inline_self_helpers(src, text, rounds=3):
    """Replace calls `<recv>.helper()` of expression-bodied, argument-less methods by their body
    (receiver substituted), so that extracting a condition into a private helper does not change
    what the translator sees."""
    fns = all_fns(src)
    for _ in range(rounds):
        changed = False

        def repl(m):
            nonlocal changed
            recv, name = m.group(1), m.group(2)
            if name not in fns:
                return m.group(0)
            params, _ret, body = fns[name]
            if not re.fullmatch(r"\s*(&\s*(mut\s+)?)?self\s*", params):
                return m.group(0)
            e = expr_body(body)
            if e is None:
                return m.group(0)
            changed = True
            return "(" + re.sub(r"\bself\b", recv, e) + ")"

        text = re.sub(r"\b((?:self|other)(?:\.\w+)*)\.(\w+)\(\)", repl, text)
        if not changed:
            break
    return text


def transitive_bodies(src, body, depth=3):
    """The body plus the bodies of the file's own functions it calls (transitively)."""
    fns = all_fns(src)
    seen, out, frontier = set(), [body], [body]
    for _ in range(depth):
        nxt = []
        for b in frontier:
            for name in re.findall(r"\b(\w+)\s*\(", b):
                if name in fns and name not in seen:
                    seen.add(name)
                    out.append(fns[name][2])
                    nxt.append(fns[name][2])
        frontier = nxt
    return out


def shift_operand(src, expr):
    """Operand x of a `received |= <expr>` statement: `1 << x` directly, or through a helper whose
    whole body is `1 << param` returning u64 (anything else is reported verbatim, so a cast or a
    differently typed literal inside a helper still shows up as a change)."""
    e = re.sub(r"\s+", " ", expr.strip())
    m = re.fullmatch(r"1 << (\w+)", e)
    if m:
        return m.group(1)
    m = re.fullmatch(r"(?:Self::|self\.)?(\w+)\((\w+)\)", e)
    if m:
        fns = all_fns(src)
        if m.group(1) in fns:
            params, ret, body = fns[m.group(1)]
            pm = re.fullmatch(r"\s*(\w+)\s*:\s*u32\s*", params)
            b = expr_body(body)
            if pm and ret == "u64" and b is not None and re.sub(r"\s+", " ", b) == "1 << " + pm.group(1):
                return m.group(2)
    return e


def lean_bytes(xs):
    return "[" + ", ".join(str(x) for x in xs) + "]"


def run(repo):
    src = exlib.strip_rust_comments(exlib.read(repo, REL))
    env = {}
    for c in ("PLAYER_MAX_NAME_LENGTH", "PLAYER_MAX_CLAN_LENGTH", "MAX_CLIENTS_5", "MAX_CLIENTS_6_64",
              "MAX_CLIENTS_7", "HEADER_LEN", "PACKETFLAG_CONNLESS", "CLIENTINFO_FLAG_SPECTATOR",
              "CLIENTINFO_FLAG_BOT", "SERVERINFO_FLAG_PASSWORDED", "SERVERINFO_FLAG_TIMESCORE"):
        env[c] = exlib.const_expr(src, c, REL, env)
    s = exlib.HEADER + "namespace Tw.Gen.Browse\n\n"
    for c, v in env.items():
        s += "def %s : Nat := %d\n" % (c, v)
    s += "\n"
    for h in ("LIST_5", "LIST_6", "COUNT", "INFO_5", "INFO_6", "INFO_6_DDPER", "INFO_6_64", "INFO_6_EX",
              "INFO_6_EX_MORE", "TOKEN_7", "LIST_7", "COUNT_7", "INFO_7",
              "REQUEST_LIST_5", "REQUEST_LIST_6", "REQUEST_COUNT", "REQUEST_INFO_5", "REQUEST_INFO_6",
              "REQUEST_INFO_6_64", "REQUEST_INFO_6_EX", "CHALLENGE_6"):
        s += "def %s : List Nat := %s\n" % (h, lean_bytes(header(src, h)))
    s += "def IPV4_MAPPING : List Nat := %s\n" % lean_bytes(byte_array(src, "IPV4_MAPPING"))
    pr = exlib.fn_body(src, "parse_response", 0, REL)
    m = re.search(r"header\[\.\.(\d+)\]\s*!=\s*\*b\"((?:[^\"\\]|\\.)*)\"\s*\|\|\s*header\[(\d+)\.\.\]\s*!=\s*INFO_6_DDPER\[(\d+)\.\.\]", pr)
    if not m:
        raise exlib.ExtractError("the `dp` header test of parse_response has an unexpected shape in %s" % REL)
    s += "/-- `header[..DDPER_PREFIX_LEN] != *b\"..\" || header[DDPER_SUFFIX_FROM..] != INFO_6_DDPER[DDPER_SUFFIX_FROM'..]` -/\n"
    s += "def DDPER_PREFIX : List Nat := %s\ndef DDPER_PREFIX_LEN : Nat := %s\ndef DDPER_SUFFIX_FROM : Nat := %s\ndef DDPER_SUFFIX_FROM' : Nat := %s\n\n" % (
        lean_bytes(byte_string(m.group(2), "dp")), m.group(1), m.group(3), m.group(4))

    si = struct_body(src, "ServerInfo")
    ci = struct_body(src, "ClientInfo")
    for f, nm in (("version", "CAP_VERSION"), ("name", "CAP_NAME"), ("hostname", "CAP_HOSTNAME"), ("map", "CAP_MAP"),
                  ("game_type", "CAP_GAME_TYPE")):
        s += "def %s : Nat := %d\n" % (nm, capacity(si, f, env, "ServerInfo"))
    s += "def CAP_CLIENT_NAME : Nat := %d\n" % capacity(ci, "name", env, "ClientInfo")
    s += "def CAP_CLIENT_CLAN : Nat := %d\n\n" % capacity(ci, "clan", env, "ClientInfo")

    body = exlib.fn_body(src, "parse_server_info", 0, REL)
    m = re.search(r"packet_no\s*<\s*(\d+)\s*\|\|\s*packet_no\s*(>=?)\s*(\d+)", body)
    if not m:
        raise exlib.ExtractError("`packet_no < a || packet_no > b` sanity check not found in parse_server_info (%s)" % REL)
    s += "/-- `packet_no < PACKET_NO_MIN` is rejected -/\ndef PACKET_NO_MIN : Nat := %d\n" % int(m.group(1))
    s += "/-- smallest `packet_no` rejected by the upper sanity check (`packet_no %s %s`) -/\n" % (m.group(2), m.group(3))
    s += "def PACKET_NO_REJECT_FROM : Nat := %d\n" % reject_from(m.group(2), int(m.group(3)), "packet_no check")
    m = re.search(r"\bif\s+j\s*(>=?)\s*([A-Za-z0-9_]+)\s*\{\s*continue", body)
    if not m:
        raise exlib.ExtractError("`if j > MAX_CLIENTS_6_64 { continue` not found in parse_server_info (%s)" % REL)
    n = env[m.group(2)] if m.group(2) in env else int(m.group(2))
    s += "/-- smallest client slot `j` skipped by `if j %s %s { continue }` -/\n" % (m.group(1), m.group(2))
    s += "def SLOT_SKIP_FROM : Nat := %d\n" % reject_from(m.group(1), n, "slot check")
    shifts = [shift_operand(src, e) for e in re.findall(r"received\s*\|=\s*([^;]+);", body)]
    s += "/-- operands of the `received |= 1 << x` statements of parse_server_info, in source order -/\n"
    s += "def SHIFT_OPERANDS : List String := [%s]\n" % ", ".join('"%s"' % x for x in shifts)
    m = re.search(r"received\s*:\s*(u\d+)", struct_body(src, "PartialServerInfo"))
    if not m:
        raise exlib.ExtractError("PartialServerInfo.received not found in %s" % REL)
    s += "/-- width of `PartialServerInfo.received` -/\ndef RECEIVED_BITS : Nat := %d\n\n" % int(m.group(1)[1:])

    s += "/-- order of `enum ServerInfoVersion` -/\ndef VERSIONS : List String := [%s]\n" % ", ".join('"%s"' % v for v in VERSIONS)
    m = re.search(r"pub\s+enum\s+ServerInfoVersion\s*\{([^}]*)\}", src)
    if not m or [x.strip() for x in m.group(1).split(",") if x.strip()] != VERSIONS:
        raise exlib.ExtractError("enum ServerInfoVersion is no longer %s in %s" % (VERSIONS, REL))
    for fn in ("has_hostname", "has_progression", "has_skill_level", "has_offset", "has_extended_player_info",
               "has_extended_map_info", "has_extra_info", "has_full_client_flags"):
        tt = version_pred(src, fn)
        s += "def %s : List Bool := [%s]\n" % (fn, ", ".join("true" if b else "false" for b in tt))
    for fn in ("max_clients", "clients_per_packet"):
        tt = version_table(src, fn, env)
        s += "def %s : List (Option Nat) := [%s]\n" % (fn, ", ".join("none" if x is None else "some %d" % x for x in tt))
    gi = inline_self_helpers(src, exlib.fn_body(src, "get_info", 0, REL))
    req_main = re.search(r"if\s*\(*\s*self\.info\.info_version\s*==\s*ServerInfoVersion::V6Ex\s*&&\s*self\.received\s*&\s*1\s*==\s*0\s*\)*\s*\{\s*return\s+None", gi) is not None
    s += "\n/-- does `get_info` start with `if version == V6Ex && received & 1 == 0 { return None; }` (directly or through an argument-less helper method)? -/\n"
    s += "def GET_INFO_REQUIRES_MAIN : Bool := %s\n" % ("true" if req_main else "false")
    mg = exlib.fn_body(src, "merge", 0, REL)
    upd = any(re.search(r"\breceived\s*(\|=|\^=|&=|\+=|=(?!=))", b) for b in transitive_bodies(src, mg))
    s += "/-- does `merge` (or a function of this file it calls) assign to `received`? (it does not: D10) -/\n"
    s += "def MERGE_UPDATES_RECEIVED : Bool := %s\n" % ("true" if upd else "false")
    s += "\n/-- integer literals of `fn parse_count`, `fn parse_token7`, `fn parse_response` -/\n"
    for fn in ("parse_count", "parse_token7", "parse_response", "parse_list5", "parse_list6"):
        b = exlib.fn_body(src, fn, 0, REL)
        s += "def lits_%s : List Nat := %s\n" % (fn, exlib.lean_nat_list(exlib.int_literals(b)))
    s += "\nend Tw.Gen.Browse\n"
    return {"Browse.lean": s}
