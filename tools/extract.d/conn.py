"""net/src/connection.rs, connection7.rs, protocol.rs, protocol7.rs: the constants the connection
model (lean/Tw/Model/Conn*.lean) depends on — packet/chunk size limits, header sizes, the sequence
modulus, the reserved tokens, the two timer intervals, the scratch-buffer capacity and the
numeric literals of `can_fit_chunk` / `Connection::send` (so that an edited limit re-opens the
arithmetic side conditions of C04)."""
import re

import exlib


def _const(src, name, rel, env):
    """`const NAME: T = <expr>;` for integer expressions over literals and earlier constants
    (exlib.const_expr cannot be used: it strips `_` inside identifiers such as SEQUENCE_BITS)."""
    m = re.search(r"\bconst\s+%s\s*:\s*[^=]+=\s*([^;]+);" % re.escape(name), src)
    if not m:
        raise exlib.ExtractError("constant %s not found in %s" % (name, rel))
    e = re.sub(r"\bas\s+[a-z0-9]+", "", m.group(1))
    e = re.sub(r"\b([0-9][0-9_]*)(u8|u16|u32|u64|usize|i8|i16|i32|i64|isize)?\b", lambda k: k.group(1).replace("_", ""), e)
    try:
        return int(eval(e, {"__builtins__": {}}, dict(env)))
    except Exception as ex:
        raise exlib.ExtractError("cannot evaluate constant %s = %s in %s: %r" % (name, m.group(1).strip(), rel, ex))


def _consts(src, rel, names):
    env = {}
    out = []
    for n in names:
        v = _const(src, n, rel, env)
        env[n] = v
        out.append((n, v))
    return out


def _connless_max(src, rel, consts):
    """largest payload `write_connless_packet` accepts: the expression `payload.len()` is compared with"""
    body = exlib.fn_body(src, "write_connless_packet", 0, rel)
    m = re.search(r"payload\.len\(\)\s*>\s*([^{]+)\{", body)
    if not m:
        raise exlib.ExtractError("%s: `payload.len() > <limit>` test not found in write_connless_packet" % rel)
    try:
        return int(eval(m.group(1), {"__builtins__": {}}, dict(consts)))
    except Exception as ex:
        raise exlib.ExtractError("%s: cannot evaluate connless limit %s: %r" % (rel, m.group(1).strip(), ex))


def _token(src, name, rel):
    m = re.search(r"\bconst\s+%s\s*:\s*Token\s*=\s*Token\(\[([^\]]*)\]\)" % name, src)
    if not m:
        raise exlib.ExtractError("token constant %s not found in %s" % (name, rel))
    return exlib.int_literals(m.group(1))


def _millis(body):
    return [int(x.replace("_", "")) for x in re.findall(r"from_millis\(\s*([0-9_]+)\s*\)", body)]


def _conn(repo, rel, ns):
    src = exlib.strip_rust_comments(exlib.read(repo, rel))
    resend = _millis(exlib.fn_body(src, "start_timeout", 0, rel))
    if len(resend) != 1:
        raise exlib.ExtractError("%s: expected exactly one from_millis literal in start_timeout, got %r" % (rel, resend))
    every = _millis(src)
    others = sorted(set(every))
    others = [x for x in others if x != resend[0]] or [resend[0]]
    if len(others) != 1:
        raise exlib.ExtractError("%s: the model assumes one send interval, found from_millis literals %r" % (rel, sorted(set(every))))
    caps = sorted(set(int(x) for x in re.findall(r"ArrayVec<\[u8;\s*([0-9]+)\]>", src)))
    if len(caps) != 1:
        raise exlib.ExtractError("%s: expected one ArrayVec<[u8; N]> capacity, got %r" % (rel, caps))
    s = "namespace %s\n" % ns
    s += "/-- `ResendChunk::start_timeout`: retransmission interval in ms (%s) -/\n" % rel
    s += "def resendTimeoutMs : Nat := %d\n" % resend[0]
    s += "/-- every other `from_millis` literal of %s (send / keep-alive interval), all equal -/\n" % rel
    s += "def sendTimeoutMs : Nat := %d\n" % others[0]
    s += "/-- capacity of the `ArrayVec` scratch buffers (`PacketContents.data`, `ResendChunk.data`) -/\n"
    s += "def arrayCap : Nat := %d\n" % caps[0]
    body = exlib.fn_body(src, "can_fit_chunk", 0, rel)
    s += "/-- integer literals of `fn can_fit_chunk` in %s, in source order -/\n" % rel
    s += "def lits_can_fit_chunk : List Nat := %s\n" % exlib.lean_nat_list(exlib.int_literals(body))
    s += "end %s\n\n" % ns
    return s


def run(repo):
    s = exlib.HEADER + "\n"
    rel6, rel7 = "net/src/protocol.rs", "net/src/protocol7.rs"
    p6 = exlib.strip_rust_comments(exlib.read(repo, rel6))
    p7 = exlib.strip_rust_comments(exlib.read(repo, rel7))
    n6 = ["CHUNK_HEADER_SIZE", "CHUNK_HEADER_SIZE_VITAL", "HEADER_SIZE", "MAX_PACKETSIZE", "PADDING_SIZE_CONNLESS",
          "TOKEN_SIZE", "MAX_PAYLOAD", "CTRLMSG_CLOSE_REASON_LENGTH", "CHUNK_FLAGS_BITS", "CHUNK_SIZE_BITS",
          "PACKET_FLAGS_BITS", "SEQUENCE_BITS", "SEQUENCE_MODULUS"]
    n7 = ["CHUNK_HEADER_SIZE", "CHUNK_HEADER_SIZE_VITAL", "HEADER_SIZE", "HEADER_SIZE_CONNLESS", "MAX_PACKETSIZE",
          "MAX_PAYLOAD", "CTRLMSG_CLOSE_REASON_LENGTH", "TOKEN_REQUEST_PACKET_SIZE", "CHUNK_FLAGS_BITS",
          "CHUNK_SIZE_BITS", "PACKET_FLAGS_BITS", "SEQUENCE_BITS", "SEQUENCE_MODULUS"]
    s += "namespace Tw.Gen.Conn.P6\n"
    for n, v in _consts(p6, rel6, n6):
        s += "/-- `%s` of %s -/\ndef %s : Nat := %d\n" % (n, rel6, n, v)
    s += "/-- largest payload `write_connless_packet` accepts (%s) -/\ndef connlessMax : Nat := %d\n" % (rel6, _connless_max(p6, rel6, _consts(p6, rel6, n6)))
    s += "def TOKEN_NONE : List Nat := %s\n" % exlib.lean_nat_list(_token(p6, "TOKEN_NONE", rel6))
    s += "def TOKEN_RESERVED : List Nat := %s\n" % exlib.lean_nat_list(_token(p6, "TOKEN_RESERVED", rel6))
    s += "end Tw.Gen.Conn.P6\n\n"
    s += "namespace Tw.Gen.Conn.P7\n"
    for n, v in _consts(p7, rel7, n7):
        s += "/-- `%s` of %s -/\ndef %s : Nat := %d\n" % (n, rel7, n, v)
    s += "/-- largest payload `write_connless_packet` accepts (%s) -/\ndef connlessMax : Nat := %d\n" % (rel7, _connless_max(p7, rel7, _consts(p7, rel7, n7)))
    s += "def TOKEN_NONE : List Nat := %s\n" % exlib.lean_nat_list(_token(p7, "TOKEN_NONE", rel7))
    s += "end Tw.Gen.Conn.P7\n\n"
    s += _conn(repo, "net/src/connection.rs", "Tw.Gen.Conn.C6")
    s += _conn(repo, "net/src/connection7.rs", "Tw.Gen.Conn.C7")
    return {"Conn.lean": s}
