"""net/src/connection.rs, connection7.rs, protocol.rs, protocol7.rs: the constants the connection
model (lean/Tw/Model/Conn*.lean) depends on — packet/chunk size limits, header sizes, the sequence
modulus, the reserved tokens, the two timer intervals, the scratch-buffer capacity and the
numeric literals of `can_fit_chunk` / `Connection::send` (so that an edited limit re-opens the
arithmetic side conditions of C04)."""
import re

import exlib


def _const(src, name, rel, env):
    """`const NAME: T = <expr>;` for integer expressions over literals and earlier constants
    (exlib.const_expr cannot be used: it strips `_` inside identifiers such as SEQUENCE_BITS)."""
    m = re.search(r"\bconst\s+%s\s*:\s*[^=]+=\s*([^;]+);" % re.escape(name), src)
    if not m:
        raise exlib.ExtractError("constant %s not found in %s" % (name, rel))
    e = re.sub(r"\bas\s+[a-z0-9]+", "", m.group(1))
    e = re.sub(r"\b([0-9][0-9_]*)(u8|u16|u32|u64|usize|i8|i16|i32|i64|isize)?\b", lambda k: k.group(1).replace("_", ""), e)
    try:
        return int(eval(e, {"__builtins__": {}}, dict(env)))
    except Exception as ex:
        raise exlib.ExtractError("cannot evaluate constant %s = %s in %s: %r" % (name, m.group(1).strip(), rel, ex))


def _consts(src, rel, names):
    env = {}
    out = []
    for n in names:
        v = _const(src, n, rel, env)
        env[n] = v
        out.append((n, v))
    return out


def _connless_max(src, rel, consts):
    """largest payload `write_connless_packet` accepts: the expression `payload.len()` is compared with"""
    body = exlib.fn_body(src, "write_connless_packet", 0, rel)
    m = re.search(r"payload\.len\(\)\s*>\s*([^{]+)\{", body)
    if not m:
        raise exlib.ExtractError("%s: `payload.len() > <limit>` test not found in write_connless_packet" % rel)
    # the limit may be spelt with private constants of the file (e.g. a named `MAX_PAYLOAD_CONNLESS`)
    env = dict(consts)
    for k in re.finditer(r"\bconst\s+([A-Z][A-Z0-9_]*)\s*:", src):
        if k.group(1) not in env:
            try:
                env[k.group(1)] = _const(src, k.group(1), rel, env)
            except exlib.ExtractError:
                pass
    try:
        return int(eval(m.group(1), {"__builtins__": {}}, env))
    except Exception as ex:
        raise exlib.ExtractError("%s: cannot evaluate connless limit %s: %r" % (rel, m.group(1).strip(), ex))


def _token(src, name, rel):
    m = re.search(r"\bconst\s+%s\s*:\s*Token\s*=\s*Token\(\[([^\]]*)\]\)" % name, src)
    if not m:
        raise exlib.ExtractError("token constant %s not found in %s" % (name, rel))
    return exlib.int_literals(m.group(1))


_DUR_UNITS = {"from_millis": 1000, "from_secs": 1000000, "from_micros": 1}
_DUR_CALL = re.compile(r"Duration::(from_millis|from_secs|from_micros)\(\s*([A-Za-z_0-9:]+)\s*\)")


def _int_arg(src, rel, arg, seen=()):
    """integer literal, or a file-level integer constant (resolved recursively)"""
    a = arg.replace("_", "") if re.fullmatch(r"[0-9][0-9_]*", arg) else arg
    if a.isdigit():
        return int(a)
    name = arg.split("::")[-1]
    if name in seen:
        raise exlib.ExtractError("%s: cyclic constant %s" % (rel, name))
    m = re.search(r"\bconst\s+%s\s*:\s*[a-z0-9]+\s*=\s*([^;]+);" % re.escape(name), src)
    if not m:
        raise exlib.ExtractError("%s: cannot resolve duration argument `%s`" % (rel, arg))
    e = m.group(1).strip()
    e = re.sub(r"\bas\s+[a-z0-9]+", "", e).strip()
    if re.fullmatch(r"[0-9][0-9_]*(?:u8|u16|u32|u64|usize|i32|i64)?", e):
        return int(re.sub(r"[a-z].*$", "", e.replace("_", "")))
    if re.fullmatch(r"[A-Za-z_][A-Za-z_0-9:]*", e):
        return _int_arg(src, rel, e, seen + (name,))
    try:
        return int(eval(re.sub(r"(?<=[0-9])_(?=[0-9])", "", e), {"__builtins__": {}}, {}))
    except Exception as ex:
        raise exlib.ExtractError("%s: cannot evaluate constant %s = %s: %r" % (rel, name, e, ex))


def _duration_consts(src, rel):
    """file-level `const NAME: Duration = <Duration::from_*(..) | OTHER_CONST>;` -> microseconds"""
    raw = {}
    for m in re.finditer(r"\bconst\s+([A-Z_0-9a-z]+)\s*:\s*(?:std::time::)?Duration\s*=\s*([^;]+);", src):
        raw[m.group(1)] = m.group(2).strip()
    out = {}

    def resolve(name, seen=()):
        if name in out:
            return out[name]
        if name in seen or name not in raw:
            raise exlib.ExtractError("%s: cannot resolve Duration constant %s" % (rel, name))
        e = raw[name]
        m = _DUR_CALL.fullmatch(e)
        if m:
            v = _int_arg(src, rel, m.group(2)) * _DUR_UNITS[m.group(1)]
        elif re.fullmatch(r"[A-Za-z_][A-Za-z_0-9]*", e):
            v = resolve(e, seen + (name,))
        else:
            raise exlib.ExtractError("%s: unsupported Duration constant %s = %s" % (rel, name, e))
        out[name] = v
        return v

    for n in list(raw):
        resolve(n)
    return out, raw


def _durations_us(src, rel, body, consts):
    """every duration (in microseconds) a piece of code mentions: `Duration::from_*(N|CONST)` calls and
    uses of file-level Duration constants"""
    out = []
    for m in _DUR_CALL.finditer(body):
        out.append(_int_arg(src, rel, m.group(2)) * _DUR_UNITS[m.group(1)])
    for name, v in consts.items():
        for _ in re.finditer(r"(?<![A-Za-z_0-9])%s(?![A-Za-z_0-9])" % re.escape(name), body):
            out.append(v)
    return out


def _strip_const_defs(src):
    return re.sub(r"\bconst\s+[A-Za-z_0-9]+\s*:\s*[^=;]+=\s*[^;]+;", "", src)


def _to_ms(us, rel, what):
    if us % 1000 != 0:
        raise exlib.ExtractError("%s: %s is not a whole number of milliseconds (%d us)" % (rel, what, us))
    return us // 1000


def _conn(repo, rel, ns):
    src = exlib.strip_rust_comments(exlib.read(repo, rel))
    consts, _raw = _duration_consts(src, rel)
    code = _strip_const_defs(src)
    # retransmission interval: what `ResendChunk::start_timeout` arms its timer with (through a literal,
    # a file-level constant, or — if the method was restructured — whatever the `impl ResendChunk`
    # block mentions)
    try:
        st_body = exlib.fn_body(code, "start_timeout", 0, rel)
    except exlib.ExtractError:
        st_body = ""
    resend = sorted(set(_durations_us(src, rel, st_body, consts)))
    if not resend:
        m = re.search(r"\bimpl\s+ResendChunk\s*\{", code)
        if m:
            i = m.end() - 1
            depth, j = 0, i
            while j < len(code):
                if code[j] == "{":
                    depth += 1
                elif code[j] == "}":
                    depth -= 1
                    if depth == 0:
                        break
                j += 1
            resend = sorted(set(_durations_us(src, rel, code[i:j + 1], consts)))
    if len(resend) != 1:
        raise exlib.ExtractError("%s: expected exactly one retransmission interval in ResendChunk::start_timeout, got %r us" % (rel, resend))
    every = _durations_us(src, rel, code, consts)
    others = sorted(set(x for x in every if x != resend[0])) or [resend[0]]
    if len(others) != 1:
        raise exlib.ExtractError("%s: the model assumes one send interval, found durations %r us" % (rel, sorted(set(every))))
    resend = [_to_ms(resend[0], rel, "retransmission interval")]
    others = [_to_ms(others[0], rel, "send interval")]
    caps = sorted(set(int(x) for x in re.findall(r"ArrayVec<\[u8;\s*([0-9]+)\]>", src)))
    if len(caps) != 1:
        raise exlib.ExtractError("%s: expected one ArrayVec<[u8; N]> capacity, got %r" % (rel, caps))
    s = "namespace %s\n" % ns
    s += "/-- `ResendChunk::start_timeout`: retransmission interval in ms (%s) -/\n" % rel
    s += "def resendTimeoutMs : Nat := %d\n" % resend[0]
    s += "/-- every other `from_millis` literal of %s (send / keep-alive interval), all equal -/\n" % rel
    s += "def sendTimeoutMs : Nat := %d\n" % others[0]
    s += "/-- capacity of the `ArrayVec` scratch buffers (`PacketContents.data`, `ResendChunk.data`) -/\n"
    s += "def arrayCap : Nat := %d\n" % caps[0]
    body = exlib.fn_body(src, "can_fit_chunk", 0, rel)
    s += "/-- integer literals of `fn can_fit_chunk` in %s, in source order -/\n" % rel
    s += "def lits_can_fit_chunk : List Nat := %s\n" % exlib.lean_nat_list(exlib.int_literals(body))
    s += "end %s\n\n" % ns
    return s


def run(repo):
    s = exlib.HEADER + "\n"
    rel6, rel7 = "net/src/protocol.rs", "net/src/protocol7.rs"
    p6 = exlib.strip_rust_comments(exlib.read(repo, rel6))
    p7 = exlib.strip_rust_comments(exlib.read(repo, rel7))
    n6 = ["CHUNK_HEADER_SIZE", "CHUNK_HEADER_SIZE_VITAL", "HEADER_SIZE", "MAX_PACKETSIZE", "PADDING_SIZE_CONNLESS",
          "TOKEN_SIZE", "MAX_PAYLOAD", "CTRLMSG_CLOSE_REASON_LENGTH", "CHUNK_FLAGS_BITS", "CHUNK_SIZE_BITS",
          "PACKET_FLAGS_BITS", "SEQUENCE_BITS", "SEQUENCE_MODULUS"]
    n7 = ["CHUNK_HEADER_SIZE", "CHUNK_HEADER_SIZE_VITAL", "HEADER_SIZE", "HEADER_SIZE_CONNLESS", "MAX_PACKETSIZE",
          "MAX_PAYLOAD", "CTRLMSG_CLOSE_REASON_LENGTH", "TOKEN_REQUEST_PACKET_SIZE", "CHUNK_FLAGS_BITS",
          "CHUNK_SIZE_BITS", "PACKET_FLAGS_BITS", "SEQUENCE_BITS", "SEQUENCE_MODULUS"]
    s += "namespace Tw.Gen.Conn.P6\n"
    for n, v in _consts(p6, rel6, n6):
        s += "/-- `%s` of %s -/\ndef %s : Nat := %d\n" % (n, rel6, n, v)
    s += "/-- largest payload `write_connless_packet` accepts (%s) -/\ndef connlessMax : Nat := %d\n" % (rel6, _connless_max(p6, rel6, _consts(p6, rel6, n6)))
    s += "def TOKEN_NONE : List Nat := %s\n" % exlib.lean_nat_list(_token(p6, "TOKEN_NONE", rel6))
    s += "def TOKEN_RESERVED : List Nat := %s\n" % exlib.lean_nat_list(_token(p6, "TOKEN_RESERVED", rel6))
    s += "end Tw.Gen.Conn.P6\n\n"
    s += "namespace Tw.Gen.Conn.P7\n"
    for n, v in _consts(p7, rel7, n7):
        s += "/-- `%s` of %s -/\ndef %s : Nat := %d\n" % (n, rel7, n, v)
    s += "/-- largest payload `write_connless_packet` accepts (%s) -/\ndef connlessMax : Nat := %d\n" % (rel7, _connless_max(p7, rel7, _consts(p7, rel7, n7)))
    s += "def TOKEN_NONE : List Nat := %s\n" % exlib.lean_nat_list(_token(p7, "TOKEN_NONE", rel7))
    s += "end Tw.Gen.Conn.P7\n\n"
    s += _conn(repo, "net/src/connection.rs", "Tw.Gen.Conn.C6")
    s += _conn(repo, "net/src/connection7.rs", "Tw.Gen.Conn.C7")
    return {"Conn.lean": s}
