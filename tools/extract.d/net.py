"""net/src/net.rs: the two canned connect packets `Net::accept` feeds to a pending peer's connection
(byte-string literals), the initial peer id, and the increment of `PeerId::get_and_increment`."""
import re

import exlib

_ESC = {"n": 10, "r": 13, "t": 9, "0": 0, "\\": 92, '"': 34, "'": 39}


def _bytes_literal(src, name, rel):
    m = re.search(r"\bconst\s+%s\s*:\s*[^=]+=\s*b\"((?:[^\"\\]|\\.)*)\"\s*;" % re.escape(name), src)
    if not m:
        raise exlib.ExtractError("byte-string constant %s not found in %s" % (name, rel))
    s, out, i = m.group(1), [], 0
    while i < len(s):
        c = s[i]
        if c != "\\":
            out.append(ord(c))
            i += 1
        elif s[i + 1] == "x":
            out.append(int(s[i + 2:i + 4], 16))
            i += 4
        elif s[i + 1] in _ESC:
            out.append(_ESC[s[i + 1]])
            i += 2
        else:
            raise exlib.ExtractError("unsupported escape in %s of %s" % (name, rel))
    return out


def run(repo):
    rel = "net/src/net.rs"
    # byte strings may contain `//`-free text only; strip comments after taking the literals
    raw = exlib.read(repo, rel)
    src = exlib.strip_rust_comments(raw)
    s = exlib.HEADER + "namespace Tw.Gen.Net\n\n"
    for n in ("CONNECT_PACKET", "CONNECT_PACKET_NO_TOKEN"):
        s += "/-- `%s` of %s -/\n" % (n, rel)
        s += "def %s : List Nat := %s\n" % (n, exlib.lean_nat_list(_bytes_literal(raw, n, rel)))
    m = re.search(r"next_peer_id\s*:\s*PeerId\(\s*([0-9_]+)\s*\)", src)
    if not m:
        raise exlib.ExtractError("initial next_peer_id not found in %s" % rel)
    s += "/-- `Peers::new`: the first peer id handed out -/\n"
    s += "def firstPeerId : Nat := %d\n" % int(m.group(1).replace("_", ""))
    body = exlib.fn_body(src, "get_and_increment", 0, rel)
    m = re.search(r"wrapping_add\(\s*([0-9_]+)\s*\)", body)
    if not m:
        raise exlib.ExtractError("wrapping_add literal of PeerId::get_and_increment not found in %s" % rel)
    s += "/-- `PeerId::get_and_increment`: `self.0.wrapping_add(<this>)` -/\n"
    s += "def peerIdStep : Nat := %d\n" % int(m.group(1).replace("_", ""))
    m = re.search(r"struct\s+PeerId\(\s*pub\s+u(\d+)\s*\)", src)
    if not m:
        raise exlib.ExtractError("struct PeerId(pub uN) not found in %s" % rel)
    s += "/-- bit width of `PeerId` -/\n"
    s += "def peerIdBits : Nat := %d\n" % int(m.group(1))
    s += "\nend Tw.Gen.Net\n"
    return {"Net.lean": s}
