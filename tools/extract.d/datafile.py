"""datafile + map: constants of datafile/src/format.rs, the layout table
(version, offset, ignore_version, len) of every `impl MapItem for …` in map/src/format.rs
(len = number of i32 words of the struct), map item type / flag constants, tile struct sizes,
and the integer literals of the functions the model was written against."""
import re
import exlib

PRIM = {"i32": 4, "u8": 1, "i8": 1, "u16": 2, "i16": 2, "u32": 4, "little_endian::I16": 2,
        "little_endian::U16": 2, "little_endian::I32": 4, "Fixed22_10": 4}


def struct_fields(src, name, rel):
    """[(field, type)] of `struct name { … }`, [] for a unit struct `struct name;`."""
    m = re.search(r"\bstruct\s+%s\s*(;|\{([^}]*)\})" % re.escape(name), src)
    if not m:
        raise exlib.ExtractError("struct %s not found in %s" % (name, rel))
    if m.group(1) == ";":
        return []
    out = []
    for f in m.group(2).split(","):
        f = f.strip()
        if not f:
            continue
        fm = re.match(r"(?:pub\s+)?(\w+)\s*:\s*(.+)$", f, re.S)
        if not fm:
            raise exlib.ExtractError("cannot parse field %r of struct %s in %s" % (f, name, rel))
        out.append((fm.group(1), fm.group(2).strip()))
    return out


def type_size(src, ty, rel):
    ty = ty.strip()
    if ty in PRIM:
        return PRIM[ty]
    am = re.match(r"\[\s*(.+?)\s*;\s*(\d+)\s*\]$", ty)
    if am:
        return type_size(src, am.group(1), rel) * int(am.group(2))
    return sum(type_size(src, t, rel) for _, t in struct_fields(src, ty, rel))


def conditions(body):
    """The conditions of every `if` / `else if` (not `if let`) and every `assert!` of a function
    body, in source order, whitespace-normalised."""
    out = []
    for m in re.finditer(r"\b(if|assert!)\b", body):
        j = m.end()
        if m.group(1) == "if":
            if re.match(r"\s*let\b", body[j:]):
                continue
            depth, k = 0, j
            while k < len(body):
                c = body[k]
                if c in "([":
                    depth += 1
                elif c in ")]":
                    depth -= 1
                elif c == "{" and depth == 0:
                    break
                elif body.startswith("=>", k) and depth == 0:
                    break  # a match guard
                k += 1
            cond = body[j:k]
        else:
            k = body.index("(", j)
            depth, e = 0, k
            while True:
                if body[e] == "(":
                    depth += 1
                elif body[e] == ")":
                    depth -= 1
                    if depth == 0:
                        break
                e += 1
            cond = "assert " + body[k + 1:e]
        out.append(" ".join(cond.split()))
    return out



CMP = re.compile(r"(?<![<>=!\-])(<=|>=|==|!=|<|>)(?![<>=])")


def _clean_body(body):
    t = re.sub(r'"(?:[^"\\]|\\.)*"', '""', body)           # string literals
    t = re.sub(r"b?'(?:[^'\\]|\\.)'", "0", t)                 # char literals
    t = re.sub(r"&?'[a-z_]+\b", "", t)                          # lifetimes
    # nested fn signatures (generics, return types, where clauses)
    t = re.sub(r"\bfn\s+\w+\s*(<[^>{]*>)?\s*\([^)]*\)\s*(->[^{;]+)?", "fn ", t)
    t = re.sub(r"::\s*<[^<>]*(<[^<>]*>[^<>]*)*>", "", t)         # turbofish
    t = re.sub(r"\blet\s+(mut\s+)?(\w+)\s*:\s*[^=;]+=", r"let \2 =", t)  # let type annotations
    t = re.sub(r"\bas\s+[A-Za-z_][\w:]*(<[^<>]*>)?", "", t)   # casts
    return t


def _operand(t, i, step):
    """Text of the operand to the left (step -1) or right (step +1) of position i."""
    depth, j = 0, i
    out = []
    opens, closes = ("([", ")]") if step > 0 else (")]", "([")
    while 0 <= j < len(t):
        c = t[j]
        if c in opens:
            depth += 1
        elif c in closes:
            if depth == 0:
                break
            depth -= 1
        elif depth == 0 and (c in ",;{}" or t.startswith("&&", j if step > 0 else j - 1) or t.startswith("||", j if step > 0 else j - 1)
                             or (c == "=" and t[j - 1:j + 2].strip("=") == "" and False)):
            break
        elif depth == 0 and c == "|" :
            break
        out.append(c)
        j += step
    s = "".join(out if step > 0 else reversed(out)).strip()
    # an `if`/`return`/`=`/`=>` before the operand is not part of it
    s = re.split(r"\b(?:if|while|return|match|else|in)\b|=>|(?<![<>=!])=(?![=>])", s)[-1 if step < 0 else 0].strip()
    return s


def _classify(op):
    op = op.strip().lstrip("!*&").strip()
    while op.startswith("(") and op.endswith(")"):
        op = op[1:-1].strip()
    if re.fullmatch(r"-?\s*(0x[0-9a-fA-F_]+|[0-9][0-9_]*)", op):
        return str(int(op.replace(" ", "").replace("_", ""), 0))
    m = re.fullmatch(r"(?:[a-z_]+::)*([A-Z][A-Z0-9_]+)", op)
    if m:
        return m.group(1)
    return "_"


def cmp_shapes(body):
    """Sorted multiset of the comparisons of a piece of Rust, each reduced to
    `[!]<left><op><right>` where an operand is kept only if it is an integer literal or an
    ALL_CAPS constant and is `_` otherwise; `!` marks a comparison inside a negated group `!( … )`.
    Insensitive to renaming, local `let`s, moving code into closures or helper functions of the
    same extracted region; sensitive to every operator flip, dropped negation and changed constant."""
    t = _clean_body(body)
    # which positions lie inside a negated parenthesis group
    neg = [False] * len(t)
    stack = []
    for i, c in enumerate(t):
        if c == "(":
            j = i - 1
            while j >= 0 and t[j].isspace():
                j -= 1
            # `!(` is a negation unless the `!` belongs to a macro name (`assert!(`)
            stack.append(j >= 0 and t[j] == "!" and not (j > 0 and (t[j - 1].isalnum() or t[j - 1] == "_")))
        elif c == ")":
            if stack:
                stack.pop()
        neg[i] = any(stack)
    out = []
    for m in CMP.finditer(t):
        left = _classify(_operand(t, m.start() - 1, -1))
        right = _classify(_operand(t, m.end(), +1))
        out.append(("!" if neg[m.start()] else "") + left + m.group(1) + right)
    return sorted(out)


def fn_bodies(src, rel, include=None, exclude=()):
    """Concatenated bodies of the functions of a source region, optionally only `include`,
    never those in `exclude`."""
    out = []
    for m in re.finditer(r"\bfn\s+(\w+)", src):
        name = m.group(1)
        if name in exclude or (include is not None and name not in include):
            continue
        k = src.find("{", m.end())
        semi = src.find(";", m.end())
        if k < 0 or (0 <= semi < k):
            continue
        depth, j = 0, k
        while j < len(src):
            if src[j] == "{":
                depth += 1
            elif src[j] == "}":
                depth -= 1
                if depth == 0:
                    break
            j += 1
        out.append(src[k:j + 1])
    return "\n".join(out)


def lean_str_list(xs):
    return "[" + ", ".join('"%s"' % x.replace("\\", "\\\\").replace('"', '\\"') for x in xs) + "]"


def impl_fn_body(src, impl_name, fn, rel):
    """Body of `fn` inside one of the `impl <impl_name> {` blocks."""
    ms = list(re.finditer(r"\bimpl(?:<[^>]*>)?\s+%s\s*\{" % re.escape(impl_name), src))
    if not ms:
        raise exlib.ExtractError("impl %s not found in %s" % (impl_name, rel))
    for m in ms:
        i = m.end() - 1
        depth, j = 0, i
        while j < len(src):
            if src[j] == "{":
                depth += 1
            elif src[j] == "}":
                depth -= 1
                if depth == 0:
                    break
            j += 1
        block = src[i:j + 1]
        if re.search(r"\bfn\s+%s\b" % re.escape(fn), block):
            return exlib.fn_body(block, fn, 0, "%s (impl %s)" % (rel, impl_name))
    raise exlib.ExtractError("fn %s not found in any impl %s of %s" % (fn, impl_name, rel))


def run(repo):
    rel = "map/src/format.rs"
    src = exlib.strip_rust_comments(exlib.read(repo, rel))
    impls = re.findall(
        r"impl\s+MapItem\s+for\s+(\w+)\s*\{\s*fn\s+version\(\)\s*->\s*i32\s*\{\s*(-?\d+)\s*\}\s*"
        r"fn\s+offset\(\)\s*->\s*usize\s*\{\s*(\d+)\s*\}\s*"
        r"fn\s+ignore_version\(\)\s*->\s*bool\s*\{\s*(true|false)\s*\}\s*\}", src)
    n_impl = len(re.findall(r"impl\s+MapItem\s+for\s+\w+", src))
    if not impls or len(impls) != n_impl:
        raise exlib.ExtractError("%d of %d `impl MapItem for` blocks of %s have the expected shape" % (len(impls), n_impl, rel))
    s = exlib.HEADER + "namespace Tw.Gen.MapItems\n\n"
    s += "structure Spec where\n  version : Int\n  offset : Nat\n  ignoreVersion : Bool\n  len : Nat\n  deriving Repr, DecidableEq, Inhabited\n\n"
    names = []
    for name, ver, off, ign in impls:
        size = type_size(src, name, rel)
        if size % 4 != 0:
            raise exlib.ExtractError("struct %s in %s is not made of i32 words (size %d)" % (name, rel, size))
        s += "/-- `impl MapItem for %s`, %s i32 fields -/\n" % (name, size // 4)
        s += "def %s : Spec := { version := %s, offset := %s, ignoreVersion := %s, len := %d }\n" % (name, ver, off, ign, size // 4)
        names.append(name)
    s += "\ndef all : List (String × Spec) := [\n" + ",\n".join('  ("%s", %s)' % (n, n) for n in names) + "]\n\n"
    # field positions the readers use
    for st in ("MapItemInfoV1", "MapItemImageV1", "MapItemGroupV1", "MapItemGroupV2", "MapItemLayerV1",
               "MapItemLayerV1TilemapV2", "MapItemLayerV1QuadsV1", "MapItemLayerV1DdraceSoundsV1"):
        pos, lst = 0, []
        for fname, fty in struct_fields(src, st, rel):
            lst.append('("%s", %d)' % (fname, pos))
            pos += type_size(src, fty, rel) // 4
        s += "/-- word index of each field of `%s` -/\ndef fields_%s : List (String × Nat) := [%s]\n" % (st, st, ", ".join(lst))
    s += "\n"
    for c in ("MAP_ITEMTYPE_VERSION", "MAP_ITEMTYPE_INFO", "MAP_ITEMTYPE_IMAGE", "MAP_ITEMTYPE_ENVELOPE",
              "MAP_ITEMTYPE_GROUP", "MAP_ITEMTYPE_LAYER", "MAP_ITEMTYPE_ENVPOINTS", "MAP_ITEMTYPE_DDRACE_SOUND",
              "MAP_ITEMTYPE_LAYER_V1_TILEMAP", "MAP_ITEMTYPE_LAYER_V1_QUADS", "MAP_ITEMTYPE_LAYER_V1_DDRACE_SOUNDS",
              "MAP_ITEMTYPE_LAYER_V1_DDRACE_SOUNDS_LEGACY", "LAYERFLAG_DETAIL", "LAYERFLAGS_ALL",
              "TILELAYERFLAG_GAME", "TILELAYERFLAG_TELEPORT", "TILELAYERFLAG_SPEEDUP", "TILELAYERFLAG_FRONT",
              "TILELAYERFLAG_SWITCH", "TILELAYERFLAG_TUNE"):
        s += "def %s : Nat := %d\n" % (c, exlib.const_expr(src, c, rel))
    s += "\n"
    for st in ("Tile", "TeleTile", "SpeedupTile", "SwitchTile", "TuneTile"):
        s += "/-- `mem::size_of::<%s>()` -/\ndef sizeOf_%s : Nat := %d\n" % (st, st, type_size(src, st, rel))
    # `MapItemLayerV1TilemapExtraRace::offset`: the first `fn offset` with a `version` parameter
    m = re.search(r"fn\s+offset\s*\(\s*version\s*:\s*i32\s*,\s*flags\s*:\s*u32\s*\)", src)
    if not m:
        raise exlib.ExtractError("MapItemLayerV1TilemapExtraRace::offset not found in %s" % rel)
    i = src.index("{", m.end())
    depth, j = 0, i
    while True:
        if src[j] == "{":
            depth += 1
        elif src[j] == "}":
            depth -= 1
            if depth == 0:
                break
        j += 1
    s += "\n/-- integer literals of `MapItemLayerV1TilemapExtraRace::offset` -/\ndef lits_extra_offset : List Nat := %s\n" % exlib.lean_nat_list(exlib.int_literals(src[i:j + 1]))
    s += "\n/-- conditions of `MapItemExt::from_slice_rest` -/\ndef conds_from_slice_rest : List String := %s\n" % lean_str_list(conditions(exlib.fn_body(src, "from_slice_rest", 0, rel)))
    s += "/-- conditions of `MapItemLayerV1TilemapExtraRace::from_slice` -/\ndef conds_extra_from_slice : List String := %s\n" % lean_str_list(conditions(impl_fn_body(src, "MapItemLayerV1TilemapExtraRace", "from_slice", rel)))
    rd = exlib.strip_rust_comments(exlib.read(repo, "map/src/reader.rs"))
    for fn in ("get_index_impl", "get_index_opt"):
        s += "/-- conditions of `%s` (map/src/reader.rs) -/\ndef conds_%s : List String := %s\n" % (fn, fn, lean_str_list(conditions(exlib.fn_body(rd, fn, 0, "map/src/reader.rs"))))
    for impl, fn in (("Group", "from_raw"), ("LayerTilemap", "from_raw"), ("Layer", "from_raw"), ("Image", "from_raw"), ("SettingsIter<'a>", "next")):
        try:
            body = impl_fn_body(rd, impl, fn, "map/src/reader.rs")
        except exlib.ExtractError:
            m2 = re.search(r"impl<'a>\s+Iterator\s+for\s+SettingsIter<'a>\s*\{", rd)
            if not m2:
                raise
            body = exlib.fn_body(rd[m2.start():], fn, 0, "map/src/reader.rs")
        name = re.sub(r"[^A-Za-z]", "", impl.replace("<'a>", ""))
        s += "/-- conditions of `%s::%s` (map/src/reader.rs) -/\ndef conds_%s_%s : List String := %s\n" % (impl, fn, name, fn, lean_str_list(conditions(body)))
    s += "/-- comparison shapes (see `cmp_shapes` in tools/extract.d/datafile.py) of `from_slice_rest`, `from_slice`, `offset` in map/src/format.rs -/\n"
    s += "def cmp_map_format : List String := %s\n" % lean_str_list(cmp_shapes(fn_bodies(src, rel, include=("from_slice_rest", "from_slice", "offset"))))
    s += "/-- comparison shapes of `get_index_impl`, `get_index_opt` and every `from_raw` in map/src/reader.rs -/\n"
    s += "def cmp_map_reader : List String := %s\n" % lean_str_list(cmp_shapes(fn_bodies(rd, "map/src/reader.rs", include=("get_index_impl", "get_index_opt", "from_raw"))))
    s += "\nend Tw.Gen.MapItems\n"

    rel2 = "datafile/src/format.rs"
    f = exlib.strip_rust_comments(exlib.read(repo, rel2))
    t = exlib.HEADER + "namespace Tw.Gen.Datafile\n\n"
    for c in ("VERSION3", "VERSION4", "ITEMTYPE_ID_RANGE"):
        m = re.search(r"\bstatic\s+%s\s*:\s*i32\s*=\s*([^;]+);" % c, f)
        if not m:
            raise exlib.ExtractError("static %s not found in %s" % (c, rel2))
        t += "def %s : Int := %d\n" % (c, int(m.group(1).strip().replace("_", ""), 0))
    for c in ("MAGIC", "MAGIC_BIGENDIAN"):
        m = re.search(r"\bstatic\s+%s\s*:\s*\[u8;\s*4\]\s*=\s*\*b\"(....)\";" % c, f)
        if not m:
            raise exlib.ExtractError("static %s not found in %s" % (c, rel2))
        t += "def %s : List UInt8 := %s\n" % (c, exlib.lean_nat_list([ord(ch) for ch in m.group(1)]))
    for st, want in (("Header", None), ("HeaderVersion", None), ("HeaderRest", None), ("ItemType", None), ("ItemHeader", None)):
        fs = struct_fields(f, st, rel2)
        size = 0
        for _, ty in fs:
            if ty == "[u8; 4]":
                size += 4
            elif ty == "i32":
                size += 4
            else:
                size += sum(4 for _ in struct_fields(f, ty, rel2))
        t += "/-- `mem::size_of::<%s>()` -/\ndef sizeOf_%s : Nat := %d\n" % (st, st, size)
    t += "/-- fields of `HeaderRest`, in order -/\ndef headerRestFields : List String := [%s]\n" % ", ".join('"%s"' % n for n, _ in struct_fields(f, "HeaderRest", rel2))
    raw = exlib.strip_rust_comments(exlib.read(repo, "datafile/src/raw.rs"))
    for fn in ("calculate_total_size", "calculate_size_field"):
        t += "def lits_%s : List Nat := %s\n" % (fn, exlib.lean_nat_list(exlib.int_literals(exlib.fn_body(f, fn, 0, rel2))))
    for fn in ("item_header", "data_size_file", "item"):
        t += "def lits_%s : List Nat := %s\n" % (fn, exlib.lean_nat_list(exlib.int_literals(exlib.fn_body(raw, fn, 0, "datafile/src/raw.rs"))))
    for fn in ("check", "data_size_file", "item_type_indices", "read_data", "item_type"):
        t += "/-- conditions (`if`, `assert!`) of `Reader::%s` in datafile/src/raw.rs, in source order -/\n" % fn
        t += "def conds_raw_%s : List String := %s\n" % (fn, lean_str_list(conditions(impl_fn_body(raw, "Reader", fn, "datafile/src/raw.rs"))))
    for impl, fn in (("HeaderVersion", "check"), ("HeaderRest", "check"), ("Header", "read"), ("Header", "check_size_and_swaplen"), ("Header", "calculate_size_field"), ("Header", "calculate_total_size")):
        t += "/-- conditions of `%s::%s` in datafile/src/format.rs -/\n" % (impl, fn)
        t += "def conds_%s_%s : List String := %s\n" % (impl, fn, lean_str_list(conditions(impl_fn_body(f, impl, fn, rel2))))
    fl = exlib.strip_rust_comments(exlib.read(repo, "datafile/src/file.rs"))
    t += "/-- conditions of `Reader::new_impl` and the seek-base expression of datafile/src/file.rs -/\n"
    nb = exlib.fn_body(fl, "new_impl", 0, "datafile/src/file.rs")
    m3 = re.findall(r"\bseek_base:\s*([^\n]+),\n", nb)
    if not m3:
        raise exlib.ExtractError("seek_base initialiser of CallbackData not found in datafile/src/file.rs")
    t += "def file_seek_base_expr : String := %s\n" % lean_str_list([" ".join(m3[-1].split())])[1:-1]
    t += "def conds_file_ensure_filesize : List String := %s\n" % lean_str_list(conditions(exlib.fn_body(fl, "ensure_filesize", 0, "datafile/src/file.rs")))
    accessors = ("data_size_file", "item_type_indices", "find_item", "read_data", "debug_dump", "item", "item_header",
                 "items", "item_types", "item_type_items", "num_items", "num_data", "num_item_types", "version",
                 "item_type", "new", "map_fn", "read_i32s", "i32_to_bytes", "has_compressed_data", "on_eof", "from")
    t += "/-- comparison shapes of the validation code of datafile/src/raw.rs: every function except the accessors %s -/\n" % ", ".join(accessors)
    t += "def cmp_raw_validation : List String := %s\n" % lean_str_list(cmp_shapes(fn_bodies(raw, "datafile/src/raw.rs", exclude=accessors)))
    t += "/-- comparison shapes of the header code of datafile/src/format.rs (everything except the `ItemHeader` bit accessors) -/\n"
    t += "def cmp_format_header : List String := %s\n" % lean_str_list(cmp_shapes(fn_bodies(f, rel2, exclude=("new", "type_id", "id", "set_type_id_and_id"))))
    t += "/-- comparison shapes of `ensure_filesize` in datafile/src/file.rs, and whether the seek base handed to `read_data` mentions `datafile_start` -/\n"
    t += "def cmp_file_ensure_filesize : List String := %s\n" % lean_str_list(cmp_shapes(exlib.fn_body(fl, "ensure_filesize", 0, "datafile/src/file.rs")))
    t += "def file_seek_base_uses_start : Bool := %s\n" % ("true" if "datafile_start" in m3[-1] else "false")
    t += "\nend Tw.Gen.Datafile\n"
    return {"MapItems.lean": s, "Datafile.lean": t}
