"""datafile + map: constants of datafile/src/format.rs, the layout table
(version, offset, ignore_version, len) of every `impl MapItem for …` in map/src/format.rs
(len = number of i32 words of the struct), map item type / flag constants, tile struct sizes,
and the integer literals of the functions the model was written against."""
import re
import exlib

PRIM = {"i32": 4, "u8": 1, "i8": 1, "u16": 2, "i16": 2, "u32": 4, "little_endian::I16": 2,
        "little_endian::U16": 2, "little_endian::I32": 4, "Fixed22_10": 4}


def struct_fields(src, name, rel):
    """[(field, type)] of `struct name { … }`, [] for a unit struct `struct name;`."""
    m = re.search(r"\bstruct\s+%s\s*(;|\{([^}]*)\})" % re.escape(name), src)
    if not m:
        raise exlib.ExtractError("struct %s not found in %s" % (name, rel))
    if m.group(1) == ";":
        return []
    out = []
    for f in m.group(2).split(","):
        f = f.strip()
        if not f:
            continue
        fm = re.match(r"(?:pub\s+)?(\w+)\s*:\s*(.+)$", f, re.S)
        if not fm:
            raise exlib.ExtractError("cannot parse field %r of struct %s in %s" % (f, name, rel))
        out.append((fm.group(1), fm.group(2).strip()))
    return out


def type_size(src, ty, rel):
    ty = ty.strip()
    if ty in PRIM:
        return PRIM[ty]
    am = re.match(r"\[\s*(.+?)\s*;\s*(\d+)\s*\]$", ty)
    if am:
        return type_size(src, am.group(1), rel) * int(am.group(2))
    return sum(type_size(src, t, rel) for _, t in struct_fields(src, ty, rel))


def run(repo):
    rel = "map/src/format.rs"
    src = exlib.strip_rust_comments(exlib.read(repo, rel))
    impls = re.findall(
        r"impl\s+MapItem\s+for\s+(\w+)\s*\{\s*fn\s+version\(\)\s*->\s*i32\s*\{\s*(-?\d+)\s*\}\s*"
        r"fn\s+offset\(\)\s*->\s*usize\s*\{\s*(\d+)\s*\}\s*"
        r"fn\s+ignore_version\(\)\s*->\s*bool\s*\{\s*(true|false)\s*\}\s*\}", src)
    n_impl = len(re.findall(r"impl\s+MapItem\s+for\s+\w+", src))
    if not impls or len(impls) != n_impl:
        raise exlib.ExtractError("%d of %d `impl MapItem for` blocks of %s have the expected shape" % (len(impls), n_impl, rel))
    s = exlib.HEADER + "namespace Tw.Gen.MapItems\n\n"
    s += "structure Spec where\n  version : Int\n  offset : Nat\n  ignoreVersion : Bool\n  len : Nat\n  deriving Repr, DecidableEq, Inhabited\n\n"
    names = []
    for name, ver, off, ign in impls:
        size = type_size(src, name, rel)
        if size % 4 != 0:
            raise exlib.ExtractError("struct %s in %s is not made of i32 words (size %d)" % (name, rel, size))
        s += "/-- `impl MapItem for %s`, %s i32 fields -/\n" % (name, size // 4)
        s += "def %s : Spec := { version := %s, offset := %s, ignoreVersion := %s, len := %d }\n" % (name, ver, off, ign, size // 4)
        names.append(name)
    s += "\ndef all : List (String × Spec) := [\n" + ",\n".join('  ("%s", %s)' % (n, n) for n in names) + "]\n\n"
    # field positions the readers use
    for st in ("MapItemInfoV1", "MapItemImageV1", "MapItemGroupV1", "MapItemGroupV2", "MapItemLayerV1",
               "MapItemLayerV1TilemapV2", "MapItemLayerV1QuadsV1", "MapItemLayerV1DdraceSoundsV1"):
        pos, lst = 0, []
        for fname, fty in struct_fields(src, st, rel):
            lst.append('("%s", %d)' % (fname, pos))
            pos += type_size(src, fty, rel) // 4
        s += "/-- word index of each field of `%s` -/\ndef fields_%s : List (String × Nat) := [%s]\n" % (st, st, ", ".join(lst))
    s += "\n"
    for c in ("MAP_ITEMTYPE_VERSION", "MAP_ITEMTYPE_INFO", "MAP_ITEMTYPE_IMAGE", "MAP_ITEMTYPE_ENVELOPE",
              "MAP_ITEMTYPE_GROUP", "MAP_ITEMTYPE_LAYER", "MAP_ITEMTYPE_ENVPOINTS", "MAP_ITEMTYPE_DDRACE_SOUND",
              "MAP_ITEMTYPE_LAYER_V1_TILEMAP", "MAP_ITEMTYPE_LAYER_V1_QUADS", "MAP_ITEMTYPE_LAYER_V1_DDRACE_SOUNDS",
              "MAP_ITEMTYPE_LAYER_V1_DDRACE_SOUNDS_LEGACY", "LAYERFLAG_DETAIL", "LAYERFLAGS_ALL",
              "TILELAYERFLAG_GAME", "TILELAYERFLAG_TELEPORT", "TILELAYERFLAG_SPEEDUP", "TILELAYERFLAG_FRONT",
              "TILELAYERFLAG_SWITCH", "TILELAYERFLAG_TUNE"):
        s += "def %s : Nat := %d\n" % (c, exlib.const_expr(src, c, rel))
    s += "\n"
    for st in ("Tile", "TeleTile", "SpeedupTile", "SwitchTile", "TuneTile"):
        s += "/-- `mem::size_of::<%s>()` -/\ndef sizeOf_%s : Nat := %d\n" % (st, st, type_size(src, st, rel))
    # `MapItemLayerV1TilemapExtraRace::offset`: the first `fn offset` with a `version` parameter
    m = re.search(r"fn\s+offset\s*\(\s*version\s*:\s*i32\s*,\s*flags\s*:\s*u32\s*\)", src)
    if not m:
        raise exlib.ExtractError("MapItemLayerV1TilemapExtraRace::offset not found in %s" % rel)
    i = src.index("{", m.end())
    depth, j = 0, i
    while True:
        if src[j] == "{":
            depth += 1
        elif src[j] == "}":
            depth -= 1
            if depth == 0:
                break
        j += 1
    s += "\n/-- integer literals of `MapItemLayerV1TilemapExtraRace::offset` -/\ndef lits_extra_offset : List Nat := %s\n" % exlib.lean_nat_list(exlib.int_literals(src[i:j + 1]))
    s += "\nend Tw.Gen.MapItems\n"

    rel2 = "datafile/src/format.rs"
    f = exlib.strip_rust_comments(exlib.read(repo, rel2))
    t = exlib.HEADER + "namespace Tw.Gen.Datafile\n\n"
    for c in ("VERSION3", "VERSION4", "ITEMTYPE_ID_RANGE"):
        m = re.search(r"\bstatic\s+%s\s*:\s*i32\s*=\s*([^;]+);" % c, f)
        if not m:
            raise exlib.ExtractError("static %s not found in %s" % (c, rel2))
        t += "def %s : Int := %d\n" % (c, int(m.group(1).strip().replace("_", ""), 0))
    for c in ("MAGIC", "MAGIC_BIGENDIAN"):
        m = re.search(r"\bstatic\s+%s\s*:\s*\[u8;\s*4\]\s*=\s*\*b\"(....)\";" % c, f)
        if not m:
            raise exlib.ExtractError("static %s not found in %s" % (c, rel2))
        t += "def %s : List UInt8 := %s\n" % (c, exlib.lean_nat_list([ord(ch) for ch in m.group(1)]))
    for st, want in (("Header", None), ("HeaderVersion", None), ("HeaderRest", None), ("ItemType", None), ("ItemHeader", None)):
        fs = struct_fields(f, st, rel2)
        size = 0
        for _, ty in fs:
            if ty == "[u8; 4]":
                size += 4
            elif ty == "i32":
                size += 4
            else:
                size += sum(4 for _ in struct_fields(f, ty, rel2))
        t += "/-- `mem::size_of::<%s>()` -/\ndef sizeOf_%s : Nat := %d\n" % (st, st, size)
    t += "/-- fields of `HeaderRest`, in order -/\ndef headerRestFields : List String := [%s]\n" % ", ".join('"%s"' % n for n, _ in struct_fields(f, "HeaderRest", rel2))
    raw = exlib.strip_rust_comments(exlib.read(repo, "datafile/src/raw.rs"))
    for fn in ("calculate_total_size", "calculate_size_field"):
        t += "def lits_%s : List Nat := %s\n" % (fn, exlib.lean_nat_list(exlib.int_literals(exlib.fn_body(f, fn, 0, rel2))))
    for fn in ("item_header", "data_size_file", "item"):
        t += "def lits_%s : List Nat := %s\n" % (fn, exlib.lean_nat_list(exlib.int_literals(exlib.fn_body(raw, fn, 0, "datafile/src/raw.rs"))))
    t += "\nend Tw.Gen.Datafile\n"
    return {"MapItems.lean": s, "Datafile.lean": t}
