"""net/src/protocol.rs (0.6 / DDNet) and net/src/protocol7.rs (0.7): every `pub const`, the token
constants, and the integer literals (masks, shifts, sizes) of each header pack/unpack function and of
the reader/writer functions, positionally in source order.

Output: lean/Tw/Gen/Packet6.lean, lean/Tw/Gen/Packet7.lean.

For every `impl <Type> { fn <f> }` listed below the literals are emitted as a list
`<Type>_<f> : List Nat` and as individual constants `<Type>_<f>_<k>`; the model's pack/unpack
functions are written with these constants (never with their own numbers), so an edited mask or
shift changes the model and the bit-field lemmas are re-checked against it."""
import re
import exlib


def impl_body(src, ty, rel):
    m = re.search(r"\bimpl(?:<[^>]*>)?\s+%s(?:<[^>]*>)?\s*\{" % re.escape(ty), src)
    if not m:
        raise exlib.ExtractError("impl %s not found in %s" % (ty, rel))
    i = m.end() - 1
    depth, j = 0, i
    while j < len(src):
        if src[j] == "{":
            depth += 1
        elif src[j] == "}":
            depth -= 1
            if depth == 0:
                return src[i:j + 1]
        j += 1
    raise exlib.ExtractError("unbalanced braces in impl %s of %s" % (ty, rel))


def byte_list(expr, rel, name):
    """`Token([0xff, ..])` / `[1, 2]` / `b"TKEN"` -> list of ints"""
    m = re.search(r'b"([^"]*)"', expr)
    if m:
        return [ord(c) for c in m.group(1)]
    m = re.search(r"\[([^\]]*)\]", expr)
    if not m:
        raise exlib.ExtractError("cannot read byte list of %s in %s" % (name, rel))
    return exlib.int_literals(m.group(1))


def const_text(src, name, rel):
    m = re.search(r"\bconst\s+%s\s*:\s*[^=]+=\s*([^;]+);" % re.escape(name), src)
    if not m:
        raise exlib.ExtractError("constant %s not found in %s" % (name, rel))
    return m.group(1)


def const_eval(src, name, rel, env):
    """Value of `const NAME: T = <expr>;` (integer expressions over literals and earlier constants).
    (exlib.const_expr strips `_` between hex letters and so mangles names like SEQUENCE_BITS.)"""
    e = const_text(src, name, rel)
    e = re.sub(r"\bas\s+[a-z0-9]+", "", e)
    e = re.sub(r"\b(0b[01_]+|0x[0-9a-fA-F_]+|[0-9][0-9_]*)(?:u8|u16|u32|u64|usize|i8|i16|i32|i64|isize)?\b",
               lambda m: str(int(m.group(1).replace("_", ""), 0)), e)
    try:
        return int(eval(e, {"__builtins__": {}}, dict(env)))
    except Exception as ex:
        raise exlib.ExtractError("cannot evaluate constant %s = %s in %s: %r" % (name, e.strip(), rel, ex))


def byte_literals(text):
    """b'\\xff' style byte literals, in order"""
    out = []
    for m in re.finditer(r"b'(\\x[0-9a-fA-F]{2}|\\0|[^\\'])'", text):
        s = m.group(1)
        if s.startswith("\\x"):
            out.append(int(s[2:], 16))
        elif s == "\\0":
            out.append(0)
        else:
            out.append(ord(s))
    return out


INT_CONSTS_6 = [
    "CHUNK_HEADER_SIZE", "CHUNK_HEADER_SIZE_VITAL", "HEADER_SIZE", "MAX_PACKETSIZE", "PADDING_SIZE_CONNLESS",
    "TOKEN_SIZE", "MAX_PAYLOAD", "PACKETFLAG_CONTROL", "PACKETFLAG_CONNLESS", "PACKETFLAG_REQUEST_RESEND",
    "PACKETFLAG_COMPRESSION", "CHUNKFLAG_RESEND", "CHUNKFLAG_VITAL", "CTRLMSG_KEEPALIVE", "CTRLMSG_CONNECT",
    "CTRLMSG_CONNECTACCEPT", "CTRLMSG_ACCEPT", "CTRLMSG_CLOSE", "CTRLMSG_CLOSE_REASON_LENGTH", "CHUNK_FLAGS_BITS",
    "CHUNK_SIZE_BITS", "PACKET_FLAGS_BITS", "SEQUENCE_BITS", "SEQUENCE_MODULUS",
]
BYTE_CONSTS_6 = ["TOKEN_NONE", "TOKEN_RESERVED", "CTRLMSG_TOKEN_MAGIC"]

INT_CONSTS_7 = [
    "CHUNK_HEADER_SIZE", "CHUNK_HEADER_SIZE_VITAL", "HEADER_SIZE", "HEADER_SIZE_CONNLESS", "MAX_PACKETSIZE",
    "MAX_PAYLOAD", "PACKETFLAG_CONTROL", "PACKETFLAG_REQUEST_RESEND", "PACKETFLAG_COMPRESSION",
    "PACKETFLAG_CONNLESS", "CHUNKFLAG_VITAL", "CHUNKFLAG_RESEND", "CTRLMSG_KEEPALIVE", "CTRLMSG_CONNECT",
    "CTRLMSG_ACCEPT", "CTRLMSG_CLOSE", "CTRLMSG_TOKEN", "CONNLESS_VERSION", "CTRLMSG_CLOSE_REASON_LENGTH",
    "TOKEN_REQUEST_PACKET_SIZE", "CHUNK_FLAGS_BITS", "CHUNK_SIZE_BITS", "PACKET_FLAGS_BITS", "SEQUENCE_BITS",
    "SEQUENCE_MODULUS", "VERSION_BITS",
]
BYTE_CONSTS_7 = ["TOKEN_NONE"]

PACKED_6 = [
    ("PacketHeaderPacked", "unpack_warn"), ("PacketHeader", "pack"),
    ("ChunkHeaderPacked", "unpack_warn"), ("ChunkHeader", "pack"),
    ("ChunkHeaderVitalPacked", "unpack_warn"), ("ChunkHeaderVital", "pack"),
]
PACKED_7 = [
    ("PacketHeaderPacked", "unpack_warn"), ("PacketHeader", "pack"),
    ("PacketHeaderConnlessPacked", "unpack_warn"), ("PacketHeaderConnless", "pack"),
    ("ChunkHeaderPacked", "unpack_warn"), ("ChunkHeader", "pack"),
    ("ChunkHeaderVitalPacked", "unpack_warn"), ("ChunkHeaderVital", "pack"),
]
# free / associated functions whose literals the hand-written model was written against
# (name, occurrence index)
FUNCS_6 = [("has_token_heuristic", 0), ("is_initial", 0), ("needs_decompression", 0), ("read_impl", 0),
           ("decompress_impl", 0), ("write_impl", 0), ("write_connless_packet", 0), ("read_chunk_header", 0),
           ("next_warn", 0), ("write_chunk_impl", 0)]
FUNCS_7 = [("needs_decompression", 0), ("read_impl", 0), ("decompress_impl", 0), ("write_impl", 0),
           ("write_connless_packet", 0), ("read_chunk_header", 0), ("next_warn", 0), ("write_chunk_impl", 0)]


def gen(repo, rel, ns, int_consts, byte_consts, packed, funcs, ctrl_write_impl):
    raw = exlib.read(repo, rel)
    # only the non-test part of the file
    cut = raw.find("#[cfg(test)]")
    src = exlib.strip_rust_comments(raw if cut < 0 else raw[:cut])
    s = exlib.HEADER + "namespace Tw.Gen.%s\n\n" % ns
    env = {}
    for n in int_consts:
        v = const_eval(src, n, rel, env)
        env[n] = v
        s += "def %s : Nat := %d\n" % (n, v)
    s += "\n"
    for n in byte_consts:
        bs = byte_list(const_text(src, n, rel), rel, n)
        s += "def %s : List UInt8 := %s\n" % (n, exlib.lean_nat_list(bs))
    s += "\n"
    for ty, fn in packed:
        body = exlib.fn_body(impl_body(src, ty, rel), fn, 0, "%s impl %s" % (rel, ty))
        lits = exlib.int_literals(body)
        s += "/-- integer literals of `%s::%s` in %s, in source order -/\n" % (ty, fn, rel)
        s += "def %s_%s : List Nat := %s\n" % (ty, fn, exlib.lean_nat_list(lits))
        for k, v in enumerate(lits):
            s += "def %s_%s_%d : Nat := %d\n" % (ty, fn, k, v)
        s += "\n"
    # per function: the set of distinct numbers > 1 it mentions -- integer and byte literals, named integer
    # constants (resolved to their values), `.len()` of byte-string constants, and the same for the
    # private helper functions of this file it calls.  A set (sorted), not an ordered list: moving a
    # literal, replacing `4` by `CTRLMSG_TOKEN_MAGIC.len()` or factoring a helper out does not change it,
    # a new or a changed number does.  0 and 1 are left out (comparisons with zero, `+ 1`).
    byte_lens = {}
    for n in byte_consts:
        byte_lens[n] = len(byte_list(const_text(src, n, rel), rel, n))
    free_fns = set(re.findall(r"(?m)^fn\s+([a-z_0-9]+)\s*[<(]", src)) | set(re.findall(r"(?m)^pub fn\s+([a-z_0-9]+)\s*[<(]", src))
    free_fns -= {"write_chunk", "with_buffer", "chunk_header_size"}

    def numbers(body, depth=0, seen=()):
        out = set(exlib.int_literals(body)) | set(byte_literals(body))
        for name in re.findall(r"\b([A-Z][A-Z0-9_]+)\b(?!\s*\.len\(\))", body):
            if name in env:
                out.add(env[name])
        for name in re.findall(r"\b([A-Z][A-Z0-9_]+)\s*\.len\(\)", body):
            if name in byte_lens:
                out.add(byte_lens[name])
        if depth < 2:
            for callee in set(re.findall(r"\b([a-z_][a-z_0-9]*)\s*\(", body)):
                if callee in free_fns and callee not in seen:
                    try:
                        cb = exlib.fn_body(src, callee, 0, rel)
                    except exlib.ExtractError:
                        continue
                    if cb not in body:   # nested helper functions are already part of the text
                        out |= numbers(cb, depth + 1, seen + (callee,))
        return out

    for fn, which in funcs:
        body = exlib.fn_body(src, fn, which, rel)
        nums = sorted(n for n in numbers(body, 0, (fn,)) if n > 1)
        s += "/-- distinct numbers > 1 mentioned by `fn %s` in %s (literals, resolved constants, `.len()` of byte\n" % (fn, rel)
        s += "string constants, private helpers followed), sorted -/\n"
        s += "def nums_%s : List Nat := %s\n\n" % (fn, exlib.lean_nat_list(nums))
    # sizes of the writer's stack buffers and the connless padding byte, by variable name / pattern
    body = exlib.fn_body(src, "write_impl", 0, rel)
    for var, lean in (("token_buffer", "WRITE_TOKEN_BUFFER_SIZE"), ("compression_buffer", "WRITE_COMPRESSION_BUFFER_SIZE")):
        m = re.search(r"let\s+mut\s+%s\s*:\s*ArrayVec<\[u8;\s*([0-9_]+)\]>" % var, body)
        if m:
            s += "/-- capacity of `%s` in `write_impl` -/\ndef %s : Nat := %d\n\n" % (var, lean, int(m.group(1).replace("_", "")))
        elif var == "compression_buffer" or ns == "Packet6":
            raise exlib.ExtractError("ArrayVec `%s` of write_impl not found in %s" % (var, rel))
    if ns == "Packet6":
        body = exlib.fn_body(src, "write_connless_packet", 0, rel)
        pat = r"\[\s*(?:b'\\x([0-9a-fA-F]{2})'|0x([0-9a-fA-F]{1,2})|([0-9]{1,3}))(?:u8)?\s*;"
        m = re.search(r"buffer\.write\(&" + pat, body)
        if not m:
            # the prefix may live in a named byte-array constant: `buffer.write(&NAME)`
            k = re.search(r"buffer\.write\(&\s*([A-Z][A-Z0-9_]*)\s*\)", body)
            if k:
                c = re.search(r"\bconst\s+%s\s*:\s*\[u8;[^\]]*\]\s*=\s*%s" % (re.escape(k.group(1)), pat), src)
                m = c
        if not m:
            raise exlib.ExtractError("padding bytes of write_connless_packet not found in %s" % rel)
        pad = int(m.group(1), 16) if m.group(1) else (int(m.group(2), 16) if m.group(2) else int(m.group(3)))
        s += "/-- the byte a connless packet's header and padding consist of -/\ndef CONNLESS_PADDING_BYTE : Nat := %d\n\n" % pad
    # the size limit of the connectionless writer: `if payload.len() > <expr> { return Err(TooLongData) }`
    body = exlib.fn_body(src, "write_connless_packet", 0, rel)
    m = re.search(r"payload\.len\(\)\s*>\s*([^{]+)\{\s*return\s+Err\(Error::TooLongData\)", body)
    if not m:
        raise exlib.ExtractError("size check of write_connless_packet not found in %s" % rel)
    env_all = dict(env)
    for k in re.finditer(r"\bconst\s+([A-Z][A-Z0-9_]*)\s*:", src):
        if k.group(1) not in env_all:
            try:
                env_all[k.group(1)] = const_eval(src, k.group(1), rel, env_all)
            except exlib.ExtractError:
                pass
    try:
        lim = int(eval(m.group(1), {"__builtins__": {}}, env_all))
    except Exception as ex:
        raise exlib.ExtractError("cannot evaluate the connless size limit %s in %s: %r" % (m.group(1).strip(), rel, ex))
    s += "/-- `write_connless_packet` refuses payloads longer than `%s` -/\n" % m.group(1).strip()
    s += "def CONNLESS_WRITE_LIMIT : Nat := %d\n\n" % lim
    # the `payload.len() > <expr> => Compression` check of read_impl
    body = exlib.fn_body(src, "read_impl", 0, rel)
    m = re.search(r"payload\.len\(\)\s*>\s*([^{]+)\{\s*return\s+Err\(Compression\)", body)
    if not m:
        raise exlib.ExtractError("decompressed-size check of read_impl not found in %s" % rel)
    try:
        lim = int(eval(m.group(1), {"__builtins__": {}}, dict(env)))
    except Exception as ex:
        raise exlib.ExtractError("cannot evaluate the read size limit %s in %s: %r" % (m.group(1).strip(), rel, ex))
    s += "/-- `read_impl` rejects (decompressed) payloads longer than `%s` -/\n" % m.group(1).strip()
    s += "def READ_PAYLOAD_LIMIT : Nat := %d\n\n" % lim
    # the buffer size the doc comment of `Packet::read` asks for (the code asserts MAX_PACKETSIZE)
    m = re.search(r"`buffer` needs to have at least size `(\w+)`\.\s*\n\s*pub fn read<", raw)
    if not m or m.group(1) not in env:
        raise exlib.ExtractError("documented buffer size of Packet::read not found in %s" % rel)
    s += "/-- the buffer size the doc comment of `Packet::read` requires: `%s` -/\n" % m.group(1)
    s += "def READ_BUFFER_DOCUMENTED : Nat := %d\n\n" % env[m.group(1)]
    # `impl ControlPacket { fn write }`
    body = exlib.fn_body(impl_body(src, "ControlPacket", rel), "write", 0, "%s impl ControlPacket" % rel)
    s += "/-- distinct numbers > 1 mentioned by `ControlPacket::write` in %s -/\n" % rel
    s += "def nums_control_write : List Nat := %s\n\n" % exlib.lean_nat_list(sorted(n for n in numbers(body) if n > 1))
    s += "end Tw.Gen.%s\n" % ns
    return s


def run(repo):
    return {
        "Packet6.lean": gen(repo, "net/src/protocol.rs", "Packet6", INT_CONSTS_6, BYTE_CONSTS_6, PACKED_6, FUNCS_6, True),
        "Packet7.lean": gen(repo, "net/src/protocol7.rs", "Packet7", INT_CONSTS_7, BYTE_CONSTS_7, PACKED_7, FUNCS_7, True),
    }
