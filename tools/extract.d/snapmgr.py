"""Snapshot storage / manager (C13): MAX_STORED_SNAPSHOT and the integer literals of
snapshot/src/storage.rs `add_delta`, `set_delta_tick`; the `unwrap_or(-1)` of the sender glue in
server/src/main.rs."""
import re

import exlib


def run(repo):
    s = exlib.HEADER + "namespace Tw.Gen.SnapMgr\n\n"
    rel = "snapshot/src/storage.rs"
    src = exlib.strip_rust_comments(exlib.read(repo, rel))
    v = exlib.const_expr(src, "MAX_STORED_SNAPSHOT", rel)
    s += "/-- `const MAX_STORED_SNAPSHOT` of %s -/\n" % rel
    s += "def MAX_STORED_SNAPSHOT : Nat := %d\n\n" % v
    for fn in ("add_delta", "set_delta_tick"):
        body = exlib.fn_body(src, fn, 0, rel)
        # sorted, file-level constants resolved: order and naming of constants carry no meaning
        vals = list(exlib.int_literals(body))
        for m in re.finditer(r"\bconst\s+([A-Z][A-Z0-9_]*)\s*:", src):
            try:
                cv = exlib.const_expr(src, m.group(1), rel)
            except exlib.ExtractError:
                continue
            vals += [cv] * len(re.findall(r"\b%s\b" % m.group(1), body))
        s += "/-- integer literals of `Storage::%s` in %s, constants resolved, sorted -/\n" % (fn, rel)
        s += "def lits_%s : List Nat := %s\n\n" % (fn, exlib.lean_nat_list(sorted(vals)))
    body = exlib.fn_body(src, "new_builder", 0, rel)
    cont = re.search(r"self\.snaps\.front\(\)", body) is not None and re.search(r"clone_from\(\s*&\s*newest\.snap\s*\)", body) is not None \
        and re.search(r"\.recycle\(\)", body) is not None
    s += "/-- `Storage::new_builder` recycles a copy of the newest stored snapshot (repair of D25) -/\n"
    s += "def new_builder_continues_newest : Bool := %s\n\n" % ("true" if cont else "false")
    rel = "server/src/main.rs"
    src = exlib.strip_rust_comments(exlib.read(repo, rel))
    body = exlib.fn_body(src, "send_snapshots", 0, rel)
    glue = re.search(r"delta_tick\s*=\s*[A-Za-z_.]*\.delta_tick\(\)\s*\.unwrap_or\(\s*-1\s*\)", body) is not None
    chunks = re.search(r"delta_chunks\(\s*game_tick\s*,\s*delta_tick\s*,", body) is not None
    s += "/-- `send_snapshots` uses `delta_tick().unwrap_or(-1)` as the base tick of `delta_chunks(game_tick, delta_tick, ..)` -/\n"
    s += "def glue_base_tick_or_minus_one : Bool := %s\n\n" % ("true" if glue and chunks else "false")
    m = re.search(r"delta_buffer\.reserve\(\s*([0-9_ *]+)\s*\)", body)
    if not m:
        raise exlib.ExtractError("delta_buffer.reserve(..) not found in send_snapshots of %s" % rel)
    s += "/-- the capacity `send_snapshots` reserves for the packed delta -/\n"
    s += "def glue_reserve : Nat := %d\n\n" % int(eval(m.group(1).replace("_", ""), {"__builtins__": {}}, {}))
    s += "end Tw.Gen.SnapMgr\n"
    return {"SnapMgr.lean": s}
