"""teehistorian/src/format/item.rs, raw.rs, format/mod.rs: item ids, UUIDs, sizes, the field
sequence of every `decode` function, the `decode_ex` dispatch, the `cid()` table, and the
integer literals / shape of the functions the hand-written model mirrors."""
import re

import exlib

KIND_CODE = {"int": 0, "string": 1, "data": 2, "uuid": 3, "rest": 4, "raw": 5}


def lean_str(s):
    return '"' + s + '"'


def impl_blocks(src, rel):
    """name -> body text of `impl[<'a>] Name[<'a>] { ... }` (inherent impls only)."""
    out = {}
    for m in re.finditer(r"\bimpl(?:<'a>)?\s+([A-Z][A-Za-z0-9]*)(?:<'a>)?\s*\{", src):
        i = m.end() - 1
        depth, j = 0, i
        while j < len(src):
            if src[j] == "{":
                depth += 1
            elif src[j] == "}":
                depth -= 1
                if depth == 0:
                    break
            j += 1
        if depth != 0:
            raise exlib.ExtractError("unbalanced braces in impl %s of %s" % (m.group(1), rel))
        out.setdefault(m.group(1), "")
        out[m.group(1)] += src[i:j + 1]
    return out


def brace_block(src, i):
    """src[i] == '{': the text up to the matching '}' (inclusive)."""
    depth, j = 0, i
    while j < len(src):
        if src[j] == "{":
            depth += 1
        elif src[j] == "}":
            depth -= 1
            if depth == 0:
                return src[i:j + 1]
        j += 1
    raise exlib.ExtractError("unbalanced braces")


def private_fns(src):
    """name -> (parameter names without self, body) for every non-`pub` fn of the file."""
    out = {}
    for m in re.finditer(r"(?<![\w])(pub(?:\([a-z]+\))?\s+)?fn\s+(\w+)\s*(?:<[^>]*>)?\s*\(", src):
        if m.group(1):
            continue
        # parameter list with nested parentheses
        i = m.end() - 1
        depth, j = 0, i
        while j < len(src):
            if src[j] == "(":
                depth += 1
            elif src[j] == ")":
                depth -= 1
                if depth == 0:
                    break
            j += 1
        params = []
        for part in split_top(src[i + 1:j]):
            part = part.strip()
            if not part or re.match(r"&?\s*(?:'\w+\s+)?(?:mut\s+)?self\b", part):
                continue
            pm = re.match(r"(?:mut\s+)?(\w+)\s*:", part)
            if pm:
                params.append(pm.group(1))
        k = src.find("{", j)
        semi = src.find(";", j)
        if k < 0 or (0 <= semi < k):
            continue
        out[m.group(2)] = (params, brace_block(src, k))
    return out


def split_top(text):
    """split on commas that are not nested in (), [], {} or <>-free closures"""
    parts, depth, cur = [], 0, ""
    for ch in text:
        if ch in "([{":
            depth += 1
        elif ch in ")]}":
            depth -= 1
        if ch == "," and depth == 0:
            parts.append(cur)
            cur = ""
        else:
            cur += ch
    if cur.strip():
        parts.append(cur)
    return parts


def inline_helpers(body, helpers, rounds=4):
    """Replace calls `self.h(args)` / `h(args)` of private helpers by their bodies."""
    for _ in range(rounds):
        changed = False
        for name, (params, hbody) in helpers.items():
            if name in ("read", "new", "new_impl", "from_header", "empty", "fmt", "read_more", "read_kind", "read_item"):
                continue
            pat = re.compile(r"(?:(?<![\w.:])|(?<=self\.))%s\(" % re.escape(name))
            pos = 0
            while True:
                m = pat.search(body, pos)
                if not m:
                    break
                start = m.start()
                if body[max(0, start - 5):start] == "self.":
                    start -= 5
                elif body[max(0, start - 3):start].rstrip().endswith("fn"):
                    pos = m.end()
                    continue
                i = m.end() - 1
                depth, j = 0, i
                while j < len(body):
                    if body[j] == "(":
                        depth += 1
                    elif body[j] == ")":
                        depth -= 1
                        if depth == 0:
                            break
                    j += 1
                args = [a.strip() for a in split_top(body[i + 1:j])]
                if len(args) != len(params):
                    pos = m.end()
                    continue
                rep = hbody
                for pn, av in zip(params, args):
                    rep = re.sub(r"(?<![\w.])%s\b" % re.escape(pn), "(" + av + ")" if not re.fullmatch(r"[\w.]+", av) else av, rep)
                body = body[:start] + rep + body[j + 1:]
                pos = start + len(rep)
                changed = True
        if not changed:
            break
    return body


FIELDS = "tick|prev_player_cid|in_tick|next_item_kind|max_cid"


def rhs_class(field, rhs):
    r = re.sub(r"\s+", "", rhs)
    if field == "tick":
        ops = sorted(set(re.findall(r"(checked_add|checked_sub|wrapping_add|wrapping_sub|saturating_add|saturating_sub|overflowing_add|unchecked_add)", r)))
        if re.search(r"[\w)\]]\+[\w(]", r):
            ops.append("plus")
        if re.search(r"[\w)\]]-[\w(]", r):
            ops.append("minus")
        err = "TickOverflow" if "TickOverflow" in r else "no-error"
        return "/".join(ops) + ":" + err
    if field in ("prev_player_cid", "next_item_kind"):
        if r.startswith("None"):
            return "None"
        if r.startswith("Some("):
            return "Some"
        return r
    if field == "max_cid":
        return "max" if "max(" in r else r
    return r


def effects(text):
    out = set()
    for f, e in re.findall(r"self\.(%s)\s*=(?!=)\s*([^;]*?);" % FIELDS, text, flags=re.S):
        out.add((f, rhs_class(f, e)))
    return sorted(out)


def lean_pairs(ps):
    return "[" + ", ".join('("%s", "%s")' % (a, b.replace('"', "'")) for a, b in ps) + "]"


def prev_cmp(body, rel):
    """The comparison between the previous player's client id and `cid`, as `prev OP cid`."""
    i = body.find("prev_player_cid")
    flip = {">=": "<=", "<=": ">=", ">": "<", "<": ">", "==": "==", "!=": "!="}
    while i >= 0:
        window = body[i:i + 260]
        for l, op, r in re.findall(r"\b(\w+)\s*(>=|<=|==|!=|>|<)\s*(\w+)\b", window):
            if r == "cid" and l != "cid":
                return "prev %s cid" % op
            if l == "cid" and r != "cid":
                return "prev %s cid" % flip[op]
        i = body.find("prev_player_cid", i + 1)
    raise exlib.ExtractError("Reader::read of %s no longer compares prev_player_cid with cid" % rel)


def run(repo):
    rel = "teehistorian/src/format/item.rs"
    src = exlib.strip_rust_comments(exlib.read(repo, rel))
    rel_raw = "teehistorian/src/raw.rs"
    raw = exlib.strip_rust_comments(exlib.read(repo, rel_raw))
    rel_mod = "teehistorian/src/format/mod.rs"
    mod = exlib.strip_rust_comments(exlib.read(repo, rel_mod))

    s = exlib.HEADER + "namespace Tw.Gen.Teehistorian\n\n"

    # --- item ids
    ids = ["FINISH", "TICK_SKIP", "PLAYER_NEW", "PLAYER_OLD", "INPUT_DIFF", "INPUT_NEW", "MESSAGE", "JOIN", "DROP",
           "CONSOLE_COMMAND", "EX"]
    for n in ids:
        m = re.search(r"\bpub const %s\s*:\s*i32\s*=\s*(-?[0-9]+)\s*;" % n, src)
        if not m:
            raise exlib.ExtractError("item id %s not found in %s" % (n, rel))
        s += "def %s : Int := %s\n" % (n, m.group(1))
    s += "\n"
    for n in ("INPUT_LEN", "CONSOLE_COMMAND_MAX_ARGS"):
        s += "def %s : Nat := %d\n" % (n, exlib.const_expr(src, n, rel))
    s += "def BUFFER_SIZE : Nat := %d\n" % exlib.const_expr(raw, "BUFFER_SIZE", rel_raw)
    s += "def MAGIC_LEN : Nat := %d\n\n" % exlib.const_expr(mod, "MAGIC_LEN", rel_mod)

    # --- UUID constants
    uuids = []
    for m in re.finditer(r"\bpub const (UUID_[A-Z0-9_]+)\s*:\s*\[u8;\s*16\]\s*=\s*\[([^\]]*)\]\s*;", src):
        bs = exlib.int_literals(m.group(2))
        if len(bs) != 16 or any(b > 255 for b in bs):
            raise exlib.ExtractError("UUID constant %s of %s does not have 16 bytes" % (m.group(1), rel))
        uuids.append((m.group(1), bs))
    if not uuids:
        raise exlib.ExtractError("no UUID constants in %s" % rel)
    s += "/-- the `pub const UUID_*: [u8; 16]` of %s -/\n" % rel
    s += "def uuids : List (String × List Nat) := [\n"
    s += ",\n".join("  (%s, %s)" % (lean_str(n), exlib.lean_nat_list(bs)) for n, bs in uuids)
    s += "]\n\n"
    m = re.search(r"\bpub const UUID\s*:\s*\[u8;\s*MAGIC_LEN\]\s*=\s*\[([^\]]*)\]\s*;", mod)
    if not m:
        raise exlib.ExtractError("magic UUID not found in %s" % rel_mod)
    s += "def MAGIC : List Nat := %s\n\n" % exlib.lean_nat_list(exlib.int_literals(m.group(1)))

    # --- decode_ex dispatch
    body = exlib.fn_body(src, "decode_ex", 0, rel)
    arms = re.findall(r"\b(UUID_[A-Z0-9_]+)\s*=>\s*([A-Za-z0-9]+)::decode\(&mut Unpacker::new\(data\)\)\?\.into\(\)", body)
    if len(arms) != len(uuids):
        raise exlib.ExtractError("decode_ex of %s: %d arms for %d UUID constants" % (rel, len(arms), len(uuids)))
    pre = re.findall(r"p\.read_([a-z]+)\(", body.split("match")[0])
    if pre != ["uuid", "data"]:
        raise exlib.ExtractError("decode_ex of %s no longer reads uuid, data (found %r)" % (rel, pre))
    s += "/-- match arms of `Item::decode_ex`: UUID constant, struct whose `decode` gets the payload -/\n"
    s += "def exArms : List (String × String) := [\n"
    s += ",\n".join("  (%s, %s)" % (lean_str(a), lean_str(b)) for a, b in arms) + "]\n\n"

    # --- field sequences of every `decode`
    blocks = impl_blocks(src, rel)
    fields = []
    for name, text in blocks.items():
        if name in ("Kind", "Item") or not re.search(r"\bfn decode\b", text):
            continue
        fb = exlib.fn_body(text, "decode", 0, rel)
        reads = re.findall(r"_p\.read_([a-z]+)\(", fb)
        for r in reads:
            if r not in KIND_CODE:
                raise exlib.ExtractError("unknown unpacker call read_%s in %s::decode" % (r, name))
        # field names: `name: _p.read_x(`, `let name = _p.read_x(`, `name: [` for the input arrays,
        # `name: positive(_p.read_int`
        names = []
        for mm in re.finditer(r"(?:\blet\s+(?:mut\s+)?([a-z_0-9]+)\s*=\s*|\b([a-z_0-9]+)\s*:\s*)(?:positive\()?(\[|_p\.read_)", fb):
            names.append(mm.group(1) or mm.group(2))
        fields.append((name, reads, names))
    if len(fields) < 30:
        raise exlib.ExtractError("expected at least 30 item structs with a decode function in %s, found %d" % (rel, len(fields)))
    s += "/-- for every item struct: the unpacker calls of its `decode`, in source order\n"
    s += "(0 int, 1 string, 2 data, 3 uuid, 4 rest, 5 raw), and the names they are bound to -/\n"
    s += "def decodeReads : List (String × List Nat × List String) := [\n"
    s += ",\n".join("  (%s, %s, [%s])" % (lean_str(n), exlib.lean_nat_list([KIND_CODE[r] for r in reads]),
                                            ", ".join(lean_str(x) for x in names)) for n, reads, names in fields)
    s += "]\n\n"

    # --- Item::cid
    body = exlib.fn_body(blocks.get("Item", ""), "cid", 0, rel)
    some = re.findall(r"Item::([A-Za-z0-9]+)\(ref i\)\s*=>\s*i\.cid\b", body)
    none = re.findall(r"Item::([A-Za-z0-9]+)\(_\)\s*=>\s*return None", body)
    if not some or len(some) + len(none) != len(fields) + 1:  # + UnknownEx (no decode)
        raise exlib.ExtractError("Item::cid of %s: %d+%d arms for %d item structs" % (rel, len(some), len(none), len(fields) + 1))
    s += "/-- variants for which `Item::cid` returns `Some(i.cid)` -/\n"
    s += "def cidSome : List String := [%s]\n" % ", ".join(lean_str(x) for x in some)
    s += "def cidNone : List String := [%s]\n\n" % ", ".join(lean_str(x) for x in none)

    # --- Kind::decode arms
    body = exlib.fn_body(blocks.get("Kind", ""), "decode", 0, rel)
    karms = re.findall(r"\b([A-Z_]+)(\s+if version\.has_ex\(\))?\s*=>\s*Kind::([A-Za-z]+)(\(p\.read_int)?", body)
    if len(karms) != len(ids):
        raise exlib.ExtractError("Kind::decode of %s: %d arms for %d ids" % (rel, len(karms), len(ids)))
    s += "/-- arms of `Kind::decode`: id constant, guarded by `version.has_ex()`, variant, reads a second int -/\n"
    s += "def kindArms : List (String × Bool × String × Bool) := [\n"
    s += ",\n".join("  (%s, %s, %s, %s)" % (lean_str(a), "true" if g else "false", lean_str(v), "true" if r else "false")
                    for a, g, v, r in karms) + "]\n\n"

    # --- literals of the hand-modelled functions
    for (txt, fn, r) in ((raw, "read_more", rel_raw), (raw, "empty", rel_raw)):
        b = exlib.fn_body(txt, fn, 0, r)
        s += "/-- integer literals of `fn %s` in %s, in source order -/\n" % (fn, r)
        s += "def lits_%s : List Nat := %s\n\n" % (fn, exlib.lean_nat_list(exlib.int_literals(b)))
    # What `Reader::read` does to the tick state, in a form that survives behaviour-preserving
    # refactorings: private helpers (methods and free functions of raw.rs) are inlined at their
    # call sites with the arguments substituted, right-hand sides are reduced to a class (which
    # arithmetic, which constructor, which literal) so that local renames do not matter, and the
    # result is a sorted set, so that statement order and duplication do not matter.
    body = inline_helpers(exlib.fn_body(raw, "read", 0, rel_raw), private_fns(raw))
    s += "/-- tick-state effects of `Reader::read` (private helpers inlined): field, class of the\n"
    s += "right-hand side; sorted, without duplicates -/\n"
    s += "def readEffects : List (String × String) := %s\n\n" % lean_pairs(effects(body))
    m = re.search(r"format::Item::TickSkip\(\w+\)\s*=>\s*\{", body)
    if not m:
        raise exlib.ExtractError("no `format::Item::TickSkip(_) => {` arm in Reader::read of %s" % rel_raw)
    arm = brace_block(body, m.end() - 1)
    s += "/-- the same for the `TickSkip` arm alone -/\n"
    s += "def tickSkipEffects : List (String × String) := %s\n\n" % lean_pairs(effects(arm))
    s += "/-- the comparison that decides the implicit tick, normalised to `prev OP cid` -/\n"
    s += "def implicitTickCmp : String := %s\n\n" % lean_str(prev_cmp(body, rel_raw))
    # --- header framing, version dispatch, file.rs callback mapping (shape of the source)
    def squash(t):
        return re.sub(r"\s+", " ", t).strip().replace('"', "'")
    b = exlib.fn_body(mod, "read_magic", 0, rel_mod)
    s += "/-- statements of `format::read_magic` -/\n"
    s += "def readMagic : String := %s\n\n" % lean_str(squash(b))
    b = exlib.fn_body(raw, "read_header", 0, rel_raw)
    calls = re.findall(r"format::(read_[a-z_]+)\(", b)
    s += "/-- the `format::read_*` calls of `raw::read_header`, in order -/\n"
    s += "def readHeaderCalls : List String := [%s]\n\n" % ", ".join(lean_str(x) for x in calls)
    b = exlib.fn_body(mod, "read_header", 0, rel_mod)
    first = re.search(r"p\.read_([a-z_]+)\(", b)
    if not first:
        raise exlib.ExtractError("format::read_header of %s reads nothing from the unpacker" % rel_mod)
    s += "/-- the first (and only) unpacker call of `format::read_header` -/\n"
    s += "def headerTextRead : String := %s\n\n" % lean_str(first.group(1))
    b = exlib.fn_body(raw, "from_header", 0, rel_raw)
    arms = re.findall(r"([0-9_]+)\s*=>\s*([^,]+),", b)
    s += "/-- arms of `Reader::from_header` -/\n"
    s += "def fromHeaderArms : List (String × String) := [%s]\n\n" % ", ".join("(%s, %s)" % (lean_str(a), lean_str(squash(x))) for a, x in arms)
    b = exlib.fn_body(mod, "has_ex", 0, rel_mod)
    s += "def hasExBody : String := %s\n\n" % lean_str(squash(b))
    rel_file = "teehistorian/src/file.rs"
    fsrc = exlib.strip_rust_comments(exlib.read(repo, rel_file))
    b = exlib.fn_body(fsrc, "read_at_most", 0, rel_file)
    arms = re.findall(r"\n\s*([^\n]+?)\s*=>\s*([^\n]+?),(?=\n)", b)
    s += "/-- arms of `file.rs` `read_at_most` (result of `File::read` => callback result) -/\n"
    s += "def fileReadArms : List (String × String) := [%s]\n\n" % ", ".join("(%s, %s)" % (lean_str(squash(a)), lean_str(squash(x))) for a, x in arms)
    b = exlib.fn_body(raw, "read_more", 0, rel_raw)
    m = re.search(r"if cb\.read_buffer\(&mut self\.buffer\)\.wrap\(\)\?\.([a-z_]+)\(\)\s*\{\s*([^}]*?)\s*\}\s*else\s*\{\s*([^}]*?)\s*\}", b)
    if not m:
        raise exlib.ExtractError("read_more of %s no longer has the shape `if cb.read_buffer(..).wrap()?.X() { .. } else { .. }`" % rel_raw)
    s += "/-- `read_more`: test applied to the callback result, then-branch, else-branch -/\n"
    s += "def readMoreShape : List String := [%s]\n\n" % ", ".join(lean_str(squash(x)) for x in m.groups())
    s += "end Tw.Gen.Teehistorian\n"
    return {"Teehistorian.lean": s}
