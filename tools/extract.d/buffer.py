"""buffer/src/lib.rs, traits.rs, impls/*.rs: the integer literals of the BufferRef methods, the
initial counter of every intermediate object, and the list of reader types that are declared not to
look at the buffer they are given (`unsafe impl ReadBufferMarker for …`)."""
import re

import exlib


def run(repo):
    rel = "buffer/src/lib.rs"
    src = exlib.strip_rust_comments(exlib.read(repo, rel))
    s = exlib.HEADER + "namespace Tw.Gen.Buffer\n\n"
    for fn in ("new", "advance", "extend", "initialized", "remaining", "cap_at"):
        body = exlib.fn_body(src, fn, 0, rel)
        s += "/-- integer literals of `fn %s` in %s, in source order -/\n" % (fn, rel)
        s += "def lits_%s : List Nat := %s\n\n" % (fn, exlib.lean_nat_list(exlib.int_literals(body)))
    # every intermediate object starts with `initialized: 0`
    inits = []
    for f in ("vec", "arrayvec", "slice", "slice_ref", "buffer_ref"):
        r = "buffer/src/impls/%s.rs" % f
        t = exlib.strip_rust_comments(exlib.read(repo, r))
        m = re.search(r"\binitialized\s*:\s*([0-9]+)\s*,", exlib.fn_body(t, "new", 0, r))
        if not m:
            raise exlib.ExtractError("`initialized: <n>` not found in fn new of %s" % r)
        inits.append(int(m.group(1)))
    s += "/-- initial value of the counter in `fn new` of impls/{vec,arrayvec,slice,slice_ref,buffer_ref}.rs -/\n"
    s += "def initial_counters : List Nat := %s\n\n" % exlib.lean_nat_list(inits)
    # which `Drop` impls exist (the owner is updated only there)
    drops = []
    for f in ("vec", "arrayvec", "slice", "slice_ref", "buffer_ref", "cap_at"):
        r = "buffer/src/impls/%s.rs" % f
        t = exlib.strip_rust_comments(exlib.read(repo, r))
        if re.search(r"\bimpl\b[^{;]*\bDrop\s+for\b", t):
            drops.append(f)
    s += "/-- impls/*.rs files that contain an `impl Drop` -/\n"
    s += "def drop_impls : List String := [%s]\n\n" % ", ".join('"%s"' % d for d in drops)
    rel2 = "buffer/src/traits.rs"
    t = exlib.strip_rust_comments(exlib.read(repo, rel2))
    marked = re.findall(r"unsafe\s+impl\s*(?:<[^>]*>)?\s*ReadBufferMarker\s+for\s+([^{]+?)\s*(?:where[^{]*)?\{", t)
    if not marked:
        raise exlib.ExtractError("no `unsafe impl ReadBufferMarker for …` in %s" % rel2)
    marked = sorted(re.sub(r"\s+", " ", m.strip()) for m in marked)
    s += "/-- types declared `ReadBufferMarker` (their `read` must not look at the buffer), sorted -/\n"
    s += "def marked_readers : List String := [%s]\n\n" % ", ".join('"%s"' % m for m in marked)
    s += "end Tw.Gen.Buffer\n"
    return {"Buffer.lean": s}
