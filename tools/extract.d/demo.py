"""Demo files (C15): constants, masks, magic strings, field capacities and the integer literals of the
chunk-header codec (demo/src/format.rs), of the low-level writer/reader (writer.rs, reader.rs) and of
the high-level writer (ddnet/writer.rs), in source order."""
import re

import exlib


def _impl_fn_body(src, impl_pat, fn, rel, which=0):
    m = re.search(impl_pat, src)
    if not m:
        raise exlib.ExtractError("impl block /%s/ not found in %s" % (impl_pat, rel))
    return exlib.fn_body(src[m.start():], fn, which, rel)


def _byte_string(lit, what, rel):
    """Bytes of a Rust byte-string literal body (only \\0 escapes and ASCII are expected)."""
    out = []
    i = 0
    while i < len(lit):
        c = lit[i]
        if c == "\\":
            if lit[i + 1] == "0":
                out.append(0)
                i += 2
            elif lit[i + 1] == "x":
                out.append(int(lit[i + 2:i + 4], 16))
                i += 4
            else:
                raise exlib.ExtractError("unsupported escape in %s of %s" % (what, rel))
        else:
            out.append(ord(c))
            i += 1
    return out


def _magic(src, pat, what, rel):
    m = re.search(pat, src, flags=re.S)
    if not m:
        raise exlib.ExtractError("%s not found in %s" % (what, rel))
    return _byte_string(m.group(1), what, rel)


def _struct_body(src, name, rel):
    m = re.search(r"\bstruct\s+%s\b[^{;]*\{" % re.escape(name), src)
    if not m:
        raise exlib.ExtractError("struct %s not found in %s" % (name, rel))
    i = m.end() - 1
    depth, j = 0, i
    while j < len(src):
        if src[j] == "{":
            depth += 1
        elif src[j] == "}":
            depth -= 1
            if depth == 0:
                return src[i:j + 1]
        j += 1
    raise exlib.ExtractError("unbalanced braces in struct %s of %s" % (name, rel))


def _fields(body):
    """(name, type) of the fields of a struct body, in order (attributes dropped)."""
    body = re.sub(r"#\[[^\]]*\]", "", body, flags=re.S)
    out = []
    for m in re.finditer(r"(?:pub(?:\([a-z]+\))?\s+)?([a-z_0-9]+)\s*:\s*([^,}]+)[,}]", body):
        out.append((m.group(1), m.group(2).strip()))
    return out


def run(repo):
    s = exlib.HEADER + "namespace Tw.Gen.Demo\n\n"

    rel = "demo/src/format.rs"
    src = exlib.strip_rust_comments(exlib.read(repo, rel))
    for c in ("MAX_SNAPSHOT_SIZE", "CHUNKTYPEFLAG_TICKMARKER", "CHUNKTICKFLAG_KEYFRAME", "CHUNKTICKFLAG_INLINETICK",
              "CHUNKTICKMASK_TICK_V3", "CHUNKTICKMASK_TICK_V5", "CHUNKMASK_TYPE", "CHUNKMASK_SIZE", "CHUNKTYPE_UNKNOWN",
              "CHUNKTYPE_SNAPSHOT", "CHUNKTYPE_MESSAGE", "CHUNKTYPE_SNAPSHOTDELTA", "CHUNKSIZE_ONEBYTEFOLLOWS",
              "CHUNKSIZE_TWOBYTESFOLLOW"):
        s += "/-- `const %s` of %s -/\ndef %s : Nat := %d\n\n" % (c, rel, c, exlib.const_expr(src, c, rel))

    m = re.search(r"const\s+SHA_256_EXTENSION\s*:\s*\[u8;\s*16\]\s*=\s*\[([^\]]*)\]", src)
    if not m:
        raise exlib.ExtractError("SHA_256_EXTENSION not found in %s" % rel)
    s += "/-- `SHA_256_EXTENSION` of %s -/\ndef SHA_256_EXTENSION : List Nat := %s\n\n" % (rel, exlib.lean_nat_list(exlib.int_literals(m.group(1))))

    s += "/-- `#[brw(magic = …)]` of `enum Version` -/\ndef MAGIC : List Nat := %s\n\n" % exlib.lean_nat_list(
        _magic(src, r'magic\s*=\s*b"((?:[^"\\]|\\.)*)"\s*\)\]\s*pub\s+enum\s+Version', "magic of enum Version", rel))
    s += "/-- magic of `DemoKind::Client` -/\ndef KIND_CLIENT : List Nat := %s\n\n" % exlib.lean_nat_list(
        _magic(src, r'magic\s*=\s*b"((?:[^"\\]|\\.)*)"\s*\)\]\s*Client', "magic of DemoKind::Client", rel))
    s += "/-- magic of `DemoKind::Server` -/\ndef KIND_SERVER : List Nat := %s\n\n" % exlib.lean_nat_list(
        _magic(src, r'magic\s*=\s*b"((?:[^"\\]|\\.)*)"\s*\)\]\s*Server', "magic of DemoKind::Server", rel))

    m = re.search(r"pub\s+enum\s+Version\s*\{([^}]*)\}", src)
    if not m:
        raise exlib.ExtractError("enum Version not found in %s" % rel)
    vs = re.findall(r"([A-Za-z0-9]+)\s*=\s*([0-9]+)", m.group(1))
    if not vs:
        raise exlib.ExtractError("enum Version has no explicit discriminants in %s" % rel)
    s += "/-- discriminants of `enum Version` (repr(u8)), in source order -/\ndef versions : List (String × Nat) := [%s]\n\n" % ", ".join(
        '("%s", %s)' % (a, b) for a, b in vs)

    body = exlib.fn_body(src, "max_tick_delta", 0, rel)
    arms = re.findall(r"((?:Version::[A-Za-z0-9]+\s*\|?\s*)+)=>\s*([A-Z0-9_]+)", body)
    if not arms:
        raise exlib.ExtractError("arms of Version::max_tick_delta not found in %s" % rel)
    pairs = []
    for lhs, rhs in arms:
        for v in re.findall(r"Version::([A-Za-z0-9]+)", lhs):
            pairs.append((v, rhs))
    s += "/-- `Version::max_tick_delta`: version name → constant name -/\ndef max_tick_delta : List (String × String) := [%s]\n\n" % ", ".join(
        '("%s", "%s")' % p for p in pairs)

    # layout of the file header structs: (field, type) in order
    for st in ("HeaderStart", "Header", "TimelineMarkers", "MapSha256"):
        fs = _fields(_struct_body(src, st, rel))
        s += "/-- fields of `struct %s` of %s, in order -/\ndef fields_%s : List (String × String) := [%s]\n\n" % (
            st, rel, st, ", ".join('("%s", "%s")' % f for f in fs))
    hs = _struct_body(src, "HeaderStart", rel)
    conds = re.findall(r"#\[br\(if\(([^)]*)\)\)\]\s*pub\s+([a-z_0-9]+)", hs)
    s += "/-- `#[br(if(…))]` conditions of `struct HeaderStart` -/\ndef header_conditions : List (String × String) := [%s]\n\n" % ", ".join(
        '("%s", "%s")' % (f, c.strip()) for c, f in conds)
    asserts = []
    for st in ("Header", "TimelineMarkers", "MapSha256"):
        b = _struct_body(src, st, rel)
        for mm in re.finditer(r"#\[br\(((?:assert\([^)]*\)\s*,?\s*)+)\)\]", b):
            for a in re.findall(r"assert\(([^)]*)\)", mm.group(1)):
                asserts.append(a.strip())
    s += "/-- `#[br(assert(…))]` conditions of the header structs, in order -/\ndef header_asserts : List String := [%s]\n\n" % ", ".join(
        '"%s"' % a for a in asserts)
    s += "/-- does every header struct carry `#[brw(big)]` (big-endian fields)? -/\ndef header_big_endian : Bool := %s\n\n" % (
        "true" if all(re.search(r"#\[brw\(big\)\]\s*pub\(crate\)\s+struct\s+%s\b" % st, src) for st in ("HeaderStart", "Header", "TimelineMarkers")) else "false")

    body = exlib.fn_body(src, "from_raw", 0, rel)
    m = re.search(r"assert!\((.*?)\);", body)
    if not m:
        raise exlib.ExtractError("capacity assertion of CappedString::from_raw not found in %s" % rel)
    s += "/-- the capacity assertion of `CappedString::from_raw` -/\ndef from_raw_assert : String := \"%s\"\n\n" % m.group(1).replace(" ", "")

    # The comparisons of the codec, normalised so that a behaviour-preserving rewrite gives the same
    # data: right-hand sides are resolved to numbers (literals, `u8::MAX`, the constants of this file,
    # width conversions dropped), `x < n` is recorded as `x <= n-1`, `size.try_u8()` counts as
    # `size <= 255`, the name of the bound delta variable does not matter.
    cvals = {}
    for mm in re.finditer(r"\bconst\s+([A-Z_0-9]+)\s*:\s*[a-z0-9]+\s*=", src):
        try:
            cvals[mm.group(1)] = exlib.const_expr(src, mm.group(1), rel)
        except exlib.ExtractError:
            pass

    def resolve(e, what):
        e = re.sub(r"\.(u8|u16|u32|i32|usize|assert_u8|assert_u16)\(\)", "", e.strip())
        e = e.replace("u8::MAX", "255").replace("u16::MAX", "65535")
        e = re.sub(r"(?<=[0-9])_(?=[0-9])", "", e)
        e = re.sub(r"\b([A-Z][A-Z_0-9]+)\b", lambda m: str(cvals[m.group(1)]) if m.group(1) in cvals else m.group(0), e)
        try:
            return int(eval(e, {"__builtins__": {}}, {}))
        except Exception:
            raise exlib.ExtractError("cannot resolve %s (%s) in %s" % (what, e, rel))

    def le_form(op, n, what):
        if op == "<=":
            return n
        if op == "<":
            return n - 1
        raise exlib.ExtractError("unexpected comparison %s in %s of %s" % (op, what, rel))

    body = _impl_fn_body(src, r"impl\s+ChunkHeader\b", "read", rel)
    tests = [le_form(op, resolve(rhs, "over-long test"), "ChunkHeader::read")
             for op, rhs in re.findall(r"if\s+size\s*(<=|<|>=|>)\s*([A-Za-z0-9_:.()]+)", body)]
    s += "/-- the over-long size-encoding tests of `ChunkHeader::read`, as `size <= n`, in source order -/\n"
    s += "def read_overlong_le : List Int := [%s]\n\n" % ", ".join(str(t) for t in tests)
    body = _impl_fn_body(src, r"impl\s+ChunkHeader\b", "write", rel)
    tests = []
    for mm in re.finditer(r"if\s+size\s*(<=|<|>=|>)\s*([A-Za-z0-9_:.()]+)\s*\{|if\s+let\s+Some\(\w+\)\s*=\s*size\.try_u8\(\)", body):
        if mm.group(1):
            tests.append(le_form(mm.group(1), resolve(mm.group(2), "size branch"), "ChunkHeader::write"))
        else:
            tests.append(255)
    s += "/-- the size-encoding branch tests of `ChunkHeader::write`, as `size <= n`, in source order -/\n"
    s += "def write_size_le : List Int := [%s]\n\n" % ", ".join(str(t) for t in tests)
    # which constant goes with which branch of the writer: the flag bytes or-ed in, in source order
    marks = re.findall(r"kind_flag\s*\|\s*([A-Za-z_][A-Za-z0-9_]*)", body)
    s += "/-- what `ChunkHeader::write` ors into the kind flag in its three size branches (`-1` = the size itself) -/\n"
    s += "def write_size_marks : List Int := [%s]\n\n" % ", ".join(
        "-1" if m.startswith("size") else str(resolve(m, "size mark")) for m in marks)
    body = _impl_fn_body(src, r"impl\s+TickMarker\b", "new", rel)
    asserts = [re.sub(r"\s+", "", a) for a in re.findall(r"assert!\(([^;]*)\);", body)]
    s += "/-- the assertions of `TickMarker::new` -/\ndef tick_marker_asserts : List String := [%s]\n\n" % ", ".join('"%s"' % a for a in asserts)
    mm = re.search(r"(!\s*keyframe\s*&&\s*)?(\w+)\s*(<=|<)\s*version\.max_tick_delta\(\)\.i32\(\)\s*(?:([+-])\s*([0-9]+))?", body)
    if not mm:
        raise exlib.ExtractError("inline-delta test of TickMarker::new not found in %s" % rel)
    var = mm.group(2)
    bound = bool(re.search(r"Some\(%s\)\s*(?:=|if|=>)" % re.escape(var), body)) and "tick.checked_sub(p)" in body.replace(" ", "")
    off = int(mm.group(5) or 0) * (-1 if mm.group(4) == "-" else 1)
    s += "/-- the inline-delta test of `TickMarker::new`: (requires `!keyframe`, the compared value is `tick.checked_sub(p)`, `delta <= max_tick_delta + n`) -/\n"
    s += "def tick_inline_test : Bool × Bool × Int := (%s, %s, %d)\n\n" % (
        "true" if mm.group(1) else "false", "true" if bound else "false", le_form(mm.group(3), off, "TickMarker::new"))

    rel = "demo/src/writer.rs"
    src = exlib.strip_rust_comments(exlib.read(repo, rel))
    for c in ("WRITER_VERSION", "WRITER_VERSION_DDNET"):
        m = re.search(r"const\s+%s\s*:\s*Version\s*=\s*Version::([A-Za-z0-9]+)\s*;" % c, src)
        if not m:
            raise exlib.ExtractError("constant %s not found in %s" % (c, rel))
        s += "/-- `const %s` of %s -/\ndef %s : String := \"%s\"\n\n" % (c, rel, c, m.group(1))
    for fn in ("write_message", "write_chunk_impl", "write_tick"):
        # the packing loop of `write_message` lives in `pack_message` (shared with `fits_message`)
        body = exlib.fn_body(src, "pack_message" if fn == "write_message" else fn, 0, rel)
        s += "/-- integer literals of `Writer::%s` in %s, in source order -/\n" % (fn, rel)
        s += "def lits_%s : List Nat := %s\n\n" % (fn, exlib.lean_nat_list(exlib.int_literals(body)))
    body = exlib.fn_body(src, "pack_message", 0, rel)
    if "self.pack_message(msg)" not in exlib.fn_body(src, "write_message", 0, rel):
        raise exlib.ExtractError("write_message no longer packs through pack_message in %s" % rel)
    s += "/-- does `write_message` build its integers with `from_le_bytes`? -/\ndef write_message_le : Bool := %s\n\n" % (
        "true" if "i32::from_le_bytes" in body else "false")
    body = exlib.fn_body(src, "write_chunk_impl", 0, rel)
    s += "/-- does `write_chunk_impl` use `compress` (not `compress_bug`)? -/\ndef writer_compress_plain : Bool := %s\n\n" % (
        "true" if re.search(r"\.compress\(", body) and "compress_bug" not in body else "false")

    asserts = []
    for fn in ("new", "write_chunk_impl", "write_message"):
        body = exlib.fn_body(src, fn, 0, rel)
        for mm in re.finditer(r"assert!\(([^;]*)\);", body):
            cond = re.sub(r',\s*"[^"]*"\s*$', "", mm.group(1).strip())
            asserts.append("%s: %s" % (fn, re.sub(r"\s+", " ", cond)))
        for mm in re.finditer(r'\.expect\("([^"]*)"\)', body):
            asserts.append("%s: expect %s" % (fn, mm.group(1)))
    s += "/-- the assertions and `expect`s of `Writer::new`, `write_chunk_impl`, `write_message` -/\n"
    s += "def writer_asserts : List String := [%s]\n\n" % ", ".join('"%s"' % a for a in asserts)

    rel = "demo/src/reader.rs"
    src = exlib.strip_rust_comments(exlib.read(repo, rel))
    cut = src.find("#[cfg(test)]")
    if cut >= 0:
        src = src[:cut]
    body = exlib.with_helpers(src, exlib.fn_body(src, "read_chunk", 0, rel), rel, {"read_chunk"})
    s += "/-- significant numbers of `Reader::read_chunk` and the private helpers it calls in %s (sorted set\nof integer literals and named constants, without 0 and 1) -/\n" % rel
    s += "def lits_read_chunk : List Nat := %s\n\n" % exlib.lean_nat_list(exlib.significant_set(body, exlib.file_consts(src, rel)))
    s += "/-- does `read_chunk` store message integers with `to_le_bytes`? -/\ndef read_chunk_le : Bool := %s\n\n" % (
        "true" if "to_le_bytes" in body else "false")
    # the comparison that guards `NotIncreasingTick`, in either spelling (`if a OP b { return Err(..) }`,
    # match guard `.. if a OP b => Err(..)`), normalised to `previous OP new`
    m = re.search(r"([A-Za-z_][A-Za-z0-9_]*)\s*(<=|<|>=|>)\s*([A-Za-z_][A-Za-z0-9_]*)\s*(?:\{|=>)\s*(?:return\s+)?Err\(\s*(?:ReadError::)?NotIncreasingTick", body)
    if not m:
        raise exlib.ExtractError("tick comparison of read_chunk not found in %s" % rel)
    lhs, op, rhs = m.group(1), m.group(2), m.group(3)
    is_prev = lambda n: any(k in n.lower() for k in ("prev", "current", "last", "old"))
    if is_prev(rhs) and not is_prev(lhs):
        op = {"<=": ">=", "<": ">", ">=": "<=", ">": "<"}[op]
    elif not is_prev(lhs):
        raise exlib.ExtractError("cannot tell which side of `%s %s %s` is the previous tick in %s" % (lhs, op, rhs, rel))
    s += "/-- the non-increasing tick test of `read_chunk`, normalised to `previous <op> new` -/\ndef read_tick_test : String := \"%s\"\n\n" % op

    rel = "demo/src/ddnet/writer.rs"
    src = exlib.strip_rust_comments(exlib.read(repo, rel))
    body = exlib.fn_body(src, "write_snap", 0, rel)
    s += "/-- integer literals of `DemoWriter::write_snap` in %s, in source order -/\n" % rel
    s += "def lits_write_snap : List Nat := %s\n\n" % exlib.lean_nat_list(exlib.int_literals(body))
    m = re.search(r"tick\s*-\s*last_keyframe\s*(<=|<|>=|>)\s*([0-9_]+)", body)
    if not m:
        raise exlib.ExtractError("key-frame interval test of write_snap not found in %s" % rel)
    s += "/-- key-frame interval test of `write_snap`: `tick - last_keyframe <op> <n>` -/\n"
    s += "def keyframe_test : String × Nat := (\"%s\", %d)\n\n" % (m.group(1), int(m.group(2).replace("_", "")))
    m = re.search(r"if\s+tick\s*(<=|<|>=|>)\s*self\.last_tick", body)
    if not m:
        raise exlib.ExtractError("tick test of write_snap not found in %s" % rel)
    s += "/-- the refusal test of `write_snap`: `tick <op> self.last_tick` -/\ndef low_tick_test : String := \"%s\"\n\n" % m.group(1)
    body = exlib.fn_body(src, "new", 0, rel)
    m = re.search(r"last_tick\s*:\s*(-?[0-9]+)", body)
    if not m:
        raise exlib.ExtractError("initial last_tick of DemoWriter::new not found in %s" % rel)
    s += "/-- initial `last_tick` of `DemoWriter::new` -/\ndef initial_last_tick : Int := %s\n\n" % m.group(1)

    body = exlib.fn_body(src, "write_msg", 0, rel)
    s += "/-- does `write_msg` clear its packing buffer on entry? -/\n"
    s += "def write_msg_clears_on_entry : Bool := %s\n\n" % ("true" if re.match(r"\{\s*self\.buf\.clear\(\);", body) else "false")
    wb = exlib.fn_body(src, "write_snap", 0, rel)
    marks = [("clear", "self.buf.clear()"), ("pack", "with_packer("), ("tick", "self.inner.write_tick("), ("data", "self.inner.write_snapshot")]
    order = sorted((wb.find(tok), name) for name, tok in marks if wb.find(tok) >= 0)
    s += "/-- first occurrences, in source order, of: clearing the buffer, packing the snap, writing the tick marker, writing the data chunk in `write_snap` -/\n"
    s += "def write_snap_order : List String := [%s]\n\n" % ", ".join('"%s"' % n for _, n in order)
    pre = []
    for fn in ("write_snap", "write_msg"):
        b = exlib.fn_body(src, fn, 0, rel)
        for mm in re.finditer(r"(!?)\s*(?:crate::Writer::|self\.inner\.)(fits_[a-z]+)\(", b):
            pre.append("%s: %s%s" % (fn, mm.group(1), mm.group(2)))
    s += "/-- the size pre-checks of `write_snap` / `write_msg` (refusal before anything is written) -/\n"
    s += "def hl_prechecks : List String := [%s]\n\n" % ", ".join('"%s"' % x for x in pre)
    wsrc = exlib.strip_rust_comments(exlib.read(repo, "demo/src/writer.rs"))
    fc = exlib.fn_body(wsrc, "fits_chunk", 0, "demo/src/writer.rs")
    fm = exlib.fn_body(wsrc, "fits_message", 0, "demo/src/writer.rs")
    s += "/-- the conditions of `Writer::fits_chunk` and `Writer::fits_message` -/\n"
    s += "def fits_chunk_cond : String := \"%s\"\n" % re.sub(r"\s+", " ", fc.strip("{} \n"))
    s += "def fits_message_cond : String := \"%s\"\n\n" % re.sub(r"\s+", " ", fm.strip("{} \n"))
    body = exlib.fn_body(src, "write_snap", 0, rel)
    s += "/-- which snapshot does `write_snap` recycle into the next builder? -/\n"
    mm = re.findall(r"self\.builder\s*=\s*([^;]*);", body)
    s += "def write_snap_builder_sources : List String := [%s]\n\n" % ", ".join('"%s"' % re.sub(r"\s+", "", x) for x in mm)

    rel = "gamenet/ddnet/src/snap_obj.rs"
    src = exlib.strip_rust_comments(exlib.read(repo, rel))
    consts = dict((a, int(b)) for a, b in re.findall(r"pub const ([A-Z_0-9]+): u16 = ([0-9]+);", src))
    body = exlib.fn_body(src, "obj_size", 0, rel)
    arms = re.findall(r"([A-Z_0-9]+)\s*=>\s*([0-9]+)\s*,", body)
    if not arms:
        raise exlib.ExtractError("arms of obj_size not found in %s" % rel)
    pairs = []
    for name, sz in arms:
        if name not in consts:
            raise exlib.ExtractError("constant %s of obj_size not found in %s" % (name, rel))
        pairs.append((consts[name], int(sz)))
    s += "/-- `obj_size` of %s: `(type id, number of integers)` -/\n" % rel
    s += "def ddnet_obj_sizes : List (Nat × Nat) := [%s]\n\n" % ", ".join("(%d, %d)" % p for p in pairs)

    s += "end Tw.Gen.Demo\n"
    return {"Demo.lean": s}
