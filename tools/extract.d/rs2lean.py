"""Rust -> Lean translation of the small pure kernels (tools/rs2lean, target table
tools/rs2lean/targets.conf) -> lean/Tw/Gen/Rs*.lean.

Builds the translator on demand (cargo, offline) when its binary is missing or older than its
sources, runs it against `repo`, and returns the generated modules.  A construct outside the
supported subset, a missing item or a failed build is an `ExtractError` naming the item: the tie
between the model and the source is then broken and ./check says so (DESIGN 2.6)."""
import glob
import os
import subprocess

import exlib

HERE = os.path.dirname(os.path.abspath(__file__))
TOOL = os.path.join(os.path.dirname(HERE), "rs2lean")
BIN = os.path.join(TOOL, "target", "release", "rs2lean")


def _sources():
    return [os.path.join(TOOL, "Cargo.toml"), os.path.join(TOOL, "Cargo.lock")] + sorted(
        glob.glob(os.path.join(TOOL, "src", "*.rs")))


def _build_if_needed():
    try:
        have = os.stat(BIN).st_mtime
    except OSError:
        have = None
    newest = max(os.stat(p).st_mtime for p in _sources() if os.path.exists(p))
    if have is not None and have >= newest:
        return
    env = dict(os.environ, CARGO_NET_OFFLINE="true")
    p = subprocess.run(["cargo", "build", "--offline", "--release", "-j", "6"], cwd=TOOL, env=env,
                       stdout=subprocess.PIPE, stderr=subprocess.STDOUT, text=True)
    if p.returncode != 0 or not os.path.exists(BIN):
        raise exlib.ExtractError("cannot build tools/rs2lean:\n" + p.stdout[-2000:])
    os.utime(BIN, None)


def run(repo):
    _build_if_needed()
    p = subprocess.run([BIN, repo, os.path.join(TOOL, "targets.conf")], stdout=subprocess.PIPE,
                       stderr=subprocess.PIPE, text=True)
    files = {}
    name = None
    for line in p.stdout.splitlines(keepends=True):
        if line.startswith("=== "):
            name = line[4:].strip()
            files[name] = ""
        elif name is not None:
            files[name] += line
    if p.returncode != 0:
        # a module that could not be translated keeps its previous file out of the result, so
        # extract.py leaves the old file in place; the error makes the check report a broken tie
        raise exlib.ExtractError("rs2lean: " + (p.stderr.strip() or "exit %d" % p.returncode))
    return files
