"""huffman: the 513-node table of huffman/src/instances/teeworlds.rs, the frequency file, constants."""
import re
import exlib


# functions of huffman/src/lib.rs that existed when the model was written (modelled or tied on their
# own); any other function of the file that a modelled function calls is a new private helper and is
# followed
KNOWN_FNS = {
    "compress_into", "compress", "decompress_into", "decompress", "into_iter", "next", "size_hint", "len",
    "next_back", "new", "from_frequencies", "from_frequencies_array", "compressed_bit_len", "compressed_len",
    "compressed_len_bug", "compress_into_vec", "compress_bug", "compress_impl", "compress_impl_unsafe",
    "decompress_into_vec", "decompress_impl", "decompress_unsafe", "symbol_bit_length", "get_node", "repr",
    "to_symbol_repr", "to_node", "num_bits", "bit", "fmt", "from", "roundtrip_node", "roundtrip_symbol",
}


def file_consts(lib):
    """file-level integer consts, resolved (those that are not integer expressions are skipped)"""
    names = re.findall(r"\bconst\s+([A-Z][A-Z0-9_]*)\s*:", lib)
    env = {}
    for _ in range(len(names) + 1):
        for n in names:
            if n in env:
                continue
            try:
                env[n] = exlib.const_expr(lib, n, "huffman/src/lib.rs", env)
            except exlib.ExtractError:
                pass
    return env


def _block(text, i):
    """text[i] == '{': index one past the matching brace"""
    depth = 0
    for j in range(i, len(text)):
        if text[j] == "{":
            depth += 1
        elif text[j] == "}":
            depth -= 1
            if depth == 0:
                return j + 1
    raise exlib.ExtractError("unbalanced braces in a closure of huffman/src/lib.rs")


def _split_closures(text):
    """(text without closure definitions, {name: closure body}) for `let [mut] name = [move] |..| [-> T] body;`"""
    closures = {}
    pat = re.compile(r"\blet\s+(?:mut\s+)?([a-z_][a-z0-9_]*)\s*=\s*(?:move\s+)?\|[^|]*\|\s*(?:->\s*[^{;]+)?")
    while True:
        m = pat.search(text)
        if not m:
            return text, closures
        j = m.end()
        if j < len(text) and text[j] == "{":
            end = _block(text, j)
        else:
            end = text.index(";", j)
        closures[m.group(1)] = text[j:end]
        text = text[:m.start()] + text[end:]


def constants_of(text, lib, consts, seen, outer=None):
    text, closures = _split_closures(exlib.strip_rust_comments(text))
    closures = dict(outer or {}, **closures)
    out = list(exlib.int_literals(text))
    for ident in re.findall(r"\b[A-Z][A-Z0-9_]*\b", text):
        if ident in consts:
            out.append(consts[ident])
    for name, body in closures.items():
        calls = len(re.findall(r"(?<![A-Za-z0-9_.])%s\s*\(" % re.escape(name), text))
        if calls:
            rest = {k: v for k, v in closures.items() if k != name}
            out += calls * constants_of(body, lib, consts, seen, rest)
    for name in set(re.findall(r"\bfn\s+([a-z_][a-z0-9_]*)", lib)) - KNOWN_FNS - seen:
        calls = len(re.findall(r"(?:\bself\s*\.\s*|\bSelf\s*::\s*|(?<![A-Za-z0-9_.:]))%s\s*\(" % re.escape(name), text))
        if calls:
            out += calls * constants_of(exlib.fn_body(lib, name, 0, "huffman/src/lib.rs"), lib, consts, seen | {name})
    return out


def run(repo):
    rel = "huffman/src/instances/teeworlds.rs"
    src = exlib.strip_rust_comments(exlib.read(repo, rel))
    nodes = re.findall(r"Node\s*\{\s*children:\s*\[\s*(\d+)\s*,\s*(\d+)\s*\]\s*\}", src)
    if not nodes:
        raise exlib.ExtractError("no Node entries found in %s" % rel)
    lib = exlib.strip_rust_comments(exlib.read(repo, "huffman/src/lib.rs"))
    eof = exlib.const_expr(lib, "EOF", "huffman/src/lib.rs")
    nsym = exlib.const_expr(lib, "NUM_SYMBOLS", "huffman/src/lib.rs", {"EOF": eof})
    nnodes = exlib.const_expr(lib, "NUM_NODES", "huffman/src/lib.rs", {"NUM_SYMBOLS": nsym})
    root = exlib.const_expr(lib, "ROOT_IDX", "huffman/src/lib.rs", {"NUM_NODES": nnodes})
    freq = [int(x) for x in exlib.read(repo, "huffman/data/frequencies").split()]
    s = exlib.HEADER + "namespace Tw.Gen.Huffman\n\n"
    s += "def EOF : Nat := %d\ndef NUM_SYMBOLS : Nat := %d\ndef NUM_NODES : Nat := %d\ndef ROOT_IDX : Nat := %d\n\n" % (eof, nsym, nnodes, root)
    for a, b in nodes:
        if not (0 <= int(a) < 65536 and 0 <= int(b) < 65536):
            raise exlib.ExtractError("Node entry out of u16 range in %s" % rel)
    # The table is emitted as one big numeral (entry i occupies bits 32*i .. 32*i+31:
    # children[0] in the high half, children[1] in the low half) so that the Lean kernel can look an
    # entry up with two divisions instead of walking a 513-element literal.  The listing below the
    # numeral is a comment for the reader; the driver op `table` prints the decoded entries and the
    # correspondence compares everything observable of them with the real crate.
    big = 0
    for i, (a, b) in enumerate(nodes):
        big |= ((int(a) << 16) | int(b)) << (32 * i)
    s += "def numNodesInSource : Nat := %d\n\n" % len(nodes)
    s += "/-- `INSTANCE.nodes` of %s packed: entry `i` = bits `32*i .. 32*i+31` -/\n" % rel
    s += "def tableNat : Nat :=\n  0x%x\n\n" % big
    s += "/-- `INSTANCE.nodes[i]` as `(children[0], children[1])` -/\n"
    s += "def entry (i : Nat) : Nat × Nat :=\n  ((tableNat / 2 ^ (32 * i + 16)) % 65536, (tableNat / 2 ^ (32 * i)) % 65536)\n\n"
    s += "def table : Array (Nat × Nat) := ((List.range %d).map entry).toArray\n\n" % len(nodes)
    s += "/- listing (index: children[0], children[1]):\n"
    for i in range(0, len(nodes), 8):
        s += "  %3d: " % i + ", ".join("(%s, %s)" % n for n in nodes[i:i + 8]) + "\n"
    s += "-/\n\n"
    s += "/-- huffman/data/frequencies -/\ndef frequencies : List Nat := %s\n\n" % exlib.lean_nat_list(freq)
    consts = file_consts(lib)
    s += ("/- Integer constants of the modelled functions as *sorted sets of significant numbers* (0 and 1 dropped): integer literals plus\n"
          "file-level `const`s resolved to their values; a closure defined inside the function, or a private\n"
          "helper that did not exist when the model was written, contributes its constants once per call\n"
          "site.  Order, names of locals and the extraction of a repeated statement into a closure/helper\n"
          "therefore do not change these lists; a changed, added or removed constant does. -/\n")
    for fn in ("compress_impl_unsafe", "decompress_unsafe", "to_symbol_repr", "to_node"):
        body = exlib.fn_body(lib, fn, 0, "huffman/src/lib.rs")
        s += "def lits_%s : List Nat := %s\n" % (fn, exlib.lean_nat_list(sorted(v for v in set(constants_of(body, lib, consts, {fn})) if v not in (0, 1))))
    s += "\nend Tw.Gen.Huffman\n"
    return {"Huffman.lean": s}
