"""huffman: the 513-node table of huffman/src/instances/teeworlds.rs, the frequency file, constants."""
import re
import exlib


def run(repo):
    rel = "huffman/src/instances/teeworlds.rs"
    src = exlib.strip_rust_comments(exlib.read(repo, rel))
    nodes = re.findall(r"Node\s*\{\s*children:\s*\[\s*(\d+)\s*,\s*(\d+)\s*\]\s*\}", src)
    if not nodes:
        raise exlib.ExtractError("no Node entries found in %s" % rel)
    lib = exlib.strip_rust_comments(exlib.read(repo, "huffman/src/lib.rs"))
    eof = exlib.const_expr(lib, "EOF", "huffman/src/lib.rs")
    nsym = exlib.const_expr(lib, "NUM_SYMBOLS", "huffman/src/lib.rs", {"EOF": eof})
    nnodes = exlib.const_expr(lib, "NUM_NODES", "huffman/src/lib.rs", {"NUM_SYMBOLS": nsym})
    root = exlib.const_expr(lib, "ROOT_IDX", "huffman/src/lib.rs", {"NUM_NODES": nnodes})
    freq = [int(x) for x in exlib.read(repo, "huffman/data/frequencies").split()]
    s = exlib.HEADER + "namespace Tw.Gen.Huffman\n\n"
    s += "def EOF : Nat := %d\ndef NUM_SYMBOLS : Nat := %d\ndef NUM_NODES : Nat := %d\ndef ROOT_IDX : Nat := %d\n\n" % (eof, nsym, nnodes, root)
    s += "/-- `INSTANCE.nodes` of %s: `(children[0], children[1])` -/\n" % rel
    s += "def table : Array (Nat × Nat) := #[\n"
    rows = []
    for i in range(0, len(nodes), 8):
        rows.append("  " + ", ".join("(%s, %s)" % n for n in nodes[i:i + 8]))
    s += ",\n".join(rows) + "]\n\n"
    s += "/-- huffman/data/frequencies -/\ndef frequencies : List Nat := %s\n\n" % exlib.lean_nat_list(freq)
    for fn in ("compress_impl_unsafe", "decompress_unsafe", "to_symbol_repr", "to_node"):
        body = exlib.fn_body(lib, fn, 0, "huffman/src/lib.rs")
        s += "def lits_%s : List Nat := %s\n" % (fn, exlib.lean_nat_list(exlib.int_literals(body)))
    s += "\nend Tw.Gen.Huffman\n"
    return {"Huffman.lean": s}
