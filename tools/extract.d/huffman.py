"""huffman: the 513-node table of huffman/src/instances/teeworlds.rs, the frequency file, constants."""
import re
import exlib


def run(repo):
    rel = "huffman/src/instances/teeworlds.rs"
    src = exlib.strip_rust_comments(exlib.read(repo, rel))
    nodes = re.findall(r"Node\s*\{\s*children:\s*\[\s*(\d+)\s*,\s*(\d+)\s*\]\s*\}", src)
    if not nodes:
        raise exlib.ExtractError("no Node entries found in %s" % rel)
    lib = exlib.strip_rust_comments(exlib.read(repo, "huffman/src/lib.rs"))
    eof = exlib.const_expr(lib, "EOF", "huffman/src/lib.rs")
    nsym = exlib.const_expr(lib, "NUM_SYMBOLS", "huffman/src/lib.rs", {"EOF": eof})
    nnodes = exlib.const_expr(lib, "NUM_NODES", "huffman/src/lib.rs", {"NUM_SYMBOLS": nsym})
    root = exlib.const_expr(lib, "ROOT_IDX", "huffman/src/lib.rs", {"NUM_NODES": nnodes})
    freq = [int(x) for x in exlib.read(repo, "huffman/data/frequencies").split()]
    s = exlib.HEADER + "namespace Tw.Gen.Huffman\n\n"
    s += "def EOF : Nat := %d\ndef NUM_SYMBOLS : Nat := %d\ndef NUM_NODES : Nat := %d\ndef ROOT_IDX : Nat := %d\n\n" % (eof, nsym, nnodes, root)
    for a, b in nodes:
        if not (0 <= int(a) < 65536 and 0 <= int(b) < 65536):
            raise exlib.ExtractError("Node entry out of u16 range in %s" % rel)
    # The table is emitted as one big numeral (entry i occupies bits 32*i .. 32*i+31:
    # children[0] in the high half, children[1] in the low half) so that the Lean kernel can look an
    # entry up with two divisions instead of walking a 513-element literal.  The listing below the
    # numeral is a comment for the reader; the driver op `table` prints the decoded entries and the
    # correspondence compares everything observable of them with the real crate.
    big = 0
    for i, (a, b) in enumerate(nodes):
        big |= ((int(a) << 16) | int(b)) << (32 * i)
    s += "def numNodesInSource : Nat := %d\n\n" % len(nodes)
    s += "/-- `INSTANCE.nodes` of %s packed: entry `i` = bits `32*i .. 32*i+31` -/\n" % rel
    s += "def tableNat : Nat :=\n  0x%x\n\n" % big
    s += "/-- `INSTANCE.nodes[i]` as `(children[0], children[1])` -/\n"
    s += "def entry (i : Nat) : Nat × Nat :=\n  ((tableNat / 2 ^ (32 * i + 16)) % 65536, (tableNat / 2 ^ (32 * i)) % 65536)\n\n"
    s += "def table : Array (Nat × Nat) := ((List.range %d).map entry).toArray\n\n" % len(nodes)
    s += "/- listing (index: children[0], children[1]):\n"
    for i in range(0, len(nodes), 8):
        s += "  %3d: " % i + ", ".join("(%s, %s)" % n for n in nodes[i:i + 8]) + "\n"
    s += "-/\n\n"
    s += "/-- huffman/data/frequencies -/\ndef frequencies : List Nat := %s\n\n" % exlib.lean_nat_list(freq)
    for fn in ("compress_impl_unsafe", "decompress_unsafe", "to_symbol_repr", "to_node"):
        body = exlib.fn_body(lib, fn, 0, "huffman/src/lib.rs")
        s += "def lits_%s : List Nat := %s\n" % (fn, exlib.lean_nat_list(exlib.int_literals(body)))
    s += "\nend Tw.Gen.Huffman\n"
    return {"Huffman.lean": s}
