"""packer/src/lib.rs: the integer literals of read_int / write_int / finish, in source order."""
import exlib


def run(repo):
    rel = "packer/src/lib.rs"
    src = exlib.strip_rust_comments(exlib.read(repo, rel))
    s = exlib.HEADER + "namespace Tw.Gen.Packer\n\n"
    for fn, which in (("read_int", 0), ("write_int", 0), ("to_bit", 0), ("finish", 0), ("string_to_ints", 0), ("new_from_demo", 0)):
        body = exlib.fn_body(src, fn, which, rel)
        s += "/-- integer literals of `fn %s` in %s, in source order -/\n" % (fn, rel)
        s += "def lits_%s : List Nat := %s\n\n" % (fn, exlib.lean_nat_list(exlib.int_literals(body)))
    s += "end Tw.Gen.Packer\n"
    return {"Packer.lean": s}
