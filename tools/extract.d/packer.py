"""packer/src/lib.rs: literal ties for read_int / write_int / finish.

`lits_<fn>`: the integer literals of the function in source order (kept for reference).
`sig_<fn>`: the *significant* constants of the function — every integer literal of value >= 5 (>= 2 for `finish` / `new_from_demo`) after
file-level `const NAME: T = <int>;` definitions have been substituted for their names — as a sorted
multiset.  The tie theorems of C08 pin the `sig_` lists (masks 0x3f/0x7f/0x80/0xf0, digit widths 6/7,
buffer size 5): they survive renaming a magic number into a named constant or restructuring the
loop, and break when a mask, width or limit changes."""
import re
import exlib


def file_consts(src):
    out = {}
    for m in re.finditer(r"\bconst\s+([A-Z][A-Z0-9_]*)\s*:\s*[A-Za-z0-9_]+\s*=\s*([^;]+);", src):
        v = exlib.int_literals(m.group(2))
        if len(v) == 1 and re.fullmatch(r"\s*(0b[01_]+|0x[0-9a-fA-F_]+|[0-9][0-9_]*)\s*", m.group(2)):
            out[m.group(1)] = v[0]
    return out


def resolved_literals(body, consts):
    def sub(m):
        return str(consts[m.group(0)]) if m.group(0) in consts else m.group(0)
    return exlib.int_literals(re.sub(r"\b[A-Z][A-Z0-9_]*\b", sub, body))


def run(repo):
    rel = "packer/src/lib.rs"
    src = exlib.strip_rust_comments(exlib.read(repo, rel))
    consts = file_consts(src)
    s = exlib.HEADER + "namespace Tw.Gen.Packer\n\n"
    for fn, which in (("read_int", 0), ("write_int", 0), ("to_bit", 0), ("finish", 0), ("string_to_ints", 0), ("new_from_demo", 0)):
        body = exlib.fn_body(src, fn, which, rel)
        s += "/-- integer literals of `fn %s` in %s, in source order -/\n" % (fn, rel)
        s += "def lits_%s : List Nat := %s\n" % (fn, exlib.lean_nat_list(exlib.int_literals(body)))
        lim = 2 if fn in ("finish", "new_from_demo") else 5
        sig = sorted(v for v in resolved_literals(body, consts) if v >= lim)
        s += "/-- significant constants (>= 5, named constants resolved) of `fn %s`, sorted -/\n" % fn
        s += "def sig_%s : List Nat := %s\n\n" % (fn, exlib.lean_nat_list(sig))
    s += "end Tw.Gen.Packer\n"
    return {"Packer.lean": s}
