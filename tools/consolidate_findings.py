#!/usr/bin/env python3
"""Consolidates known_findings.d/*.json into known_findings.json: resolves the subject of each
`fix:` commit to its hash in /repo and adds the one-line record
`fixed: property=<id> <commit> <what failed>` / `open: property=<id> <tag> <what fails>`."""
import glob
import json
import os
import subprocess
import sys

VERIF = os.path.dirname(os.path.dirname(os.path.abspath(__file__)))
REPO = os.environ.get("VERIF_REPO", "/repo")


def main():
    log = subprocess.run(["git", "-C", REPO, "log", "--format=%h\t%s"], stdout=subprocess.PIPE, text=True).stdout
    subj = {}
    for l in log.splitlines():
        h, s = l.split("\t", 1)
        subj.setdefault(s.strip(), h)
    out, seen = [], set()
    missing = []
    for p in sorted(glob.glob(os.path.join(VERIF, "known_findings.d", "*.json"))):
        for e in json.load(open(p)):
            key = (e["property"], e["tag"], e.get("commit", ""))
            if key in seen:
                continue
            seen.add(key)
            e = dict(e)
            e["source"] = os.path.basename(p)
            if e.get("status") == "fixed":
                c = e.get("commit", "").strip()
                h = subj.get(c)
                if not h:
                    # a hash (possibly of a builder's branch) or a subject prefix
                    r = subprocess.run(["git", "-C", REPO, "log", "-1", "--format=%s", c.split()[0]], stdout=subprocess.PIPE, stderr=subprocess.DEVNULL, text=True)
                    if r.returncode == 0 and r.stdout.strip():
                        h = subj.get(r.stdout.strip())
                if not h:
                    cands = [hh for ss, hh in subj.items() if c and (ss.startswith(c) or c.startswith(ss))]
                    h = cands[0] if cands else None
                if not h:
                    missing.append(e.get("commit"))
                    h = "?"
                e["commit_id"] = h
                e["record"] = "fixed: property=%s %s %s" % (e["property"], h, e["what"])
            else:
                e["record"] = "open: property=%s %s %s" % (e["property"], e["tag"], e["what"])
            out.append(e)
    with open(os.path.join(VERIF, "known_findings.json"), "w") as f:
        json.dump(out, f, indent=1)
        f.write("\n")
    for m in missing:
        print("warning: fix commit not found in %s: %s" % (REPO, m))
    print("%d findings (%d fixed, %d open)" % (len(out), sum(e["status"] == "fixed" for e in out), sum(e["status"] == "open" for e in out)))
    return 0


if __name__ == "__main__":
    sys.exit(main())
