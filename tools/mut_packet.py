#!/usr/bin/env python3
"""Mutation sanity for C05/C06 (packet codecs): applies one small edit at a time to the repository
under test (a *scratch checkout*: VERIF_REPO, default /tmp/rw/packet; must be clean), runs the crate's
own tests and `./check <prop> quick`, prints the verdict and the oracle replay, reverts the edit.
Every edit compiles; all but M5 also pass `cargo test -p libtw2-net`.  Expected: VIOLATION with an
oracle replay for each.

usage: tools/mut_packet.py [name ...]"""
import os
import subprocess
import sys

VERIF = os.path.dirname(os.path.dirname(os.path.abspath(__file__)))
REPO = os.environ.get("VERIF_REPO", "/tmp/rw/packet")

LIMIT6 = "        if payload.len() > MAX_PACKETSIZE - HEADER_SIZE {\n            return Err(Compression);\n        }\n"
MUTATIONS = [
    ("M1-v6-token-after-compression", "C05", "net/src/protocol.rs", [
        ("""                let payload: &[u8] = if let Some(token) = self.token {
                    token_buffer.write(payload).unwrap();
                    token_buffer.write(&token.0).unwrap();
                    &token_buffer
                } else {
                    payload
                };""", "                let _ = &mut token_buffer;"),
        ("""                    payload
                })?;
                Ok(buffer.initialized())""", """                    payload
                })?;
                if let Some(token) = self.token {
                    buffer.write(&token.0)?;
                }
                Ok(buffer.initialized())""")]),
    ("M2-v7-limit-MAX_PAYLOAD", "C05", "net/src/protocol7.rs", [
        ("        if payload.len() > MAX_PACKETSIZE - HEADER_SIZE {\n            return Err(Compression);",
         "        if payload.len() > MAX_PAYLOAD {\n            return Err(Compression);")]),
    ("M3-v6-limit-removed", "C06", "net/src/protocol.rs", [(LIMIT6, "")]),
    ("M4-v7-connless-expect", "C06", "net/src/protocol7.rs", [
        ("""            let (header, payload) = unwrap_or_return!(
                PacketHeaderConnlessPacked::ref_and_rest_from(bytes),
                Err(TooShort)
            );""", """            let (header, payload) =
                PacketHeaderConnlessPacked::ref_and_rest_from(bytes).expect("connless header");""")]),
    ("M5-v7-ack-mask", "C05", "net/src/protocol7.rs", [
        ("            ack: (((padding_flags_ack & 0b0000_0011) as u16) << 8) | (ack as u16),",
         "            ack: (((padding_flags_ack & 0b0000_0001) as u16) << 8) | (ack as u16),")]),
    ("M5b-v6-seq-mask", "C05", "net/src/protocol.rs", [
        ("            sequence: ((sequence_size & 0b1111_0000) as u16) << 2",
         "            sequence: ((sequence_size & 0b0111_0000) as u16) << 2")]),
    ("M6-v7-compress-le", "C05", "net/src/protocol7.rs", [
        (".map(|s| s.len() < payload.len())", ".map(|s| s.len() <= payload.len())")]),
    ("M6b-v6-compress-le", "C05", "net/src/protocol.rs", [
        (".map(|s| s.len() < payload.len())", ".map(|s| s.len() <= payload.len())")]),
    ("M8-v6-decompress-keeps-header", "C06", "net/src/protocol.rs", [
        ("""        let fake_header = PacketHeader {
            flags: header.flags & !PACKETFLAG_COMPRESSION,
            ack: header.ack,
            num_chunks: header.num_chunks,
        };
        buffer.write(fake_header.pack().as_bytes()).unwrap();""",
         "        buffer.write(&packet[..HEADER_SIZE]).unwrap();")]),
    ("M8b-v7-decompress-keeps-header", "C06", "net/src/protocol7.rs", [
        ("""        let fake_header = PacketHeader {
            flags: header.flags & !PACKETFLAG_COMPRESSION,
            ack: header.ack,
            num_chunks: header.num_chunks,
            token: header.token,
        };
        buffer.write(fake_header.pack().as_bytes()).unwrap();""",
         "        buffer.write(&packet[..HEADER_SIZE]).unwrap();")]),
    ("M7-v6-token-buffer-1024", "C05", "net/src/protocol.rs", [
        ("let mut token_buffer: ArrayVec<[u8; 2048]> = ArrayVec::new();",
         "let mut token_buffer: ArrayVec<[u8; 1024]> = ArrayVec::new();")]),
]


def sh(cmd, cwd, env=None):
    p = subprocess.run(cmd, cwd=cwd, stdout=subprocess.PIPE, stderr=subprocess.STDOUT, text=True, env=env)
    return p.returncode, p.stdout


def main():
    want = set(sys.argv[1:])
    if sh(["git", "diff", "--quiet"], REPO)[0] != 0:
        print("repository %s has local changes; refusing" % REPO)
        return 2
    rc = 0
    for name, prop, rel, edits in MUTATIONS:
        if want and name not in want:
            continue
        path = os.path.join(REPO, rel)
        with open(path) as f:
            src = f.read()
        new = src
        for old, rep in edits:
            if new.count(old) != 1:
                print("%s: pattern not found exactly once in %s" % (name, rel))
                rc = 1
                break
            new = new.replace(old, rep, 1)
        else:
            with open(path, "w") as f:
                f.write(new)
            try:
                _, t = sh(["cargo", "test", "--offline", "-p", "libtw2-net"], REPO)
                tests = [l for l in t.splitlines() if l.startswith("test result")][:1]
                env = dict(os.environ, VERIF_REPO=REPO)
                sh(["rm", "-rf", os.path.join(VERIF, "replays", prop)], VERIF)
                _, out = sh([os.path.join(VERIF, "check"), prop, "quick"], VERIF, env)
                verdict = [l for l in out.splitlines() if l.startswith(("OK", "VIOLATION"))]
                print("=== %s  (%s)\n    crate tests: %s\n    %s" % (name, prop, tests, verdict))
                if not verdict or not verdict[-1].startswith("VIOLATION"):
                    rc = 1
                d = os.path.join(VERIF, "replays", prop)
                if os.path.isdir(d):
                    for fn in sorted(os.listdir(d)):
                        with open(os.path.join(d, fn)) as f:
                            for l in f:
                                if l.startswith(("kind", "domain", "tag", "detail")):
                                    print("    " + l.rstrip()[:200])
            finally:
                with open(path, "w") as f:
                    f.write(src)
    sh(["rm", "-rf", os.path.join(VERIF, "replays")], VERIF)
    return rc


if __name__ == "__main__":
    sys.exit(main())
