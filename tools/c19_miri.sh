#!/bin/sh
# C19, memory-safety sentence (validation, not proof): run the `buffer` harness domain — the same
# runner, generator and property oracle as the native harness — and samples of the request files of
# all other checks' domains (see tools/c19_miri_select.py for what is left out and why:
# C/C++ behind FFI, hash-form sweeps, long inputs) under
# Miri, comparing every output line with the Lean model's.
#
#   tools/c19_miri.sh [seed]     (VERIF_REPO selects the repository, default /repo; seed default
#                                 $VERIF_SEED or 1)
#
# Needs the native harness and the driver (built by any `./check`), and `cargo +nightly miri`.
# Prints one line `MIRI-VERDICT …`, writes evidence/C19-miri.json, and exits non-zero iff Miri
# (Tree Borrows) reports undefined behaviour, or an output line differs from the model's, or a
# property oracle fails, or a run does not finish.  Wall time about 10–12 min on a quiet machine (the
# nineteen runs are parallel; the `buffer` one dominates).
set -u
cd "$(dirname "$0")/.."
REPO=${VERIF_REPO:-/repo}
SEED=${1:-${VERIF_SEED:-1}}
export VERIF_REPO="$REPO"
export CARGO_NET_OFFLINE=true
mkdir -p run
H=harness/target/debug/tw-harness
D=lean/.lake/build/bin/twdrv
if [ ! -x "$H" ] || [ ! -x "$D" ]; then
  # (./check calls this before its own harness build step: build what is missing)
  python3 -c "
import sys
sys.path.insert(0, 'tools')
import vlib
vlib.gen_sources()
vlib.extract()
vlib.lake_build(['twdrv'])
vlib.cargo_build()
" > run/miri.build.log 2>&1
fi
if [ ! -x "$H" ] || [ ! -x "$D" ]; then echo "MIRI-VERDICT not run: native harness or driver missing (see run/miri.build.log)"; exit 2; fi
OTHERS="packer huffman packet6 packet7 snap teehist demo demohl datafile map browse gamenet recv snapmgr snapmgrc conn6 conn7 net"
DOMS="buffer $OTHERS"
$H gen buffer miri "$SEED" > run/miri.buffer.req || exit 2
for d in $OTHERS; do
  $H gen $d quick "$SEED" | python3 tools/c19_miri_select.py $d $D > run/miri.$d.req || exit 2
done
for d in $DOMS; do
  $D $d < run/miri.$d.req > run/miri.$d.model || exit 2
done
sed "s#@REPO@#$REPO#" harness-miri/Cargo.toml.in > harness-miri/Cargo.toml
for st in stub-huffman-reference stub-snapshot-reference; do  # (stub-zlib-minimal needs no path)
  sed "s#@REPO@#$REPO#" harness-miri/$st/Cargo.toml.in > harness-miri/$st/Cargo.toml
done
cp "$REPO/Cargo.lock" harness-miri/Cargo.lock
cd harness-miri
T0=$(date +%s)
TB="-Zmiri-disable-isolation -Zmiri-tree-borrows"
# build once (and: the minimal client under Tree Borrows)
MIRIFLAGS="$TB" cargo +nightly miri run --offline --bin sb_repro > ../run/miri.sbtb.log 2>&1
SBTB_RC=$?
MIRIFLAGS="$TB" cargo +nightly miri run --offline --bin tw-harness-miri -- packer /dev/null /dev/null > /dev/null 2>&1
for d in $DOMS; do
  # Miri deliberately returns short reads from files; the `buffer` model assumes that a regular file
  # delivers what is asked for and left (as the kernel does), so that run switches the short reads off
  X=""; [ "$d" = buffer ] && X=" -Zmiri-no-short-fd-operations"
  ( S=$(date +%s)
    MIRIFLAGS="$TB$X" cargo +nightly miri run --offline --bin tw-harness-miri -- $d ../run/miri.$d.req ../run/miri.$d.model > ../run/miri.$d.log 2>&1
    echo "EXIT $?" >> ../run/miri.$d.log
    echo "SECS $(( $(date +%s) - S ))" >> ../run/miri.$d.log ) &
done
# the aliasing verdict of the default model (Stacked Borrows) on a minimal safe client
MIRIFLAGS="-Zmiri-disable-isolation" cargo +nightly miri run --offline --bin sb_repro > ../run/miri.sb.log 2>&1
SB_RC=$?
wait
T1=$(date +%s)
cd ..
python3 - "$SEED" "$REPO" "$((T1 - T0))" "$SB_RC" "$SBTB_RC" <<'PY'
import json, re, sys
seed, repo, secs, sb_rc, sbtb_rc = sys.argv[1:]
doms = ["buffer", "packer", "huffman", "packet6", "packet7", "snap", "teehist", "demo", "demohl", "datafile", "map",
        "browse", "gamenet", "recv", "snapmgr", "snapmgrc", "conn6", "conn7", "net"]
NOT_COVERED = {
    "huffman": "operations that print the C++ reference's answer (rd, rc), the hash sweeps, the whole-table walks tiefreq/repr (time); the reference itself is a stand-in",
    "snap": "pair/sweep (they consult the C++ snapshot reference through FFI)",
    "teehist": "`file` with a fragmentation other than whole (socket pair + writer thread: Miri reports the blocking read as a deadlock), bulk forms sweep/all2",
    "datafile": "the real zlib (C behind FFI) — replaced for the whole crate graph by a pure-Rust inflate (stub-zlib-minimal, a port of the driver's decoder); sweeps not run",
    "map": "the real zlib (same stand-in); only the shortest inputs (a map request takes ~45 s under Miri)",
    "demo": "first sessions only; sweep/mutall not run",
    "demohl": "first sessions only; mutall not run",
    "browse": "hash-form sweeps (mfh, hc, hs)",
    "gamenet": "hash-form sweeps (hobjpos, hbody)",
    "recv": "first sessions only", "snapmgr": "first sessions only", "snapmgrc": "first sessions only",
    "conn6": "first sessions only", "conn7": "first sessions only", "net": "first sessions only (sessions with sweep lines skipped)",
    "buffer": "hash-form sweeps, capacities above 4",
}
runs, bad = {}, []
for d in doms:
    try:
        log = open("run/miri.%s.log" % d, errors="replace").read()
    except FileNotFoundError:
        log = ""
    m = re.findall(r"^MIRI-SUMMARY (.*)$", log, re.M)
    kv = dict(p.split("=") for p in m[-1].split()) if m else {}
    ex = re.findall(r"^EXIT (\d+)$", log, re.M)
    sec = re.findall(r"^SECS (\d+)$", log, re.M)
    r = {"exit": int(ex[-1]) if ex else -1, "undefined_behavior_reports": log.count("Undefined Behavior"),
         "unsupported_operation_reports": log.count("unsupported operation"), "finished": bool(m),
         "wall_s": int(sec[-1]) if sec else None}
    for k, v in kv.items():
        r[k] = int(v) if v.isdigit() else v
    r["first_diffs"] = re.findall(r"^(?:DIFF|FAIL) .*$", log, re.M)[:3]
    try:
        ops = {}
        for l in open("run/miri.%s.req" % d):
            if l.strip():
                ops[l.split()[0]] = ops.get(l.split()[0], 0) + 1
        r["operations"] = ops
    except FileNotFoundError:
        pass
    if d in NOT_COVERED:
        r["not_covered"] = NOT_COVERED[d]
    runs[d] = r
    if r["undefined_behavior_reports"] or not r["finished"] or r["exit"] != 0:
        bad.append(d)
try:
    sb = open("run/miri.sb.log", errors="replace").read()
except FileNotFoundError:
    sb = ""
sbm = re.search(r"Undefined Behavior: [^\n]*", sb)
ev = {
    "property_id": "C19", "part": "memory-safety sentence (validation only)", "seed": int(seed), "repo": repo,
    "tool": "cargo +nightly miri run (harness-miri: every harness/src/d_*.rs except d_map.rs + the repository crates; the C++ huffman and snapshot references are replaced by stand-ins)",
    "foreign_code_replaced_by_stand_ins": "zlib (pure-Rust inflate), C++ huffman reference (answers with the Rust implementation), C++ snapshot reference (types only; its operations are not sampled), mallopt (no-op)",
    "flags": "-Zmiri-disable-isolation -Zmiri-tree-borrows", "wall_s": int(secs), "tree_borrows_runs": runs,
    "stacked_borrows_minimal_client": {"bin": "harness-miri/src/bin/sb_repro.rs", "exit": int(sb_rc),
                                       "first_report": sbm.group(0) if sbm else None,
                                       "same_client_under_tree_borrows_exit": int(sbtb_rc)},
    "verdict": "clean" if not bad else "NOT clean: " + ",".join(bad),
}
with open("evidence/C19-miri.json", "w") as f:
    json.dump(ev, f, indent=1, sort_keys=True)
    f.write("\n")
parts = []
for d in doms:
    r = runs[d]
    parts.append("%s %s req ub=%d diff=%s orc=%s%s" % (
        d, r.get("requests", "?"), r["undefined_behavior_reports"], r.get("disagreements", "?"), r.get("oracle_fails", "?"),
        "" if r["finished"] else " DID-NOT-FINISH"))
print("MIRI-VERDICT tree-borrows %s (%ss) | %s | stacked-borrows minimal client: exit=%s (aliasing report, see notes/buffer.md; tree-borrows exit=%s)" % (
    ev["verdict"], secs, " ; ".join(parts), sb_rc, sbtb_rc))
sys.exit(1 if bad else 0)
PY
