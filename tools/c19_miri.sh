#!/bin/sh
# C19, memory-safety sentence (validation, not proof): run the `buffer` harness domain — the same
# runner, generator and property oracle as the native harness — under Miri and compare every output
# line with the Lean model's.
#
#   tools/c19_miri.sh [seed]          (VERIF_REPO selects the repository, default /repo)
#
# Needs: `./check C19 quick` has been run once (native harness + twdrv built), `cargo +nightly miri`.
# Writes evidence/C19-miri.json and prints one MIRI-VERDICT line; exit 0 iff the Tree Borrows run
# reports no undefined behaviour, no disagreement with the model and no oracle failure.
# Hook: ./check is a shared file; to make this part of `./check C19 thorough`, call this script after
# the correspondence step when prop == "C19" and tier == "thorough" and add its JSON under
# coverage.notes of evidence/C19.json.
set -u
cd "$(dirname "$0")/.."
VERIF=$(pwd)
REPO=${VERIF_REPO:-/repo}
SEED=${1:-1}
export CARGO_NET_OFFLINE=true
mkdir -p run
H=harness/target/debug/tw-harness
D=lean/.lake/build/bin/twdrv
if [ ! -x "$H" ] || [ ! -x "$D" ]; then echo "build first: ./check C19 quick" >&2; exit 2; fi
$H gen buffer miri "$SEED" > run/miri.req || exit 2
$D buffer < run/miri.req > run/miri.model || exit 2
sed "s#@REPO@#$REPO#" harness-miri/Cargo.toml.in > harness-miri/Cargo.toml
cp "$REPO/Cargo.lock" harness-miri/Cargo.lock
cd harness-miri
T0=$(date +%s)
MIRIFLAGS="-Zmiri-disable-isolation -Zmiri-tree-borrows" cargo +nightly miri run --offline --bin tw-harness-miri -- ../run/miri.req ../run/miri.model > ../run/miri.tb.log 2>&1
TB_RC=$?
T1=$(date +%s)
# the aliasing verdict of the default model (Stacked Borrows) on a minimal safe client
MIRIFLAGS="-Zmiri-disable-isolation" cargo +nightly miri run --offline --bin sb_repro > ../run/miri.sb.log 2>&1
SB_RC=$?
MIRIFLAGS="-Zmiri-disable-isolation -Zmiri-tree-borrows" cargo +nightly miri run --offline --bin sb_repro > ../run/miri.sbtb.log 2>&1
SBTB_RC=$?
cd ..
SUMMARY=$(grep '^MIRI-SUMMARY' run/miri.tb.log | tail -1)
UB=$(grep -c 'Undefined Behavior' run/miri.tb.log)
SBUB=$(grep -m1 'Undefined Behavior' run/miri.sb.log | sed 's/"/'"'"'/g')
python3 - "$TB_RC" "$UB" "$SUMMARY" "$SB_RC" "$SBUB" "$SBTB_RC" "$((T1 - T0))" "$SEED" "$REPO" <<'PY'
import json, sys
tb_rc, ub, summary, sb_rc, sbub, sbtb_rc, secs, seed, repo = sys.argv[1:]
kv = dict(p.split("=") for p in summary.split()[1:]) if summary else {}
ev = {
    "property_id": "C19", "part": "memory-safety sentence (validation only)", "seed": int(seed), "repo": repo,
    "tool": "cargo +nightly miri run (harness-miri: harness/src/d_buffer.rs + libtw2-buffer + arrayvec)",
    "tree_borrows_run": {"flags": "-Zmiri-disable-isolation -Zmiri-tree-borrows", "exit": int(tb_rc),
                         "undefined_behavior_reports": int(ub), "wall_s": int(secs),
                         **{k: int(v) for k, v in kv.items()}},
    "stacked_borrows_minimal_client": {"bin": "harness-miri/src/bin/sb_repro.rs", "exit": int(sb_rc), "first_report": sbub,
                                       "same_client_under_tree_borrows_exit": int(sbtb_rc)},
}
with open("evidence/C19-miri.json", "w") as f:
    json.dump(ev, f, indent=1, sort_keys=True)
    f.write("\n")
PY
echo "MIRI-VERDICT tree-borrows: exit=$TB_RC ub_reports=$UB ${SUMMARY:-no-summary} | stacked-borrows minimal client: exit=$SB_RC ${SBUB:-no-report} (tree-borrows exit=$SBTB_RC)"
[ "$TB_RC" = 0 ] && [ "$UB" = 0 ]
