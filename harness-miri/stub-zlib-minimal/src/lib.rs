//! Pure-Rust stand-in for the zlib wrapper, for Miri: `uncompress` is a port of the Lean driver's
//! decoder `lean/Tw/Model/Inflate.lean` (after Mark Adler's `puff.c`; RFC 1950 wrapper, RFC 1951
//! stored / fixed / dynamic blocks, Adler-32 check), whose agreement with the real zlib — success or
//! failure and the output bytes — is checked natively by the `inflate` requests of the `datafile`
//! correspondence domain.  `compress` emits stored blocks.
use std::fmt;

const Z_BUF_ERROR: i32 = -5;
const Z_DATA_ERROR: i32 = -3;
const Z_MEM_ERROR: i32 = -4;

#[derive(Clone, Copy, Eq, Hash, PartialEq)]
pub struct Error {
    inner: i32,
}

impl Error {
    pub fn from_raw(val: i32) -> Result<(), Error> {
        if val == 0 {
            Ok(())
        } else {
            Err(Error { inner: val })
        }
    }
    pub fn kind(self) -> Result<ErrorKind, ()> {
        Ok(match self.inner {
            Z_MEM_ERROR => ErrorKind::OutOfMemory,
            Z_BUF_ERROR => ErrorKind::OutputBufferTooSmall,
            Z_DATA_ERROR => ErrorKind::InvalidInput,
            _ => return Err(()),
        })
    }
    pub fn raw_error(self) -> i32 {
        self.inner
    }
}

#[derive(Clone, Copy, Debug, Eq, Hash, PartialEq)]
pub enum ErrorKind {
    OutOfMemory,
    OutputBufferTooSmall,
    InvalidInput,
}

impl fmt::Debug for Error {
    fn fmt(&self, f: &mut fmt::Formatter) -> fmt::Result {
        match self.kind() {
            Ok(k) => k.fmt(f),
            Err(()) => write!(f, "UnknownZlibError({})", self.raw_error()),
        }
    }
}

struct St<'a> {
    src: &'a [u8],
    pos: usize, // in bits
    out: Vec<u8>,
    cap: usize,
}

impl<'a> St<'a> {
    fn bits(&mut self, n: usize) -> Option<usize> {
        if self.pos + n > 8 * self.src.len() {
            return None;
        }
        let mut v = 0usize;
        for k in 0..n {
            let p = self.pos + k;
            v |= (((self.src[p / 8] >> (p % 8)) & 1) as usize) << k;
        }
        self.pos += n;
        Some(v)
    }
}

struct Huff {
    count: [usize; 16],
    symbol: Vec<usize>,
}

/// second component: puff's `left` (negative = over-subscribed, positive = incomplete)
fn construct(lengths: &[usize]) -> (Huff, i64) {
    let mut count = [0usize; 16];
    for &l in lengths {
        count[l] += 1;
    }
    if count[0] == lengths.len() {
        return (Huff { count, symbol: vec![] }, 0);
    }
    let mut left: i64 = 1;
    for k in 1..16 {
        if left >= 0 {
            left = left * 2 - count[k] as i64;
        }
    }
    let mut symbol = vec![];
    for k in 1..16 {
        for (sym, &l) in lengths.iter().enumerate() {
            if l == k {
                symbol.push(sym);
            }
        }
    }
    (Huff { count, symbol }, left)
}

fn decode(h: &Huff, s: &mut St) -> Option<usize> {
    let (mut code, mut first, mut index) = (0usize, 0usize, 0usize);
    for len in 1..16 {
        code += s.bits(1)?;
        let count = h.count[len];
        if code < first + count {
            return h.symbol.get(index + (code - first)).cloned();
        }
        index += count;
        first = (first + count) * 2;
        code *= 2;
    }
    None
}

const LBASE: [usize; 29] = [3, 4, 5, 6, 7, 8, 9, 10, 11, 13, 15, 17, 19, 23, 27, 31, 35, 43, 51, 59, 67, 83, 99, 115, 131, 163, 195, 227, 258];
const LEXT: [usize; 29] = [0, 0, 0, 0, 0, 0, 0, 0, 1, 1, 1, 1, 2, 2, 2, 2, 3, 3, 3, 3, 4, 4, 4, 4, 5, 5, 5, 5, 0];
const DBASE: [usize; 30] = [
    1, 2, 3, 4, 5, 7, 9, 13, 17, 25, 33, 49, 65, 97, 129, 193, 257, 385, 513, 769, 1025, 1537, 2049, 3073, 4097, 6145, 8193, 12289, 16385, 24577,
];
const DEXT: [usize; 30] = [0, 0, 0, 0, 1, 1, 2, 2, 3, 3, 4, 4, 5, 5, 6, 6, 7, 7, 8, 8, 9, 9, 10, 10, 11, 11, 12, 12, 13, 13];

fn codes(lencode: &Huff, distcode: &Huff, s: &mut St) -> Option<()> {
    loop {
        let sym = decode(lencode, s)?;
        if sym < 256 {
            if s.out.len() >= s.cap {
                return None;
            }
            s.out.push(sym as u8);
        } else if sym == 256 {
            return Some(());
        } else {
            let k = sym - 257;
            if k >= 29 {
                return None;
            }
            let len = LBASE[k] + s.bits(LEXT[k])?;
            let dsym = decode(distcode, s)?;
            if dsym >= 30 {
                return None;
            }
            let dist = DBASE[dsym] + s.bits(DEXT[dsym])?;
            if dist > s.out.len() || s.out.len() + len > s.cap {
                return None;
            }
            for _ in 0..len {
                let b = s.out[s.out.len() - dist];
                s.out.push(b);
            }
        }
    }
}

fn stored(s: &mut St) -> Option<()> {
    let p = (s.pos + 7) / 8;
    if p + 4 > s.src.len() {
        return None;
    }
    let len = s.src[p] as usize + 256 * s.src[p + 1] as usize;
    let nlen = s.src[p + 2] as usize + 256 * s.src[p + 3] as usize;
    if len + nlen != 65535 || p + 4 + len > s.src.len() || s.out.len() + len > s.cap {
        return None;
    }
    s.out.extend_from_slice(&s.src[p + 4..p + 4 + len]);
    s.pos = 8 * (p + 4 + len);
    Some(())
}

const CL_ORDER: [usize; 19] = [16, 17, 18, 0, 8, 7, 9, 6, 10, 5, 11, 4, 12, 3, 13, 2, 14, 1, 15];

fn dynamic(s: &mut St) -> Option<()> {
    let nlen = s.bits(5)? + 257;
    let ndist = s.bits(5)? + 1;
    let ncode = s.bits(4)? + 4;
    if nlen > 286 || ndist > 30 {
        return None;
    }
    let mut cl = [0usize; 19];
    for k in 0..ncode {
        cl[CL_ORDER[k]] = s.bits(3)?;
    }
    let (lencode, err) = construct(&cl);
    if err != 0 {
        return None;
    }
    let total = nlen + ndist;
    let mut lens: Vec<usize> = vec![];
    while lens.len() < total {
        let sym = decode(&lencode, s)?;
        if sym < 16 {
            lens.push(sym);
        } else {
            let (l, rep) = if sym == 16 {
                let l = *lens.last()?;
                (l, 3 + s.bits(2)?)
            } else if sym == 17 {
                (0, 3 + s.bits(3)?)
            } else {
                (0, 11 + s.bits(7)?)
            };
            if lens.len() + rep > total {
                return None;
            }
            lens.extend(std::iter::repeat(l).take(rep));
        }
    }
    if lens[256] == 0 {
        return None;
    }
    let (lc, e1) = construct(&lens[..nlen]);
    let (dc, e2) = construct(&lens[nlen..]);
    if e1 != 0 && (e1 < 0 || nlen != lc.count[0] + lc.count[1]) {
        return None;
    }
    if e2 != 0 && (e2 < 0 || ndist != dc.count[0] + dc.count[1]) {
        return None;
    }
    codes(&lc, &dc, s)
}

fn adler32(bs: &[u8]) -> u32 {
    let (mut a, mut b) = (1u32, 0u32);
    for &x in bs {
        a = (a + x as u32) % 65521;
        b = (b + a) % 65521;
    }
    b * 65536 + a
}

/// zlib stream -> bytes, at most `cap` of them; `None` = any zlib error
fn zlib_decode(cap: usize, src: &[u8]) -> Option<Vec<u8>> {
    if src.len() < 2 {
        return None;
    }
    let (cmf, flg) = (src[0] as usize, src[1] as usize);
    if (cmf * 256 + flg) % 31 != 0 || cmf % 16 != 8 || cmf / 16 > 7 || flg / 32 % 2 == 1 {
        return None;
    }
    let mut s = St { src, pos: 16, out: vec![], cap };
    loop {
        let last = s.bits(1)?;
        match s.bits(2)? {
            0 => stored(&mut s)?,
            1 => {
                let mut l = vec![8usize; 144];
                l.extend(std::iter::repeat(9).take(112));
                l.extend(std::iter::repeat(7).take(24));
                l.extend(std::iter::repeat(8).take(8));
                let (lc, _) = construct(&l);
                let (dc, _) = construct(&[5usize; 30]);
                codes(&lc, &dc, &mut s)?
            }
            2 => dynamic(&mut s)?,
            _ => return None,
        }
        if last == 1 {
            break;
        }
    }
    let p = (s.pos + 7) / 8;
    if p + 4 > src.len() {
        return None;
    }
    let want = u32::from_be_bytes([src[p], src[p + 1], src[p + 2], src[p + 3]]);
    if want != adler32(&s.out) {
        return None;
    }
    Some(s.out)
}

/// `uncompress` of zlib >= 1.2.9 (with an empty destination the stream is decoded into a one-byte
/// scratch buffer and, if it ends, `Ok(0)` is reported)
pub fn uncompress(dest: &mut [u8], src: &[u8]) -> Result<usize, Error> {
    let n = dest.len();
    match zlib_decode(if n == 0 { 1 } else { n }, src) {
        None => Err(Error { inner: Z_DATA_ERROR }),
        Some(out) => {
            if n == 0 {
                Ok(0)
            } else if out.len() <= n {
                dest[..out.len()].copy_from_slice(&out);
                Ok(out.len())
            } else {
                Err(Error { inner: Z_BUF_ERROR })
            }
        }
    }
}

pub fn compress_bound(source_len: usize) -> usize {
    source_len + 5 * (source_len / 65535 + 1) + 6
}

/// stored blocks only
pub fn compress(dest: &mut [u8], src: &[u8]) -> Result<usize, Error> {
    let v = compress_vec(src)?;
    if v.len() > dest.len() {
        return Err(Error { inner: Z_BUF_ERROR });
    }
    dest[..v.len()].copy_from_slice(&v);
    Ok(v.len())
}

pub fn compress_vec(source: &[u8]) -> Result<Vec<u8>, Error> {
    let mut out = vec![0x78, 0x01];
    let mut chunks: Vec<&[u8]> = source.chunks(65535).collect();
    if chunks.is_empty() {
        chunks.push(&[]);
    }
    let n = chunks.len();
    for (i, c) in chunks.iter().enumerate() {
        out.push(if i + 1 == n { 1 } else { 0 });
        out.extend_from_slice(&(c.len() as u16).to_le_bytes());
        out.extend_from_slice(&(!(c.len() as u16)).to_le_bytes());
        out.extend_from_slice(c);
    }
    out.extend_from_slice(&adler32(source).to_be_bytes());
    Ok(out)
}
