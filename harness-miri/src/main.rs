//! Runs the request lines of domain `buffer` (the same runner and property oracle as the native
//! harness, `harness/src/d_buffer.rs`) under Miri and compares every output line with the line the
//! Lean model produced.  Usage: tw-harness-miri <requests> <model-outputs>
#[path = "../../harness/src/d_buffer.rs"]
mod d_buffer;
#[path = "../../harness/src/util.rs"]
mod util;

use std::io::BufRead;

fn main() {
    util::install_panic_hook();
    let args: Vec<String> = std::env::args().collect();
    let req = std::io::BufReader::new(std::fs::File::open(&args[1]).expect("requests"));
    let exp: Vec<String> = std::io::BufReader::new(std::fs::File::open(&args[2]).expect("model outputs"))
        .lines()
        .map(|l| l.unwrap())
        .collect();
    let d = d_buffer::domain();
    let mut runner = d.runner();
    let mut oracle = util::Oracle::new();
    let (mut n, mut diffs) = (0usize, 0usize);
    for (i, line) in req.lines().enumerate() {
        let line = line.unwrap();
        let toks: Vec<&str> = line.split_ascii_whitespace().collect();
        if toks.is_empty() {
            continue;
        }
        oracle.line_no = i + 1;
        let out = runner.run(&toks, &mut oracle);
        if exp.get(n).map(|e| e != &out).unwrap_or(true) {
            diffs += 1;
            println!("DIFF line {}: `{}` impl `{}` model `{}`", i + 1, line, out, exp.get(n).map(|s| &s[..]).unwrap_or("?"));
        }
        n += 1;
    }
    drop(runner);
    for (ln, tag, msg) in &oracle.fails {
        println!("FAIL {} {} {}", ln, tag, msg);
    }
    let c = |k: &str| oracle.counters.get(k).cloned().unwrap_or(0);
    println!(
        "MIRI-SUMMARY requests={} disagreements={} oracle_fails={} sessions={} views={} releases={} panics_unwound={} reads={} sessions_swept={}",
        n,
        diffs,
        oracle.fails.len(),
        c("sessions_vec") + c("sessions_arr") + c("sessions_slice") + c("sessions_sref"),
        c("views_depth_1") + c("views_depth_2") + c("views_depth_3") + c("views_depth_4"),
        c("releases"),
        c("panics"),
        c("reads_ok") + c("reads_err"),
        c("sessions_swept"),
    );
    std::process::exit(if diffs == 0 && oracle.fails.is_empty() { 0 } else { 1 });
}
