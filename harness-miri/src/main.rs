//! Runs request lines of a byte-level harness domain (the same runners and property oracles as the
//! native harness: `harness/src/d_*.rs` of every domain except `map`) under
//! Miri and compares every output line with the line the Lean model produced.
//! Usage: tw-harness-miri <domain> <requests> <model-outputs>
#![allow(dead_code)]
#[path = "../../harness/src/d_buffer.rs"]
mod d_buffer;
#[path = "../../harness/src/d_huffman.rs"]
mod d_huffman;
#[path = "../../harness/src/d_packer.rs"]
mod d_packer;
#[path = "../../harness/src/d_browse.rs"]
mod d_browse;
#[path = "../../harness/src/d_conn6.rs"]
mod d_conn6;
#[path = "../../harness/src/d_conn7.rs"]
mod d_conn7;
#[path = "../../harness/src/d_datafile.rs"]
mod d_datafile;
#[path = "../../harness/src/d_demohl.rs"]
mod d_demohl;
#[path = "../../harness/src/d_gamenet.rs"]
mod d_gamenet;
#[path = "../../harness/src/d_map.rs"]
mod d_map;
#[path = "../../harness/src/d_net.rs"]
mod d_net;
#[path = "../../harness/src/d_recv.rs"]
mod d_recv;
#[path = "../../harness/src/d_snapmgr.rs"]
mod d_snapmgr;
#[path = "../../harness/src/d_snapmgrc.rs"]
mod d_snapmgrc;
#[path = "../../harness/src/d_demo.rs"]
mod d_demo;
#[path = "../../harness/src/d_packet6.rs"]
mod d_packet6;
#[path = "../../harness/src/d_packet7.rs"]
mod d_packet7;
#[path = "../../harness/src/d_snap.rs"]
mod d_snap;
#[path = "../../harness/src/d_teehist.rs"]
mod d_teehist;
#[path = "../../harness/src/util.rs"]
mod util;

/// `d_map.rs` names its sibling as `crate::domains::d_datafile` (the native harness's generated module)
mod domains {
    pub(crate) use crate::d_datafile;
}

use std::io::BufRead;

/// `harness/src/d_datafile.rs` tunes glibc's allocator through `mallopt` (C, behind FFI).  Miri
/// resolves a foreign call to an exported Rust function of the same name: make it a no-op here.
#[no_mangle]
pub extern "C" fn mallopt(_param: i32, _value: i32) -> i32 {
    1
}

fn main() {
    util::install_panic_hook();
    let args: Vec<String> = std::env::args().collect();
    let d = match &args[1][..] {
        "buffer" => d_buffer::domain(),
        "packer" => d_packer::domain(),
        "huffman" => d_huffman::domain(),
        "packet6" => d_packet6::domain(),
        "packet7" => d_packet7::domain(),
        "snap" => d_snap::domain(),
        "teehist" => d_teehist::domain(),
        "demo" => d_demo::domain(),
        "datafile" => d_datafile::domain(),
        "map" => d_map::domain(),
        "browse" => d_browse::domain(),
        "gamenet" => d_gamenet::domain(),
        "recv" => d_recv::domain(),
        "snapmgr" => d_snapmgr::domain(),
        "snapmgrc" => d_snapmgrc::domain(),
        "conn6" => d_conn6::domain(),
        "conn7" => d_conn7::domain(),
        "net" => d_net::domain(),
        "demohl" => d_demohl::domain(),
        x => panic!("unknown domain {}", x),
    };
    let req = std::io::BufReader::new(std::fs::File::open(&args[2]).expect("requests"));
    let exp: Vec<String> = std::io::BufReader::new(std::fs::File::open(&args[3]).expect("model outputs"))
        .lines()
        .map(|l| l.unwrap())
        .collect();
    let mut runner = d.runner();
    let mut oracle = util::Oracle::new();
    let (mut n, mut diffs, mut panics) = (0usize, 0usize, 0usize);
    for (i, line) in req.lines().enumerate() {
        let line = line.unwrap();
        let toks: Vec<&str> = line.split_ascii_whitespace().collect();
        if toks.is_empty() {
            continue;
        }
        oracle.line_no = i + 1;
        // as the native harness does: a panic of the implementation is the outcome `panic`
        let out = match util::catch(|| runner.run(&toks, &mut oracle)) {
            Ok(o) => o,
            Err(_) => {
                panics += 1;
                "panic".to_string()
            }
        };
        if exp.get(n).map(|e| e != &out).unwrap_or(true) {
            diffs += 1;
            println!("DIFF line {}: `{}` impl `{}` model `{}`", i + 1, line, out, exp.get(n).map(|s| &s[..]).unwrap_or("?"));
        }
        n += 1;
    }
    drop(runner);
    for (ln, tag, msg) in &oracle.fails {
        println!("FAIL {} {} {}", ln, tag, msg);
    }
    let c = |k: &str| oracle.counters.get(k).cloned().unwrap_or(0);
    println!(
        "MIRI-SUMMARY domain={} requests={} disagreements={} oracle_fails={} caught_panics={} sessions={} views={} releases={} panics_unwound={} reads={}",
        args[1],
        n,
        diffs,
        oracle.fails.len(),
        panics,
        c("sessions_vec") + c("sessions_arr") + c("sessions_slice") + c("sessions_sref") + c("sessions_raw"),
        c("views_depth_1") + c("views_depth_2") + c("views_depth_3") + c("views_depth_4"),
        c("releases"),
        c("panics"),
        c("reads_ok") + c("reads_err"),
    );
    std::process::exit(if diffs == 0 && oracle.fails.is_empty() { 0 } else { 1 });
}
