//! Minimal safe client of `libtw2-buffer` on which Miri's default aliasing model (Stacked Borrows)
//! reports a violation, while Tree Borrows accepts it.  No out-of-bounds, use-after-free or
//! uninitialised access is involved: the slice returned by the child view's `initialized()` is
//! still alive when the parent re-borrows its whole `&mut [u8]` to write *behind* it.
use libtw2_buffer::with_buffer;

fn main() {
    let mut arr = [0u8; 4];
    with_buffer(&mut arr[..], |mut b| {
        let s1 = with_buffer(&mut b, |mut c| {
            c.write(&[1]).unwrap();
            c.initialized()
        });
        b.write(&[2]).unwrap(); // `&mut self.buffer[init..]` re-borrows all of `buffer`
        assert_eq!(s1, &[1]); // Stacked Borrows: the tag of `s1` was popped by that re-borrow
        assert_eq!(b.initialized(), &[1, 2]);
    });
    println!("sb_repro: finished");
}
