//! Miri stand-in: same types and signatures as `libtw2_snapshot_reference::snap`, no behaviour.
pub mod snap {
    use libtw2_buffer::CapacityError;
    use std::convert::Infallible;

    const WHY: &str = "the C++ snapshot reference cannot run under Miri";

    pub struct RawBuilder(());
    impl Default for RawBuilder {
        fn default() -> RawBuilder {
            panic!("{}", WHY)
        }
    }
    impl RawBuilder {
        pub fn new() -> RawBuilder {
            Default::default()
        }
        pub fn add_item(&mut self, _type_id: u16, _id: u16, _data: &[i32]) -> Result<(), Infallible> {
            panic!("{}", WHY)
        }
        pub fn finish(self) -> RawSnap {
            panic!("{}", WHY)
        }
    }
    pub struct RawSnap(RawBuilder);
    impl RawSnap {
        pub fn write_to_ints<'a>(&mut self, _buf: &mut Vec<i32>, _result: &'a mut [i32]) -> Result<&'a [i32], CapacityError> {
            panic!("{}", WHY)
        }
        pub fn recycle(self) -> RawBuilder {
            self.0
        }
    }
    pub struct Delta(());
    impl Default for Delta {
        fn default() -> Delta {
            panic!("{}", WHY)
        }
    }
    impl Delta {
        pub fn new() -> Delta {
            Default::default()
        }
        pub fn create_raw_and_write_to_ints<'a>(
            &mut self,
            _from: &RawSnap,
            _to: &RawSnap,
            _obj_size: fn(u16) -> Option<u32>,
            _result: &'a mut [i32],
        ) -> Result<&'a [i32], CapacityError> {
            panic!("{}", WHY)
        }
    }
}
