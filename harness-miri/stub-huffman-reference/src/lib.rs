//! Miri stand-in for the C++ reference: `compress` = the Rust `compress_bug` (which reproduces the
//! reference encoder), `decompress` = the Rust `decompress`.  The reference-agreement statements of
//! the huffman harness domain become trivial under Miri; everything else (and all memory accesses
//! of the Rust code) is exercised as usual.
use libtw2_buffer::Buffer;
use libtw2_buffer::CapacityError;
use libtw2_huffman::DecompressionError;

pub struct Huffman {
    inner: Option<libtw2_huffman::Huffman>,
}

impl Huffman {
    pub fn from_frequencies(frequencies: &[u32]) -> Huffman {
        assert!(frequencies.len() == 256);
        // the Rust constructor refuses some frequency vectors (code lengths above its limit)
        let inner = std::panic::catch_unwind(|| libtw2_huffman::Huffman::from_frequencies(frequencies)).ok();
        Huffman { inner }
    }
    pub fn compress<'a, B: Buffer<'a>>(&self, input: &[u8], buffer: B) -> Result<&'a [u8], CapacityError> {
        match &self.inner {
            Some(h) => h.compress_bug(input, buffer),
            None => Err(CapacityError),
        }
    }
    pub fn decompress<'a, B: Buffer<'a>>(&self, input: &'a [u8], buffer: B) -> Result<&'a [u8], DecompressionError> {
        match &self.inner {
            Some(h) => h.decompress(input, buffer),
            None => Err(DecompressionError::InvalidInput),
        }
    }
}
