//! Domain `conn7`: `net/src/connection7.rs` (0.7 connection).  Properties C01–C04.
//! Shared world / runner / generator: `conn_world.inc.rs`, `conn_gen.inc.rs`.
use crate::util::*;
use libtw2_net::connection7 as cx;
use libtw2_net::protocol7 as px;
use libtw2_net::Timestamp;

include!("conn_world.inc.rs");

/// the 0.7 reader takes no token hint: one parse per feed line
pub const NP: usize = 1;
const IS7: bool = true;

fn parse_with(bytes: &[u8]) -> Parsed {
    let mut ws: Vec<px::Warning> = vec![];
    let mut buf = [0u8; 4096];
    let mut p = Parsed { text: "err".to_string(), clean: false, chunks: None, token: None, connected: false, connless: false, err: true, warns: String::new() };
    let r = px::Packet::read(&mut ws, bytes, &mut buf[..]);
    match r {
        Err(_) => {}
        Ok(px::Packet::Connless(c)) => {
            p.err = false;
            p.connless = true;
            p.token = Some(c.token.0);
            p.text = format!("cl:{}:{}:{}", tok_str(&c.token.0), tok_str(&c.response_token.0), to_hex(c.payload));
        }
        Ok(px::Packet::Connected(c)) => {
            p.err = false;
            p.connected = true;
            p.token = Some(c.token.0);
            match c.type_ {
                px::ConnectedPacketType::Control(ctl) => {
                    let k = match ctl {
                        px::ControlPacket::KeepAlive => "ka".to_string(),
                        px::ControlPacket::Connect(t) => format!("co.{}", tok_str(&t.0)),
                        px::ControlPacket::Accept => "ac".to_string(),
                        px::ControlPacket::Close(r) => format!("cx.{}", to_hex(r)),
                        px::ControlPacket::Token(t) => format!("tk.{}", tok_str(&t.0)),
                    };
                    p.text = format!("ct:{}:{}:{}", c.ack, tok_str(&c.token.0), k);
                }
                px::ConnectedPacketType::Chunks(rr, n, payload) => {
                    let mut it = px::ChunksIter::new(payload, n);
                    let mut cs = vec![];
                    while let Some(ch) = it.next_warn(&mut ws) {
                        cs.push(PChunk { vital: ch.vital, data: ch.data.to_vec() });
                    }
                    p.text = format!("ch:{}:{}:{}:{}:{}", c.ack, tok_str(&c.token.0), if rr { 1 } else { 0 }, n, chunks_str(&cs));
                    p.chunks = Some((n, cs));
                }
            }
        }
    }
    p.clean = !p.err && ws.is_empty();
    p.warns = format!("{:?}", ws);
    p
}

pub fn parse_dg(bytes: &[u8], _k: usize) -> Parsed {
    parse_with(bytes)
}

pub fn parse_sent(bytes: &[u8]) -> Parsed {
    parse_with(bytes)
}

fn warn_name(w: &cx::Warning) -> Option<&'static str> {
    match w {
        cx::Warning::Packet(_) => None,
        cx::Warning::Read(_) => Some("read"),
        cx::Warning::TokenMismatch => Some("tokmis"),
        cx::Warning::ConnlessTokenMismatch => Some("cltok"),
        cx::Warning::ConnlessResponseTokenMismatch => Some("clrtok"),
        cx::Warning::Unexpected => Some("unexpected"),
    }
}

/// C03: the endpoint has an own token (every state from `Token` to `Online`) and the datagram is a
/// read error or carries a different token — except the protocol's unauthenticated token request
/// (control `Token` with `TOKEN_NONE`) while `PendingConnect`.
fn must_be_inert(fp: &str, bytes: &[u8]) -> bool {
    let kind = fp_kind(fp);
    if !matches!(kind.as_str(), "Token" | "PendingConnect" | "Connecting" | "Pending" | "Online") {
        return false;
    }
    let own = match fp_tok_after(fp, "own_token: ") {
        Some(t) => t,
        None => return false,
    };
    let p = parse_with(bytes);
    if p.err {
        return true;
    }
    if p.token == Some(own) {
        return false;
    }
    if kind == "PendingConnect" && p.connected && p.token == Some([0xff; 4]) && p.text.contains(":tk.") {
        return false;
    }
    true
}

/// 0.7: the own token (handed to the peer in `Token` / `Connect` packets) is never `TOKEN_NONE`
fn reserved_own_token(fp: &str, _connector: bool) -> Option<String> {
    let t = fp_tok_after(fp, "own_token: ")?;
    if t == [0xff; 4] {
        Some(tok_str(&t))
    } else {
        None
    }
}

fn reserved_wire_token(text: &str, _connector: bool) -> Option<String> {
    if text.ends_with(":tk.ffffffff") || text.ends_with(":co.ffffffff") {
        Some("ffffffff".to_string())
    } else {
        None
    }
}

const RESERVED_DRAWS: &[&str] = &["ffffffff,0a0b0c0d", "ffffffff,ffffffff,0a0b0c0d", "ffffffff,00000000"];

fn new_accept(_cb: &mut Cb, _t: [u8; 4]) -> Option<cx::Connection> {
    None
}

fn connect_draws_ok(d: &VecDeque<[u8; 4]>) -> bool {
    d.iter().any(|t| *t != [0xff; 4])
}

fn disconnect_permitted(_kind: &str) -> bool {
    true
}

fn is_pure_feed(_bytes: &[u8]) -> bool {
    false
}

fn strip_connect_token(_bytes: &[u8]) -> Option<Vec<u8>> {
    None
}

fn is_accept_text(t: &str) -> bool {
    t.starts_with("ct:") && t.ends_with(":ac")
}

/// payload sizes around every limit of the 0.7 code path
const SIZES: &[usize] = &[0, 0, 1, 1, 2, 3, 15, 16, 17, 63, 64, 65, 200, 400, 700, 1023, 1024, 1300, 1380, 1385, 1386];
const SIZES_EDGE: &[usize] = &[1023, 1024, 1025, 1386, 1387, 1388, 1389, 1390, 1391, 1392, 1400, 2047, 2048, 2049, 4095, 4096];

fn write_packet(p: &px::Packet) -> Option<Vec<u8>> {
    let mut buf = [0u8; 2048];
    catch(|| p.write(&mut buf[..]).ok().map(|b| b.to_vec())).ok().flatten()
}

fn build_chunks(cs: &[(Option<(u16, bool)>, Vec<u8>)]) -> Vec<u8> {
    let mut v: Vec<u8> = Vec::with_capacity(8192);
    for (vital, data) in cs {
        let _ = px::write_chunk(data, *vital, &mut v);
    }
    v
}

fn crafted(rng: &mut Rng, token: [u8; 4], seq: u16, ackh: u16) -> Vec<u8> {
    let token = px::Token(token);
    // "tempting" ack: the sequence number of the victim's newest unacknowledged chunk
    let ack = match rng.below(4) {
        0 => 0,
        1 => rng.below(1024) as u16,
        _ => ackh,
    };
    let reason: Vec<u8> = (0..rng.below(6)).map(|_| 1 + rng.below(255) as u8).collect();
    let rt = px::Token([1 + rng.below(200) as u8, rng.next() as u8, rng.next() as u8, rng.next() as u8]);
    let chunk_payload;
    if rng.chance(1, 10) {
        let payload = { let n = rng.below(12) as usize; rng.bytes(n) };
        return write_packet(&px::Packet::Connless(px::ConnlessPacket { token, response_token: rt, payload: &payload })).unwrap_or_default();
    }
    let type_ = match rng.below(8) {
        0 => px::ConnectedPacketType::Control(px::ControlPacket::KeepAlive),
        1 => px::ConnectedPacketType::Control(px::ControlPacket::Connect(rt)),
        2 => px::ConnectedPacketType::Control(px::ControlPacket::Token(rt)),
        3 => px::ConnectedPacketType::Control(px::ControlPacket::Accept),
        4 => px::ConnectedPacketType::Control(px::ControlPacket::Close(&reason)),
        _ => {
            let n = rng.below(4) as usize;
            let mut cs = vec![];
            let mut s = seq;
            for _ in 0..n {
                let data = { let n = rng.below(20) as usize; rng.bytes(n) };
                if rng.chance(2, 3) {
                    cs.push((Some((s, rng.chance(1, 3))), data));
                    if rng.chance(3, 4) {
                        s = (s + 1) % 1024;
                    }
                } else {
                    cs.push((None, data));
                }
            }
            chunk_payload = build_chunks(&cs);
            px::ConnectedPacketType::Chunks(rng.chance(1, 3), n as u8, &chunk_payload)
        }
    };
    write_packet(&px::Packet::Connected(px::ConnectedPacket { ack, token, type_ })).unwrap_or_default()
}

/// the token an endpoint expects on incoming datagrams = the token its peer attaches
fn own_token(g: &Gen, to: usize) -> Option<[u8; 4]> {
    fp_tok_after(&g.w.eps[to].conn.verif_fingerprint(), "own_token: ")
}

fn foreign(g: &mut Gen, to: usize) -> Vec<u8> {
    let agreed = own_token(g, to);
    let seq = ((g.w.eps[to].del_vital.len() + 1) % 1024) as u16;
    let ackh = (g.w.eps[to].sub_vital.len() % 1024) as u16;
    let mode = g.rng.below(10);
    let genuine: Option<Vec<u8>> = {
        let h = &g.w.eps[1 - to].hist;
        if h.is_empty() {
            None
        } else {
            Some(h[g.rng.below(h.len() as u64) as usize].bytes.clone())
        }
    };
    match mode {
        0..=4 => {
            let tok = match (agreed, g.rng.below(5)) {
                (_, 0) => [0xff; 4],
                (Some(t), 1) => {
                    let mut t = t;
                    t[g.rng.below(4) as usize] ^= 1 << g.rng.below(8);
                    t
                }
                (Some(t), 2) => {
                    let mut t = t;
                    t[g.rng.below(4) as usize] ^= 1 << g.rng.below(8);
                    t[g.rng.below(4) as usize] ^= 1 << g.rng.below(8);
                    t
                }
                (_, 3) => [0; 4],
                _ => [g.rng.next() as u8, g.rng.next() as u8, g.rng.next() as u8, g.rng.next() as u8],
            };
            crafted(&mut g.rng, tok, seq, ackh)
        }
        5 | 6 => match genuine {
            // genuine datagram of the peer with one bit of its header token flipped, or truncated
            Some(mut b) if b.len() >= 7 => {
                if g.rng.chance(2, 3) {
                    let i = 3 + g.rng.below(4) as usize;
                    b[i] ^= 1 << g.rng.below(8);
                } else {
                    let cut = g.rng.below(b.len() as u64) as usize;
                    b.truncate(cut);
                }
                b
            }
            _ => crafted(&mut g.rng, [0xff; 4], seq, ackh),
        },
        7 => {
            if g.rng.chance(1, 2) {
                // short token request (below TOKEN_REQUEST_PACKET_SIZE)
                let mut b = vec![0x04, 0, 0, 0xff, 0xff, 0xff, 0xff, 5, 1, 2, 3, 4];
                b.extend(vec![0u8; g.rng.below(506) as usize]);
                b
            } else {
                { let n = 1401 + g.rng.below(10) as usize; g.rng.bytes(n) }
            }
        }
        8 => {
            let mut b = vec![0x10 | (g.rng.next() as u8 & 0x0b), g.rng.next() as u8, g.rng.next() as u8];
            b.extend(agreed.unwrap_or([0xff; 4]).iter().map(|x| x ^ 0x10));
            b.extend({ let n = g.rng.below(40) as usize; g.rng.bytes(n) });
            b
        }
        _ => { let n = g.rng.below(24) as usize; g.rng.bytes(n) },
    }
}

include!("conn_gen.inc.rs");

pub struct D;

pub fn domain() -> Box<dyn Domain> {
    Box::new(D)
}

impl Domain for D {
    fn gen(&self, tier: &str, seed: u64, out: &mut dyn std::io::Write) {
        gen_all(tier, seed, out);
    }
    fn runner(&self) -> Box<dyn Runner> {
        Box::new(R { w: World::new() })
    }
}
