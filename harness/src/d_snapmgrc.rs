//! Domain `snapmgrc`: the requests and the runner of `snapmgr` (real sender `Storage` + glue +
//! `delta_chunks` + real `Manager`), compared with the *concrete* Lean model (`Model/SnapMgrC.lean`:
//! builder with `recycle`, free list, `Delta::create`, wire form, 64 KiB buffer, `read_with_delta`).
//! Smaller worlds than `snapmgr` (the Lean side computes every snapshot and delta), more UUID types,
//! acknowledgements that empty the sender's storage.  Property C13.
use super::d_snapmgr::gen_session;
use super::d_snapmgr::new_runner;
use crate::util::*;
use std::io::Write;

pub struct D;

pub fn domain() -> Box<dyn Domain> {
    Box::new(D)
}

fn packed_len(items: &str) -> Option<usize> {
    let mut r = new_runner();
    let mut o = Oracle::new();
    r.run(&["new"], &mut o);
    let out = r.run(&["snap", "0", items], &mut o);
    out.split(' ').find_map(|f| f.strip_prefix("len=")).and_then(|v| v.parse().ok())
}

/// item lists whose packed delta (against the empty snapshot) has exactly 65536 and 65537 bytes
fn boundary_items() -> Option<(String, String)> {
    let full = |i: usize| format!("o8.{}:{}", i, vec!["2147483647"; 15].join("."));
    // values that pack into 1..5 bytes
    let by_extra = ["0", "64", "8192", "1048576", "2147483647"];
    // the last item: its 15 values take 15 + `extra` bytes
    let last = |n: usize, extra: usize| {
        let mut vals: Vec<&str> = vec![];
        let mut rest = extra;
        for _ in 0..15 {
            let e = rest.min(4);
            vals.push(by_extra[e]);
            rest -= e;
        }
        format!("o8.{}:{}", n, vals.join("."))
    };
    for n in 835..842usize {
        let base: Vec<String> = (0..n).map(full).collect();
        let l0 = match packed_len(&format!("{},{}", base.join(","), last(n, 0))) {
            Some(l) => l,
            None => continue,
        };
        if l0 <= 65536 && 65536 - l0 < 60 {
            let e = 65536 - l0;
            let fit = format!("{},{}", base.join(","), last(n, e));
            let over = format!("{},{}", base.join(","), last(n, e + 1));
            if packed_len(&fit) == Some(65536) {
                return Some((fit, over));
            }
        }
    }
    None
}

impl Domain for D {
    fn runner(&self) -> Box<dyn Runner> {
        new_runner()
    }
    fn gen(&self, tier: &str, seed: u64, w: &mut dyn Write) {
        let thorough = tier == "thorough";
        let mut rng = Rng::new(seed ^ 0x736d6763);
        // the glue's 64 KiB buffer: 800 characters (type 8, 15 integers of 5 packed bytes each) still
        // fit, 900 do not (the `unwrap` of the glue panics); both are accepted by the builder
        for &n in &[800usize, 900] {
            let items: Vec<String> = (0..n).map(|i| format!("o8.{}:{}", i, vec!["2147483647"; 15].join("."))).collect();
            writeln!(w, "new").unwrap();
            writeln!(w, "snap 0 {}", items.join(",")).unwrap();
            writeln!(w, "d 0").unwrap();
            writeln!(w, "d 40").unwrap();
            writeln!(w, "ack").unwrap();
            writeln!(w, "snap 2 o8.0:1.2.3.4.5.6.7.8.9.10.11.12.13.14.15").unwrap();
            writeln!(w, "d 0").unwrap();
        }
        // ... and the exact boundary: a delta of 65536 bytes is sent, one of 65537 bytes panics
        if let Some((fit, over)) = boundary_items() {
            for items in [fit, over] {
                writeln!(w, "new").unwrap();
                writeln!(w, "snap 0 {}", items).unwrap();
                writeln!(w, "ack").unwrap();
            }
        }
        let sessions = if thorough { 600 } else { 60 };
        for s in 0..sessions {
            let steps = rng.range(4, 25) as usize;
            // every third session uses UUID types of different sizes; every other one lets forged
            // acknowledgements empty the sender's storage
            gen_session(&mut rng, w, steps, s as u64, s % 3 == 1, s % 2 == 0, s % 4 < 2);
        }
    }
}
