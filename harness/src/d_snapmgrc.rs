//! Domain `snapmgrc`: the requests and the runner of `snapmgr` (real sender `Storage` + glue +
//! `delta_chunks` + real `Manager`), compared with the *concrete* Lean model (`Model/SnapMgrC.lean`:
//! builder with `recycle`, free list, `Delta::create`, wire form, 64 KiB buffer, `read_with_delta`).
//! Smaller worlds than `snapmgr` (the Lean side computes every snapshot and delta), more UUID types,
//! acknowledgements that empty the sender's storage.  Property C13.
use super::d_snapmgr::gen_session;
use super::d_snapmgr::new_runner;
use crate::util::*;
use std::io::Write;

pub struct D;

pub fn domain() -> Box<dyn Domain> {
    Box::new(D)
}

impl Domain for D {
    fn runner(&self) -> Box<dyn Runner> {
        new_runner()
    }
    fn gen(&self, tier: &str, seed: u64, w: &mut dyn Write) {
        let thorough = tier == "thorough";
        let mut rng = Rng::new(seed ^ 0x736d6763);
        let sessions = if thorough { 600 } else { 60 };
        for s in 0..sessions {
            let steps = rng.range(4, 25) as usize;
            // every third session uses UUID types of different sizes; every other one lets forged
            // acknowledgements empty the sender's storage
            gen_session(&mut rng, w, steps, s as u64, s % 3 == 1, s % 2 == 0);
        }
    }
}
