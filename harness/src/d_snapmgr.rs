//! Domain `snapmgr`: the sending `snapshot::Storage` (`add_snap`, `set_delta_tick`) glued to
//! `delta_chunks` the way `server/src/main.rs::send_snapshots` does it, a lossy / duplicating /
//! reordering channel in both directions, and the receiving `snapshot::Manager`.  Property C13.
//!
//! Line protocol (sessions start with `new`):
//!  * `snap <tick> <items>`   the sender builds a snapshot (`new_builder`, `add_item`…, `finish`), calls
//!    `add_snap`, writes the delta and cuts it with `delta_chunks`; the messages are appended to the
//!    channel log.  `<items>` = `-` or a comma list `o<type>.<id>:<v>.<v>…` / `u<n>.<id>:<v>.<v>…`
//!    (ordinal type / UUID type number n).  Anything after a `|` token is a hint for the Lean driver.
//!  * `d <i>`                 deliver message `i` of the channel log to the `Manager`
//!  * `dc <i> <n>`            deliver a copy of message `i` whose checksum field was changed by `n`
//!  * `ack`                   the client emits an input carrying `ack_tick().unwrap_or(-1)` (ack log)
//!  * `da <j>`                deliver ack `j` of the ack log to the sender (`set_delta_tick`)
//!  * `ra <v>`                deliver a forged ack value to the sender
//!  * `creset`                `Manager::reset`
//!
//! Oracle (the C13 statement on the real components): a snapshot accepted for tick `t` equals the
//! sender's snapshot for `t` item for item (and as raw integers) and `ack_tick = t`; after an error
//! `ack_tick` is what it was or `None`; a partial delivery does not touch it; the delta the sender
//! hands out turns the base it names (the stored snapshot with tick `delta_tick`, or the empty one)
//! into the new snapshot; nothing panics.
use super::d_recv::OMsg;
use crate::util::*;
use libtw2_gamenet_snap::Snap as SnapM;
use libtw2_gamenet_snap::SnapEmpty;
use libtw2_gamenet_snap::SnapSingle;
use libtw2_gamenet_teeworlds_0_6::snap_obj::obj_size;
use libtw2_packer::with_packer;
use libtw2_snapshot::format::TypeId;
use libtw2_snapshot::manager;
use libtw2_snapshot::receiver;
use libtw2_snapshot::snap::delta_chunks;
use libtw2_snapshot::storage;
use libtw2_snapshot::Manager;
use libtw2_snapshot::Snap;
use libtw2_snapshot::Storage;
use libtw2_warn::Ignore;
use std::collections::BTreeMap;
use std::io::Write;
use uuid::Uuid;

pub struct D;

pub fn domain() -> Box<dyn Domain> {
    Box::new(D)
}

type ItemSpec = (TypeId, u16, Vec<i32>);

fn uuid_of(n: u64) -> Uuid {
    // spread the number over the 128 bits so that the registry items have large integers
    let x = (n as u128).wrapping_mul(0x9e37_79b9_7f4a_7c15_f39c_c060_5ced_c835) ^ ((n as u128) << 96);
    Uuid::from_u128(x)
}

fn parse_items(s: &str) -> Option<Vec<ItemSpec>> {
    if s == "-" {
        return Some(vec![]);
    }
    let mut out = vec![];
    for it in s.split(',') {
        let (head, data) = it.split_once(':')?;
        let (ty, id) = head.split_once('.')?;
        let type_id = if let Some(t) = ty.strip_prefix('o') {
            TypeId::Ordinal(t.parse().ok()?)
        } else {
            TypeId::Uuid(uuid_of(ty.strip_prefix('u')?.parse().ok()?))
        };
        let data: Vec<i32> = if data.is_empty() {
            vec![]
        } else {
            data.split('.').map(|v| v.parse::<i32>().ok()).collect::<Option<Vec<_>>>()?
        };
        out.push((type_id, id.parse().ok()?, data));
    }
    Some(out)
}

/// canonical content of a snapshot: the resolved items and the raw integer form
#[derive(Clone, PartialEq, Eq, Debug)]
struct Canon {
    items: Vec<(String, u16, Vec<i32>)>,
    ints: Vec<i32>,
}

fn canon(s: &Snap) -> Canon {
    let mut items: Vec<(String, u16, Vec<i32>)> = s.items().map(|i| (format!("{:?}", i.type_id), i.id, i.data.to_vec())).collect();
    items.sort();
    let mut buf = vec![];
    let mut out = vec![0i32; 20000];
    let ints = s.write_to_ints(&mut buf, &mut out).map(|x| x.to_vec()).unwrap_or_default();
    Canon { items, ints }
}

fn ints_hash(xs: &[i32]) -> u64 {
    let mut h = FNV_OFFSET;
    for x in xs {
        h = fnv_bytes(h, &x.to_le_bytes());
    }
    h
}

struct Sent {
    snap: Snap,
    canon: Canon,
}

struct R {
    sender: Storage,
    client: Manager,
    msgs: Vec<OMsg>,
    acks: Vec<i32>,
    sent: BTreeMap<i32, Sent>,
    last_tick: Option<i32>,
    /// session kind `new mixed-uuid-sizes`: UUID types of different item sizes are in play (D25)
    mixed: bool,
    /// session kind `new refglue`: a protocol-conforming sender that sends `SnapEmpty` ("same as
    /// base") when the new snapshot equals the base, as the reference server does; the glue of
    /// server/src/main.rs never does (its written delta is never empty)
    refglue: bool,
    /// content -> serial number (0 = the empty snapshot), and the hint of the last `snap` for the
    /// Lean driver (only the generator uses it)
    serials: BTreeMap<Vec<i32>, u64>,
    last_hint: String,
    /// a message with an altered checksum field was delivered in this session
    garbled: bool,
    /// reference bookkeeping of which ticks each side must still hold (the mechanism the property
    /// names: the sender diffs against the last acknowledged snapshot if it still has it, the
    /// receiver applies a delta to the stored snapshot with exactly the named base tick)
    client_has: std::collections::BTreeSet<i32>,
    sender_has: std::collections::BTreeSet<i32>,
    /// what `delta_tick()` must be: the last acknowledgement the sender could honour
    sender_base: Option<i32>,
    ack_result: Option<(i32, bool)>,
}

impl R {
    fn new() -> R {
        R { sender: Storage::new(), client: Manager::new(), msgs: vec![], acks: vec![], sent: BTreeMap::new(), last_tick: None, mixed: false, refglue: false, serials: BTreeMap::new(), last_hint: String::new(), garbled: false, client_has: Default::default(), sender_has: Default::default(), sender_base: None, ack_result: None }
    }

    fn ack_str(&self) -> String {
        match self.client.ack_tick() {
            None => "none".to_string(),
            Some(t) => t.to_string(),
        }
    }

    fn send_snap(&mut self, tick: i32, items: &[ItemSpec], o: &mut Oracle) -> String {
        let api_ok = self.last_tick.map(|l| l < tick).unwrap_or(true);
        // ---- the glue of server/src/main.rs send_snapshots
        let mut builder = self.sender.new_builder();
        let delta_tick = self.sender.delta_tick().unwrap_or(-1);
        for (ty, id, data) in items {
            if let Err(e) = builder.add_item(*ty, *id, data) {
                self.last_hint = format!("builder-err {:?}", e);
                // the server would not get here (its items are distinct and few); the recycled
                // snapshot is simply dropped
                return format!("builder-err {:?}", e);
            }
        }
        if api_ok && self.sender.delta_tick() != self.sender_base {
            o.fail(
                "C13/sender-base-not-last-acknowledged",
                format!("tick {}: delta_tick() = {:?}, last honoured acknowledgement {:?}", tick, self.sender.delta_tick(), self.sender_base),
            );
        }
        let snap = builder.finish();
        let crc = snap.crc();
        let keep = snap.clone();
        let delta = self.sender.add_snap(tick, snap);
        let c = canon(&keep);
        let same_as_base = {
            let empty = Snap::empty();
            let base_ints = if delta_tick >= 0 { self.sent.get(&delta_tick).map(|s| s.canon.ints.clone()) } else { Some(canon(&empty).ints) };
            base_ints.as_ref() == Some(&c.ints)
        };
        let mut buf: Vec<u8> = vec![];
        if !(self.refglue && same_as_base) {
            buf.reserve(64 * 1024);
            with_packer(&mut buf, |p| delta.write(obj_size, p)).unwrap();
        } else {
            o.count("snap-empty-sent");
        }
        // ---- oracle: the delta turns the base it names into the new snapshot
        if api_ok {
            let empty = Snap::empty();
            let base = if delta_tick >= 0 { self.sent.get(&delta_tick).map(|s| &s.snap) } else { Some(&empty) };
            match base {
                None => o.fail("C13/sender-base-unknown", format!("tick {} names base {} which the sender never built", tick, delta_tick)),
                Some(base) => {
                    let mut out = Snap::empty();
                    let r = out.read_with_delta(&mut Ignore, base, delta);
                    if r.is_err() || canon(&out) != c {
                        o.fail("C13/sender-delta-does-not-reproduce-snapshot", format!("tick {} base {}: {:?}", tick, delta_tick, r));
                    }
                }
            }
        }
        let first = self.msgs.len();
        let mut parts = 0;
        for m in delta_chunks(tick, delta_tick, &buf, crc) {
            self.msgs.push(OMsg::from(&m));
            parts += 1;
        }
        self.last_tick = Some(tick);
        self.sender_has.insert(tick);
        // hint for the Lean driver: serial numbers by content
        if self.serials.is_empty() {
            self.serials.insert(canon(&Snap::empty()).ints, 0);
        }
        let n = self.serials.len() as u64;
        let serial = *self.serials.entry(c.ints.clone()).or_insert(n);
        let base_serial = if delta_tick >= 0 {
            self.sent.get(&delta_tick).and_then(|s| self.serials.get(&s.canon.ints).copied()).unwrap_or(999_999)
        } else {
            0
        };
        self.last_hint = format!("ok {} {} {} {} {} {}", serial, crc, c.items.len(), ints_hash(&c.ints), base_serial, to_hex(&buf));
        self.sent.insert(tick, Sent { snap: keep, canon: c });
        o.count(&format!("parts-{:02}", parts.min(33)));
        format!("sent {} base={} len={} parts={} crc={} first={} h={}", tick, delta_tick, buf.len(), parts, crc, first, fnv_bytes(FNV_OFFSET, &buf))
    }

    fn deliver(&mut self, i: usize, crc_delta: i32, o: &mut Oracle) -> String {
        let mut m = self.msgs[i].clone();
        if crc_delta != 0 {
            // not a message of the sender: the checksum field was altered on the way
            self.garbled = true;
            match &mut m {
                OMsg::Single { crc, .. } | OMsg::Snap { crc, .. } => *crc = crc.wrapping_add(crc_delta),
                OMsg::Empty { .. } => {}
            }
        }
        let before = self.client.ack_tick();
        let mut ws: Vec<manager::Warning> = vec![];
        let res = match &m {
            OMsg::Empty { tick, dt } => self.client.snap_empty(&mut ws, obj_size, SnapEmpty { tick: *tick, delta_tick: *dt }),
            OMsg::Single { tick, dt, crc, data } => {
                self.client.snap_single(&mut ws, obj_size, SnapSingle { tick: *tick, delta_tick: *dt, crc: *crc, data: data })
            }
            OMsg::Snap { tick, dt, n, part, crc, data } => self.client.snap(
                &mut ws,
                obj_size,
                SnapM { tick: *tick, delta_tick: *dt, num_parts: *n, part: *part, crc: *crc, data: data },
            ),
        };
        let tick = m.tick();
        let line;
        let accepted: Option<Canon>;
        let is_err;
        let mut err_kind: Option<manager::Error> = None;
        match res {
            Ok(None) => {
                line = "ok none".to_string();
                accepted = None;
                is_err = false;
            }
            Ok(Some(s)) => {
                let c = canon(s);
                line = format!("ok snap tick={} crc={} items={} sh={}", tick, s.crc(), c.items.len(), ints_hash(&c.ints));
                accepted = Some(c);
                is_err = false;
            }
            Err(e) => {
                line = format!("err {:?}", e);
                accepted = None;
                is_err = true;
                err_kind = Some(e);
            }
        }
        let after = self.client.ack_tick();
        // ---- oracle: which base ticks the client must still know
        let base = match &m {
            OMsg::Empty { tick, dt } | OMsg::Single { tick, dt, .. } | OMsg::Snap { tick, dt, .. } => tick.wrapping_sub(*dt),
        };
        let drain = |set: &mut std::collections::BTreeSet<i32>, b: i32| {
            if b >= 0 {
                let keep = set.split_off(&b);
                *set = keep;
            }
        };
        match (&accepted, &err_kind) {
            (Some(_), _) => {
                if base >= 0 && !self.client_has.contains(&base) {
                    o.fail(
                        "C13/delta-applied-to-a-base-that-should-be-gone",
                        format!("msg tick {} base {}: accepted, but the client should no longer hold tick {}", tick, base, base),
                    );
                }
                drain(&mut self.client_has, base);
                self.client_has.insert(tick);
                if self.client_has.len() > 100 {
                    let oldest = *self.client_has.iter().next().unwrap();
                    self.client_has.remove(&oldest);
                }
            }
            (None, Some(manager::Error::Storage(storage::Error::UnknownSnap))) => {
                if after.is_some() {
                    o.fail("C13/ack-not-cleared-on-unknown-base-or-bad-checksum", format!("msg tick {} base {}: UnknownSnap, ack_tick {:?}", tick, base, after));
                }
                if base >= 0 && self.client_has.contains(&base) {
                    o.fail(
                        "C13/stored-base-reported-unknown",
                        format!("msg tick {} base {}: the client accepted tick {} and nothing allowed it to drop it", tick, base, base),
                    );
                }
                drain(&mut self.client_has, base);
            }
            (None, Some(manager::Error::Storage(storage::Error::InvalidCrc))) => {
                if after.is_some() {
                    o.fail("C13/ack-not-cleared-on-unknown-base-or-bad-checksum", format!("msg tick {}: InvalidCrc, ack_tick {:?}", tick, after));
                }
                drain(&mut self.client_has, base);
            }
            (None, Some(manager::Error::Storage(storage::Error::Unpack(_)))) => {
                drain(&mut self.client_has, base);
            }
            _ => {}
        }
        // ---- oracle
        if let Some(c) = &accepted {
            o.count("accepted");
            match self.sent.get(&tick) {
                None => o.fail("C13/accepted-snapshot-never-sent", format!("tick {}", tick)),
                Some(s) => {
                    if s.canon.items != c.items {
                        o.fail("C13/accepted-snapshot-differs", format!("tick {}: sender {:?} receiver {:?}", tick, s.canon.items, c.items));
                    } else if s.canon.ints != c.ints {
                        o.fail("C13/accepted-snapshot-differs-raw", format!("tick {}", tick));
                    }
                }
            }
            if after != Some(tick) {
                o.fail("C13/ack-not-set-on-accept", format!("tick {} ack {:?}", tick, after));
            }
        } else if is_err {
            o.count("refused");
            if !(after == before || after.is_none()) {
                o.fail("C13/ack-advanced-on-error", format!("msg tick {}: ack {:?} -> {:?} on {}", tick, before, after, line));
            }
        } else {
            o.count("partial");
            if after != before {
                o.fail("C13/ack-changed-by-partial-delivery", format!("msg tick {}: ack {:?} -> {:?}", tick, before, after));
            }
        }
        let w: Vec<String> = ws
            .iter()
            .filter_map(|w| match w {
                manager::Warning::Receiver(receiver::Warning::DuplicateSnap) => Some("DuplicateSnap".to_string()),
                manager::Warning::Receiver(receiver::Warning::DifferingAttributes) => Some("DifferingAttributes".to_string()),
                manager::Warning::Storage(storage::Warning::WeirdNegativeDeltaTick) => Some("WeirdNegativeDeltaTick".to_string()),
                // warnings of the snapshot/delta parsers belong to C11's correspondence
                _ => None,
            })
            .collect();
        if !w.is_empty() && !self.garbled {
            // a consistent sender never causes receiver/storage warnings
            o.fail("C13/warning-on-consistent-history", format!("msg tick {}: {:?}", tick, w));
        }
        format!("{} ack={} w={}", line, self.ack_str(), list_str(w))
    }

    /// the sender honours an acknowledgement exactly when it still holds that snapshot; it holds
    /// every snapshot not older than the last acknowledgement it processed
    fn check_ack(&mut self, o: &mut Oracle) {
        if let Some((v, ok)) = self.ack_result.take() {
            if v < 0 {
                self.sender_base = None;
                if !ok {
                    o.fail("C13/sender-refused-negative-acknowledgement", format!("ack {}", v));
                }
                return;
            }
            let keep = self.sender_has.split_off(&v);
            self.sender_has = keep;
            let expect = self.sender_has.contains(&v);
            if ok != expect {
                o.fail(
                    "C13/sender-forgot-or-invented-acknowledged-snapshot",
                    format!("ack {}: set_delta_tick says {}, the sender {} that snapshot", v, if ok { "ok" } else { "UnknownSnap" }, if expect { "must still hold" } else { "cannot hold" }),
                );
            }
            self.sender_base = if ok { Some(v) } else { None };
        }
    }

    fn deliver_ack(&mut self, v: i32) -> String {
        let mut ws: Vec<storage::WeirdNegativeDeltaTick> = vec![];
        let r = self.sender.set_delta_tick(&mut ws, v);
        self.ack_result = Some((v, r.is_ok()));
        let dt = match self.sender.delta_tick() {
            None => "none".to_string(),
            Some(t) => t.to_string(),
        };
        format!("{} dt={} w={}", if r.is_ok() { "ok" } else { "err UnknownSnap" }, dt, if ws.is_empty() { "-" } else { "WeirdNegativeDeltaTick" })
    }
}

impl Runner for R {
    fn run(&mut self, t: &[&str], o: &mut Oracle) -> String {
        // drop the hints for the Lean driver
        let t: Vec<&str> = t.iter().cloned().take_while(|x| *x != "|").collect();
        match t.as_slice() {
            ["new", flags @ ..] if flags.iter().all(|f| *f == "mixed-uuid-sizes" || *f == "refglue") => {
                *self = R::new();
                self.mixed = flags.contains(&"mixed-uuid-sizes");
                self.refglue = flags.contains(&"refglue");
                "ok".to_string()
            }
            ["snap", tick, items] => match (tick.parse::<i32>().ok(), parse_items(items)) {
                (Some(tick), Some(items)) => {
                    let mut me = std::mem::replace(self, R::new());
                    let mixed = me.mixed;
                    let refglue = me.refglue;
                    let r = catch(|| {
                        let line = me.send_snap(tick, &items, o);
                        (me, line)
                    });
                    match r {
                        Ok((me, line)) => {
                            *self = me;
                            line
                        }
                        Err(msg) => {
                            // D25 (repaired in Storage::new_builder): the builder numbered UUID types per snapshot, so one raw key could
                            // denote items of two UUID types with different sizes
                            let tag = if mixed && msg.contains("item sizes can't be mismatched") {
                                "C13/sender-panics-on-renumbered-uuid-type"
                            } else if msg.contains("CapacityError") {
                                // the server glue's `unwrap` on its 64 KiB buffer (application code,
                                // recorded as an observation, `Oversize` in the theorems)
                                "C13-note/glue-buffer-overflow"
                            } else {
                                "C13/sender-panics"
                            };
                            o.fail(tag, format!("snap {}: {}", tick, msg));
                            self.mixed = mixed;
                            self.refglue = refglue;
                            "panic".to_string()
                        }
                    }
                }
                _ => "bad-args".to_string(),
            },
            ["d", i] | ["dc", i, _] => match i.parse::<usize>().ok() {
                Some(i) if i < self.msgs.len() => {
                    let crc_delta: i32 = if t.len() == 3 { t[2].parse().unwrap_or(1) } else { 0 };
                    let mut me = std::mem::replace(self, R::new());
                    let r = catch(|| {
                        let line = me.deliver(i, crc_delta, o);
                        (me, line)
                    });
                    match r {
                        Ok((me, line)) => {
                            *self = me;
                            line
                        }
                        Err(msg) => {
                            o.fail("C13/receiver-panics", format!("deliver {}: {}", i, msg));
                            "panic".to_string()
                        }
                    }
                }
                _ => "bad-index".to_string(),
            },
            ["ack"] => {
                let v = self.client.ack_tick().unwrap_or(-1);
                self.acks.push(v);
                format!("ackmsg {} {}", self.acks.len() - 1, v)
            }
            ["da", j] => match j.parse::<usize>().ok() {
                Some(j) if j < self.acks.len() => {
                    let v = self.acks[j];
                    let line = self.deliver_ack(v);
                    self.check_ack(o);
                    line
                }
                _ => "bad-index".to_string(),
            },
            ["ra", v] => match v.parse::<i32>().ok() {
                Some(v) => {
                    let line = self.deliver_ack(v);
                    self.check_ack(o);
                    line
                }
                None => "bad-args".to_string(),
            },
            // manual aid for writing corpus files (not used in generated requests)
            ["hint"] => self.last_hint.clone(),
            ["creset"] => {
                self.client_has.clear();
                self.client.reset();
                "ok".to_string()
            }
            _ => "bad-op".to_string(),
        }
    }
}

// ------------------------------------------------------------------------------------------
// generator: a world of items that appear, change and disappear; a schedule of deliveries

#[derive(Clone, PartialEq, Eq, PartialOrd, Ord)]
enum Ty {
    O(u16),
    U(u64),
}

fn data_len(ty: &Ty, mixed: bool) -> usize {
    match ty {
        Ty::O(t) => obj_size(*t).map(|s| s as usize).unwrap_or((*t as usize) % 4),
        Ty::U(n) => {
            if mixed {
                1 + (*n as usize) % 5
            } else {
                3
            }
        }
    }
}

struct World {
    items: BTreeMap<(Ty, u16), Vec<i32>>,
    mixed: bool,
}

fn gen_value(rng: &mut Rng) -> i32 {
    match rng.below(6) {
        0 => 0,
        1 => rng.range(-3, 3) as i32,
        2 => *rng.pick(&[i32::MAX, i32::MIN, -1, 1 << 20, -(1 << 27)]),
        3 => rng.next() as i32,
        _ => rng.range(-200, 200) as i32,
    }
}

impl World {
    fn gen_type(rng: &mut Rng) -> Ty {
        match rng.below(10) {
            0..=5 => Ty::O(rng.range(1, 22) as u16),
            6 => Ty::O(*rng.pick(&[23u16, 100, 0x3fff, 0x2000])),
            _ => Ty::U(rng.below(6)),
        }
    }
    fn mutate(&mut self, rng: &mut Rng, big: bool) {
        let n_add = if big { rng.range(20, 120) } else { rng.range(0, 4) };
        for _ in 0..n_add {
            let ty = World::gen_type(rng);
            let id = if rng.chance(1, 8) { *rng.pick(&[0u16, 1, 0x7fff, 0x8000, 0xffff]) } else { rng.below(if big { 300 } else { 12 }) as u16 };
            let len = data_len(&ty, self.mixed);
            let data: Vec<i32> = (0..len).map(|_| gen_value(rng)).collect();
            if self.items.len() < 900 {
                self.items.insert((ty, id), data);
            }
        }
        let keys: Vec<(Ty, u16)> = self.items.keys().cloned().collect();
        for k in keys {
            match rng.below(if big { 4 } else { 8 }) {
                0 => {
                    self.items.remove(&k);
                }
                1 | 2 => {
                    let d = self.items.get_mut(&k).unwrap();
                    if !d.is_empty() {
                        let i = rng.below(d.len() as u64) as usize;
                        d[i] = if rng.chance(1, 2) { d[i].wrapping_add(rng.range(-5, 5) as i32) } else { gen_value(rng) };
                    }
                }
                _ => {}
            }
        }
    }
    /// changes that keep the key set and the checksum (wrapping sum of all integers): a wrong base
    /// of the same history is then not caught by the checksum
    fn mutate_sum_preserving(&mut self, rng: &mut Rng) {
        let keys: Vec<(Ty, u16)> = self.items.iter().filter(|(_, d)| !d.is_empty()).map(|(k, _)| k.clone()).collect();
        if keys.len() < 2 {
            return;
        }
        for _ in 0..rng.range(1, 4) {
            let a = rng.pick(&keys).clone();
            let b = rng.pick(&keys).clone();
            let k = rng.range(-9, 9) as i32;
            {
                let d = self.items.get_mut(&a).unwrap();
                let i = rng.below(d.len() as u64) as usize;
                d[i] = d[i].wrapping_add(k);
            }
            {
                let d = self.items.get_mut(&b).unwrap();
                let i = rng.below(d.len() as u64) as usize;
                d[i] = d[i].wrapping_sub(k);
            }
        }
    }
    fn spec(&self) -> String {
        if self.items.is_empty() {
            return "-".to_string();
        }
        let v: Vec<String> = self
            .items
            .iter()
            .map(|((ty, id), d)| {
                let t = match ty {
                    Ty::O(t) => format!("o{}", t),
                    Ty::U(n) => format!("u{}", n),
                };
                format!("{}.{}:{}", t, id, d.iter().map(|x| x.to_string()).collect::<Vec<_>>().join("."))
            })
            .collect();
        v.join(",")
    }
}

/// The generator runs the real sender while it writes the session, so that it knows how many
/// messages each snapshot produced (message indices) and can attach the hints for the Lean driver.
struct Sim {
    r: R,
    o: Oracle,
}

pub fn new_runner() -> Box<dyn Runner> {
    Box::new(R::new())
}

pub fn gen_session(rng: &mut Rng, w: &mut dyn Write, steps: usize, style: u64, mixed: bool, wipe: bool, refglue: bool) {
    let mut sim = Sim { r: R::new(), o: Oracle::new() };
    let head = format!("new{}{}", if mixed { " mixed-uuid-sizes" } else { "" }, if refglue { " refglue" } else { "" });
    writeln!(w, "{}", head).unwrap();
    sim.r.mixed = mixed;
    sim.r.refglue = refglue;
    let mut world = World { items: BTreeMap::new(), mixed };
    let mut tick: i64 = match rng.below(6) {
        0 => 0,
        5 => -rng.range(1, 8),
        1 => rng.range(1, 1000),
        2 => i32::MAX as i64 - rng.range(2, 400),
        3 => rng.range(0, i32::MAX as i64 / 2),
        _ => 2,
    };
    // per snapshot: indices of its messages; undelivered backlog for reordering
    let mut backlog: Vec<usize> = vec![];
    let mut ack_backlog: Vec<usize> = vec![];
    let mut sent_ticks: Vec<i64> = vec![];
    // (the "silence" style below delivers every snapshot, to reach the eviction limit)
    let loss = if style % 10 == 9 { 0 } else { [0u64, 1, 3, 6][(style % 4) as usize] }; // out of 10
    let reorder = style / 4 % 2 == 1;
    let garble = style % 5 == 3;
    // style "sumfix": after the first snapshot only checksum- and key-preserving changes, with
    // frequent client resets, so that only the exact-base-tick rule stands between a stale delta
    // and a wrong snapshot
    let sumfix = style % 7 == 2 && style % 10 != 9;
    // style "silence": the acknowledgement path goes dead after a few steps and comes back late, so
    // that the receiver piles up more than MAX_STORED_SNAPSHOT snapshots and evicts the sender's base
    let silence = style % 10 == 9;
    for step in 0..steps {
        let acks_dead = silence && step > 5 && step < steps.saturating_sub(10);
        if tick > i32::MAX as i64 {
            break;
        }
        let big = rng.chance(1, 6) && !silence;
        if step > 0 && rng.chance(if refglue { 2 } else { 1 }, 5) {
            // an unchanged world: with acknowledgements flowing the new snapshot equals the base
            // (a protocol-conforming sender then says "same as base": SnapEmpty)
        } else if sumfix && step > 0 {
            world.mutate_sum_preserving(rng);
        } else {
            world.mutate(rng, big || sumfix);
        }
        let spec = world.spec();
        let toks = ["snap".to_string(), tick.to_string(), spec.clone()];
        let tv: Vec<&str> = toks.iter().map(|s| s.as_str()).collect();
        let out = sim.r.run(&tv, &mut sim.o);
        let hint = if out == "panic" { "panic".to_string() } else { sim.r.last_hint.clone() };
        writeln!(w, "snap {} {} | {}", tick, spec, hint).unwrap();
        let mut first = 0usize;
        let mut parts = 0usize;
        for f in out.split(' ') {
            if let Some(v) = f.strip_prefix("first=") {
                first = v.parse().unwrap_or(0);
            }
            if let Some(v) = f.strip_prefix("parts=") {
                parts = v.parse().unwrap_or(0);
            }
        }
        let mut mine: Vec<usize> = (first..first + parts).collect();
        if reorder {
            for i in (1..mine.len()).rev() {
                let j = rng.below(i as u64 + 1) as usize;
                mine.swap(i, j);
            }
        }
        // deliver, lose, duplicate, or delay each message
        for i in mine {
            if rng.below(10) < loss {
                if reorder && rng.chance(1, 2) {
                    backlog.push(i);
                }
                continue;
            }
            if garble && rng.chance(1, 12) {
                // a copy whose checksum field was altered arrives first
                let dl = *rng.pick(&[1i32, -1, 256, i32::MIN]);
                writeln!(w, "dc {} {}", i, dl).unwrap();
                sim.r.run(&["dc", &i.to_string(), &dl.to_string()], &mut sim.o);
            }
            writeln!(w, "d {}", i).unwrap();
            sim.r.run(&["d", &i.to_string()], &mut sim.o);
            if rng.chance(1, 10) {
                writeln!(w, "d {}", i).unwrap();
                sim.r.run(&["d", &i.to_string()], &mut sim.o);
            }
        }
        // late and duplicated messages of earlier snapshots
        while !backlog.is_empty() && rng.chance(1, 3) {
            let k = rng.below(backlog.len() as u64) as usize;
            let i = if rng.chance(1, 4) { backlog[k] } else { backlog.swap_remove(k) };
            writeln!(w, "d {}", i).unwrap();
            sim.r.run(&["d", &i.to_string()], &mut sim.o);
        }
        if rng.chance(1, 12) && !sim.r.msgs.is_empty() {
            let i = rng.below(sim.r.msgs.len() as u64) as usize;
            writeln!(w, "d {}", i).unwrap();
            sim.r.run(&["d", &i.to_string()], &mut sim.o);
        }
        // acknowledgements: emitted by the client, delivered (or not) in some order
        sent_ticks.push(tick);
        if sumfix && rng.chance(1, 3) {
            // an acknowledgement for a recent snapshot that the client may never have received
            let k = rng.below(sent_ticks.len().min(6) as u64) as usize;
            let v = sent_ticks[sent_ticks.len() - 1 - k];
            writeln!(w, "ra {}", v).unwrap();
            sim.r.run(&["ra", &v.to_string()], &mut sim.o);
        }
        if rng.chance(if sumfix { 1 } else { 3 }, 4) && !acks_dead {
            writeln!(w, "ack").unwrap();
            sim.r.run(&["ack"], &mut sim.o);
            let j = sim.r.acks.len() - 1;
            if rng.below(10) < loss {
                if rng.chance(1, 2) {
                    ack_backlog.push(j);
                }
            } else {
                writeln!(w, "da {}", j).unwrap();
                sim.r.run(&["da", &j.to_string()], &mut sim.o);
            }
        }
        while !ack_backlog.is_empty() && rng.chance(1, 3) {
            let k = rng.below(ack_backlog.len() as u64) as usize;
            let j = if rng.chance(1, 4) { ack_backlog[k] } else { ack_backlog.swap_remove(k) };
            writeln!(w, "da {}", j).unwrap();
            sim.r.run(&["da", &j.to_string()], &mut sim.o);
        }
        if wipe && !acks_dead && rng.chance(1, 8) {
            // an acknowledgement newer than everything the sender has: the storage is emptied and
            // the next builder comes from the free list
            let v = (tick + rng.range(1, 3)).min(i32::MAX as i64);
            writeln!(w, "ra {}", v).unwrap();
            sim.r.run(&["ra", &v.to_string()], &mut sim.o);
        }
        if rng.chance(1, 25) && !acks_dead {
            // an acknowledgement for something else entirely
            let v = match rng.below(4) {
                0 => -1,
                1 => rng.range(-5, 5),
                2 => tick - rng.range(0, 20),
                _ => rng.next() as i32 as i64,
            };
            let v = v.max(i32::MIN as i64).min(i32::MAX as i64);
            writeln!(w, "ra {}", v).unwrap();
            sim.r.run(&["ra", &v.to_string()], &mut sim.o);
        }
        if rng.chance(1, if sumfix { 8 } else { 60 }) && !silence {
            writeln!(w, "creset").unwrap();
            sim.r.run(&["creset"], &mut sim.o);
        }
        tick += if rng.chance(1, 2) { 2 } else { rng.range(1, 30) };
    }
}

impl Domain for D {
    fn runner(&self) -> Box<dyn Runner> {
        Box::new(R::new())
    }
    fn gen(&self, tier: &str, seed: u64, w: &mut dyn Write) {
        let thorough = tier == "thorough";
        let mut rng = Rng::new(seed ^ 0x736d6772);
        let sessions = if thorough { 800 } else { 90 };
        for s in 0..sessions {
            let steps = if s % 10 == 9 { 130 } else { rng.range(5, 40) as usize };
            gen_session(&mut rng, w, steps, s as u64, false, s % 6 == 5, s % 3 == 0);
        }
        // UUID types of different sizes: reaches D25 (open finding)
        for s in 0..(if thorough { 60 } else { 8 }) {
            gen_session(&mut rng, w, 30, s as u64, true, s % 3 == 2, s % 2 == 0);
        }
    }
}
