//! Domain `browse`: `serverbrowse/src/protocol.rs` (parse_response, Info*Response::parse,
//! PartialServerInfo::merge / get_info / take_info).  Property C18.
//!
//! Requests (see `lean/Tw/Drv/Browse.lean` for the model side):
//!   p <hex>                         parse_response + the kind's parse()
//!   m|mf <n> <k:hex>*n <step>...    merge sequence (`mf`: the parts are all parts of one info -> oracle)
//!   mh|mfh <n> <k:hex>*n <maxlen>   all step sequences of length 1..maxlen, hashed
use crate::util::*;
use libtw2_serverbrowse::protocol as sb;
use libtw2_serverbrowse::protocol::PartialServerInfo;
use libtw2_serverbrowse::protocol::Response;
use libtw2_serverbrowse::protocol::ServerInfo;
use libtw2_serverbrowse::protocol::ServerInfoVersion;
use std::io::Write;

pub struct D;

pub fn domain() -> Box<dyn Domain> {
    Box::new(D)
}

// ---------------------------------------------------------------------------------------------
// canonical text

fn opt<T, F: Fn(&T) -> String>(x: &Option<T>, f: F) -> String {
    match x {
        None => "~".to_string(),
        Some(v) => f(v),
    }
}

fn info_str(i: &ServerInfo) -> String {
    let cl = if i.clients.is_empty() {
        "-".to_string()
    } else {
        i.clients
            .iter()
            .map(|c| format!("{}/{}/{}/{}/{}", to_hex(c.name.as_bytes()), to_hex(c.clan.as_bytes()), c.country, c.score, c.flags))
            .collect::<Vec<_>>()
            .join(";")
    };
    [
        format!("{:?}", i.info_version),
        i.token.to_string(),
        to_hex(i.version.as_bytes()),
        to_hex(i.name.as_bytes()),
        opt(&i.hostname, |h| to_hex(h.as_bytes())),
        to_hex(i.map.as_bytes()),
        opt(&i.map_crc, |x| x.to_string()),
        opt(&i.map_size, |x| x.to_string()),
        to_hex(i.game_type.as_bytes()),
        i.flags.to_string(),
        opt(&i.progression, |x| x.to_string()),
        opt(&i.skill_level, |x| x.to_string()),
        i.num_players.to_string(),
        i.max_players.to_string(),
        i.num_clients.to_string(),
        i.max_clients.to_string(),
        cl,
    ]
    .join("|")
}

fn gi_str(i: Option<&ServerInfo>) -> String {
    match i {
        None => "none".to_string(),
        Some(i) => format!("some {}", info_str(i)),
    }
}

fn addr_str(a: sb::Addr) -> String {
    match a.ip_address {
        std::net::IpAddr::V4(ip) => format!("4:{}:{}", to_hex(&ip.octets()), a.port),
        std::net::IpAddr::V6(ip) => format!("6:{}:{}", to_hex(&ip.octets()), a.port),
    }
}

fn fnv_str(s: &str) -> u64 {
    fnv_bytes(FNV_OFFSET, s.as_bytes())
}

// ---------------------------------------------------------------------------------------------
// property oracle pieces (evaluated on the implementation only)

fn version_max(v: ServerInfoVersion) -> Option<i32> {
    match v {
        ServerInfoVersion::V5 | ServerInfoVersion::V6 | ServerInfoVersion::V6Ddper => Some(16),
        ServerInfoVersion::V664 | ServerInfoVersion::V7 => Some(64),
        ServerInfoVersion::V6Ex => None,
    }
}

/// what every info handed out by the library satisfies: counts are sane, clients are sorted
fn oracle_info(i: &ServerInfo, complete: bool, ctx: &str, o: &mut Oracle) {
    // an `iex+`-only accumulator has the default counts (all zero), which pass as well
    let sane = 0 <= i.num_players
        && i.num_players <= i.num_clients
        && i.num_clients <= i.max_clients
        && 0 <= i.max_players
        && i.max_players <= i.max_clients
        && version_max(i.info_version).map(|m| i.max_clients <= m).unwrap_or(true);
    if !sane {
        o.fail("C18/count-sanity", format!("{} {}", ctx, info_str(i)));
    }
    if !i.clients.windows(2).all(|w| w[0] <= w[1]) {
        o.fail("C18/clients-sorted", format!("{} {}", ctx, info_str(i)));
    }
    if complete && i.clients.len() as i64 != i.num_clients as i64 {
        o.fail("C18/complete-count", format!("{} {}", ctx, info_str(i)));
    }
}

/// Independent decode of the address lists (literal record sizes, endianness and IPv4-mapping
/// prefix written here, not taken from the crate): the answer of the library must be this.
fn oracle_list(bs: &[u8], line: &str, o: &mut Oracle) {
    let mut it = line.split(' ');
    let kind = it.next().unwrap_or("");
    let (payload, rec) = match kind {
        "list5" => (&bs[14..], 6usize),
        "list6" => (&bs[14..], 18),
        "list7" => (&bs[17..], 18),
        _ => return,
    };
    let got = line.rsplit(' ').next().unwrap_or("");
    let mut want: Vec<String> = vec![];
    for r in payload.chunks_exact(rec) {
        if rec == 6 {
            want.push(format!("4:{}:{}", to_hex(&r[..4]), r[4] as u32 + 256 * r[5] as u32));
        } else {
            let port = 256 * r[16] as u32 + r[17] as u32;
            if r[..12] == [0, 0, 0, 0, 0, 0, 0, 0, 0, 0, 0xff, 0xff] {
                want.push(format!("4:{}:{}", to_hex(&r[12..16]), port));
            } else {
                want.push(format!("6:{}:{}", to_hex(&r[..16]), port));
            }
        }
    }
    let want = list_str(want);
    if got != want && o.fails.len() < 200 {
        o.fail("C18/list-decode", format!("datagram={} got={} want={}", to_hex(bs), got, want));
    }
}

// ---------------------------------------------------------------------------------------------
// p

fn run_parse(bs: &[u8], o: &mut Oracle) -> String {
    let r = catch(|| {
        let mut sub: Vec<ServerInfo> = vec![];
        let mut sub_complete: Vec<ServerInfo> = vec![];
        let full = |name: &str, own: Option<(sb::Token7, sb::Token7)>, r: Option<ServerInfo>, sub: &mut Vec<ServerInfo>| {
            let pre = match own {
                Some((a, b)) => format!("{} {} {}", name, to_hex(&a.0), to_hex(&b.0)),
                None => name.to_string(),
            };
            match r {
                None => format!("{} none", pre),
                Some(i) => {
                    let s = format!("{} some {}", pre, info_str(&i));
                    sub.push(i);
                    s
                }
            }
        };
        let part = |name: &str, r: Option<PartialServerInfo>, sub: &mut Vec<ServerInfo>| match r {
            None => format!("{} none", name),
            Some(p) => {
                let mut q = p.clone();
                let tok = p.token();
                let gi = q.get_info();
                if let Some(i) = gi {
                    sub.push(i.clone());
                }
                format!("{} part {} {}", name, tok, gi_str(gi))
            }
        };
        let addrs6 = |xs: &[sb::Addr6Packed]| list_str(xs.iter().map(|a| addr_str(a.unpack())));
        let line = match sb::parse_response(bs) {
            None => "none".to_string(),
            Some(Response::List5(sb::List5Response(xs))) => format!("list5 {}", list_str(xs.iter().map(|a| addr_str(a.unpack())))),
            Some(Response::List6(sb::List6Response(xs))) => format!("list6 {}", addrs6(xs)),
            Some(Response::List7(sb::List7Response(a, b, xs))) => format!("list7 {} {} {}", to_hex(&a.0), to_hex(&b.0), addrs6(xs)),
            Some(Response::Count(sb::CountResponse(n))) => format!("count {}", n),
            Some(Response::Count7(sb::Count7Response(a, b, n))) => format!("count7 {} {} {}", to_hex(&a.0), to_hex(&b.0), n),
            Some(Response::Token7(sb::Token7Response(a, b))) => format!("token7 {} {}", to_hex(&a.0), to_hex(&b.0)),
            Some(Response::Info5(x)) => full("info5", None, x.parse(), &mut sub),
            Some(Response::Info6(x)) => full("info6", None, x.parse(), &mut sub),
            Some(Response::Info6Ddper(x)) => full("info6ddper", None, x.parse(), &mut sub),
            Some(Response::Info664(x)) => part("info664", x.parse(), &mut sub_complete),
            Some(Response::Info6Ex(x)) => part("info6ex", x.parse(), &mut sub_complete),
            Some(Response::Info6ExMore(x)) => part("info6exmore", x.parse(), &mut sub_complete),
            Some(Response::Info7(x)) => full("info7", Some((x.0, x.1)), x.parse(), &mut sub),
        };
        (line, sub, sub_complete)
    });
    match r {
        Err(msg) => {
            o.fail("C18/parse-panic", format!("{} datagram={}", msg, to_hex(bs)));
            "panic".to_string()
        }
        Ok((line, sub, sub_complete)) => {
            o.count(line.split(' ').next().unwrap_or("?"));
            oracle_list(bs, &line, o);
            for i in &sub {
                oracle_info(i, false, "parse", o);
            }
            for i in &sub_complete {
                oracle_info(i, true, "parse+get_info", o);
            }
            line
        }
    }
}

// ---------------------------------------------------------------------------------------------
// m / mf / mh / mfh

#[derive(Clone, Copy, PartialEq, Eq)]
enum PK {
    Dtsf,
    Iext,
    More,
}

fn parse_part_tok(s: &str) -> (PK, Vec<u8>) {
    let (k, h) = s.split_once(':').expect("part");
    let k = match k {
        "d" => PK::Dtsf,
        "x" => PK::Iext,
        "m" => PK::More,
        _ => panic!("bad part kind"),
    };
    (k, parse_hex(h).expect("hex"))
}

fn load_part(k: PK, bs: &[u8]) -> Option<PartialServerInfo> {
    match k {
        PK::Dtsf => sb::Info664Response(bs).parse(),
        PK::Iext => sb::Info6ExResponse(bs).parse(),
        PK::More => sb::Info6ExMoreResponse(bs).parse(),
    }
}

#[derive(Clone, Copy)]
enum Step {
    Merge(usize),
    Take,
}

fn err_letter(r: &Result<(), sb::MergeError>) -> &'static str {
    match r {
        Ok(()) => "k",
        Err(sb::MergeError::DifferingTokens) => "t",
        Err(sb::MergeError::DifferingVersions) => "v",
        Err(sb::MergeError::NotMultipartVersion) => "n",
        Err(sb::MergeError::OverlappingInfos) => "o",
    }
}

fn flag(p: &PartialServerInfo) -> &'static str {
    if p.clone().get_info().is_some() {
        "1"
    } else {
        "0"
    }
}

struct MergeRun {
    line: String,
    result: Option<ServerInfo>,
    any_err: bool,
    had_acc: bool,
}

fn run_steps(parts: &[Option<PartialServerInfo>], steps: &[Step]) -> MergeRun {
    let mut st: Option<PartialServerInfo> = None;
    let mut out: Vec<String> = vec![];
    let mut any_err = false;
    for s in steps {
        match *s {
            Step::Merge(i) => match parts.get(i).and_then(|p| p.as_ref()) {
                None => out.push("-".to_string()),
                Some(p) => match st.as_mut() {
                    None => {
                        out.push(format!("s{}", flag(p)));
                        st = Some(p.clone());
                    }
                    Some(acc) => {
                        let r = acc.merge(p.clone());
                        any_err |= r.is_err();
                        out.push(format!("{}{}", err_letter(&r), flag(acc)));
                    }
                },
            },
            Step::Take => match st.as_mut() {
                None => out.push("-".to_string()),
                Some(acc) => match acc.take_info() {
                    None => out.push("N".to_string()),
                    Some(i) => out.push(format!("S{}", fnv_str(&info_str(&i)))),
                },
            },
        }
    }
    match st.as_mut() {
        None => MergeRun { line: format!("{} empty", list_str(out)), result: None, any_err, had_acc: false },
        Some(acc) => {
            let gi = acc.get_info().cloned();
            MergeRun { line: format!("{} {}", list_str(out), gi_str(gi.as_ref())), result: gi, any_err, had_acc: true }
        }
    }
}

/// The C18 merge statement, evaluated on the implementation for one step sequence.
/// `family`: the parts are exactly the parts of one well-formed multi-part info (all non-empty
/// except possibly the main part of an extended info), so the expected outcome is known without
/// any model: complete iff every part occurs; equal to the repetition-free ascending merge.
fn oracle_merge(kinds: &[PK], parts: &[Option<PartialServerInfo>], steps: &[Step], run: &MergeRun, family: bool, o: &mut Oracle) {
    let idx: Vec<usize> = steps.iter().filter_map(|s| if let Step::Merge(i) = s { Some(*i) } else { None }).collect();
    let has_take = steps.iter().any(|s| matches!(s, Step::Take));
    let ctx = || format!("steps={:?}", idx);
    if let Some(i) = &run.result {
        oracle_info(i, true, "merge", o);
        // a complete extended info needs its main packet: the client count is announced there
        if !has_take && i.info_version == ServerInfoVersion::V6Ex {
            let main_seen = idx.iter().any(|&j| kinds.get(j) == Some(&PK::Iext) && parts[j].is_some());
            if !main_seen {
                o.fail("C18/complete-without-main", format!("{} result={}", ctx(), info_str(i)));
            }
        }
    }
    if !family || has_take {
        return;
    }
    if parts.iter().any(|p| p.is_none()) {
        o.fail("C18/family-part-rejected", ctx());
        return;
    }
    if !run.had_acc {
        return;
    }
    let mut distinct = idx.clone();
    distinct.sort();
    distinct.dedup();
    let has_rep = distinct.len() != idx.len();
    let reference = run_steps(parts, &distinct.iter().map(|&i| Step::Merge(i)).collect::<Vec<_>>());
    let tag_rep = if has_rep { "C18/merge-repeat" } else { "C18/merge-order" };
    if run.any_err {
        o.fail(if has_rep { "C18/merge-repeat" } else { "C18/merge-error" }, format!("{} a merge of a part of the same info returned Err: {}", ctx(), run.line.split(' ').next().unwrap_or("")));
    }
    if run.result != reference.result {
        o.fail(tag_rep, format!("{} got={} want={}", ctx(), gi_str(run.result.as_ref()), gi_str(reference.result.as_ref())));
    }
    let all = distinct.len() == parts.len();
    if reference.result.is_some() != all {
        o.fail("C18/merge-complete", format!("{} all-parts={} complete={}", ctx(), all, reference.result.is_some()));
    }
    if let Some(i) = &reference.result {
        let mut c = i.clients.clone();
        c.dedup();
        if c.len() != i.clients.len() {
            o.fail("C18/merge-complete", format!("{} duplicate clients in {}", ctx(), info_str(i)));
        }
    }
}

fn seqs(n: usize, len: usize) -> Vec<Vec<usize>> {
    if len == 0 {
        return vec![vec![]];
    }
    let tail = seqs(n, len - 1);
    let mut out = Vec::with_capacity(n * tail.len());
    for i in 0..n {
        for t in &tail {
            let mut v = Vec::with_capacity(len);
            v.push(i);
            v.extend_from_slice(t);
            out.push(v);
        }
    }
    out
}

fn run_merge(op: &str, t: &[&str], o: &mut Oracle) -> String {
    let n: usize = t[0].parse().expect("n");
    let toks: Vec<(PK, Vec<u8>)> = t[1..1 + n].iter().map(|s| parse_part_tok(s)).collect();
    let kinds: Vec<PK> = toks.iter().map(|x| x.0).collect();
    let family = op == "mf" || op == "mfh";
    let r = catch(|| {
        let parts: Vec<Option<PartialServerInfo>> = toks.iter().map(|(k, b)| load_part(*k, b)).collect();
        if op == "m" || op == "mf" {
            let steps: Vec<Step> = t[1 + n..]
                .iter()
                .map(|s| if *s == "t" { Step::Take } else { Step::Merge(s.parse().expect("step")) })
                .collect();
            let run = run_steps(&parts, &steps);
            oracle_merge(&kinds, &parts, &steps, &run, family, o);
            o.count(if family { "merge_family" } else { "merge_other" });
            run.line
        } else {
            let maxlen: usize = t[1 + n].parse().expect("maxlen");
            let mut h = FNV_OFFSET;
            let mut cnt = 0u64;
            for len in 1..=maxlen {
                for s in seqs(n, len) {
                    let steps: Vec<Step> = s.iter().map(|&i| Step::Merge(i)).collect();
                    let run = run_steps(&parts, &steps);
                    // one report per hashed request is enough
                    if o.fails.len() < 50 {
                        oracle_merge(&kinds, &parts, &steps, &run, family, o);
                    }
                    h = fnv_bytes(h, run.line.as_bytes());
                    h = fnv_byte(h, 10);
                    cnt += 1;
                }
            }
            o.add("merge_sequences_swept", cnt);
            format!("h {}", h)
        }
    });
    match r {
        Ok(s) => s,
        Err(msg) => {
            o.fail("C18/merge-panic", format!("{} request={} {}", msg, op, t.join(" ")));
            "panic".to_string()
        }
    }
}

/// result text of the kind's parse() on a bare payload (the part of a `p` line after the kind name)
fn info_result(k: &str, payload: &[u8], o: &mut Oracle) -> String {
    let full = |r: Option<ServerInfo>, o: &mut Oracle| match r {
        None => "none".to_string(),
        Some(i) => {
            oracle_info(&i, false, "parse", o);
            format!("some {}", info_str(&i))
        }
    };
    let part = |r: Option<PartialServerInfo>, o: &mut Oracle| match r {
        None => "none".to_string(),
        Some(p) => {
            let mut q = p.clone();
            let gi = q.get_info();
            if let Some(i) = gi {
                oracle_info(i, true, "parse+get_info", o);
            }
            format!("part {} {}", p.token(), gi_str(gi))
        }
    };
    match k {
        "5" => full(sb::Info5Response(payload).parse(), o),
        "6" => full(sb::Info6Response(payload).parse(), o),
        "p" => full(sb::Info6DdperResponse(payload).parse(), o),
        "7" => full(sb::Info7Response(sb::Token7([0; 4]), sb::Token7([0; 4]), payload).parse(), o),
        "d" => part(sb::Info664Response(payload).parse(), o),
        "x" => part(sb::Info6ExResponse(payload).parse(), o),
        "m" => part(sb::Info6ExMoreResponse(payload).parse(), o),
        _ => panic!("bad kind"),
    }
}

fn run_sweep(t: &[&str], o: &mut Oracle) -> String {
    let k = t[0];
    let pre = parse_hex(t[1]).expect("hex");
    let suf = parse_hex(t[2]).expect("hex");
    let alpha = parse_hex(t[3]).expect("hex");
    let maxlen: u32 = t[4].parse().expect("maxlen");
    let n = alpha.len() as u64;
    let r = catch(|| {
        let mut h = FNV_OFFSET;
        let mut cnt = 0u64;
        let mut buf: Vec<u8> = Vec::with_capacity(pre.len() + suf.len() + maxlen as usize);
        for len in 0..=maxlen {
            for c in 0..n.pow(len) {
                buf.clear();
                buf.extend_from_slice(&pre);
                for j in 0..len {
                    buf.push(alpha[((c / n.pow(len - 1 - j)) % n) as usize]);
                }
                buf.extend_from_slice(&suf);
                let s = info_result(k, &buf, o);
                h = fnv_bytes(h, s.as_bytes());
                h = fnv_byte(h, 10);
                cnt += 1;
            }
        }
        (h, cnt)
    });
    match r {
        Ok((h, cnt)) => {
            o.add("payloads_swept", cnt);
            format!("h {}", h)
        }
        Err(msg) => {
            o.fail("C18/parse-panic", format!("{} request=hs {}", msg, t.join(" ")));
            "panic".to_string()
        }
    }
}

// ---------------------------------------------------------------------------------------------
// e: structured info -> reference encoding -> parse; representability checker; round trip

#[derive(Clone, Debug, PartialEq, Eq, PartialOrd, Ord)]
struct RClient {
    name: Vec<u8>,
    clan: Vec<u8>,
    country: i64,
    score: i64,
    flags: i64,
}

#[derive(Clone, Debug)]
struct RInfo {
    ver: String,
    token: i64,
    version: Vec<u8>,
    name: Vec<u8>,
    hostname: Option<Vec<u8>>,
    map: Vec<u8>,
    crc: Option<u64>,
    size: Option<u64>,
    game_type: Vec<u8>,
    flags: i64,
    progression: Option<i64>,
    skill: Option<i64>,
    np: i64,
    mp: i64,
    nc: i64,
    mc: i64,
    clients: Vec<RClient>,
}

fn opt_s<T, F: Fn(&str) -> T>(s: &str, f: F) -> Option<T> {
    if s == "~" {
        None
    } else {
        Some(f(s))
    }
}

fn parse_rinfo(s: &str) -> RInfo {
    let f: Vec<&str> = s.split('|').collect();
    assert_eq!(f.len(), 17, "info fields");
    let hx = |x: &str| parse_hex(x).expect("hex");
    let int = |x: &str| x.parse::<i64>().expect("int");
    let clients = if f[16] == "-" {
        vec![]
    } else {
        f[16]
            .split(';')
            .map(|c| {
                let p: Vec<&str> = c.split('/').collect();
                RClient { name: hx(p[0]), clan: hx(p[1]), country: int(p[2]), score: int(p[3]), flags: int(p[4]) }
            })
            .collect()
    };
    RInfo {
        ver: f[0].to_string(),
        token: int(f[1]),
        version: hx(f[2]),
        name: hx(f[3]),
        hostname: opt_s(f[4], hx),
        map: hx(f[5]),
        crc: opt_s(f[6], |x| x.parse::<u64>().expect("crc")),
        size: opt_s(f[7], |x| x.parse::<u64>().expect("size")),
        game_type: hx(f[8]),
        flags: int(f[9]),
        progression: opt_s(f[10], int),
        skill: opt_s(f[11], int),
        np: int(f[12]),
        mp: int(f[13]),
        nc: int(f[14]),
        mc: int(f[15]),
        clients,
    }
}

fn rinfo_str(i: &RInfo, clients: &[RClient]) -> String {
    let cl = if clients.is_empty() {
        "-".to_string()
    } else {
        clients
            .iter()
            .map(|c| format!("{}/{}/{}/{}/{}", to_hex(&c.name), to_hex(&c.clan), c.country, c.score, c.flags))
            .collect::<Vec<_>>()
            .join(";")
    };
    [
        i.ver.clone(),
        i.token.to_string(),
        to_hex(&i.version),
        to_hex(&i.name),
        opt(&i.hostname, |h| to_hex(h)),
        to_hex(&i.map),
        opt(&i.crc, |x| x.to_string()),
        opt(&i.size, |x| x.to_string()),
        to_hex(&i.game_type),
        i.flags.to_string(),
        opt(&i.progression, |x| x.to_string()),
        opt(&i.skill, |x| x.to_string()),
        i.np.to_string(),
        i.mp.to_string(),
        i.nc.to_string(),
        i.mc.to_string(),
        cl,
    ]
    .join("|")
}

struct VerFeat {
    name: &'static str,
    hostname: bool,
    progression: bool,
    skill: bool,
    offset: bool,
    ext_player: bool,
    ext_map: bool,
    extra: bool,
    full_flags: bool,
    max_clients: Option<i64>,
}

/// the per-version wire layout, written down here independently of the crate
fn feat(k: K) -> VerFeat {
    let base = VerFeat { name: "", hostname: false, progression: false, skill: false, offset: false, ext_player: true, ext_map: false, extra: false, full_flags: false, max_clients: Some(16) };
    match k {
        K::I5 => VerFeat { name: "V5", progression: true, ext_player: false, ..base },
        K::I6 => VerFeat { name: "V6", ..base },
        K::I6Dp => VerFeat { name: "V6Ddper", ..base },
        K::I664 => VerFeat { name: "V664", offset: true, max_clients: Some(64), ..base },
        K::I6Ex | K::I6More => VerFeat { name: "V6Ex", ext_map: true, extra: true, max_clients: None, ..base },
        K::I7 => VerFeat { name: "V7", hostname: true, skill: true, full_flags: true, max_clients: Some(64), ..base },
    }
}

fn put_int(k: K, v: i64, out: &mut Vec<u8>) {
    if k == K::I7 {
        out.extend(varint(v as i32));
    } else {
        out.extend(v.to_string().into_bytes());
        out.push(0);
    }
}

fn put_str(s: &[u8], out: &mut Vec<u8>) {
    out.extend_from_slice(s);
    out.push(0);
}

fn put_clients(k: K, cs: &[RClient], out: &mut Vec<u8>) {
    let ft = feat(k);
    for c in cs {
        put_str(&c.name, out);
        if ft.ext_player {
            put_str(&c.clan, out);
            put_int(k, c.country, out);
        }
        put_int(k, c.score, out);
        if ft.ext_player {
            if ft.full_flags {
                put_int(k, c.flags, out);
            } else {
                put_int(k, if c.flags == 1 { 0 } else { 1 }, out);
            }
        }
        if ft.extra {
            put_str(b"", out);
        }
    }
}

/// the reference encoder (mirror of `encInfo` / `encMore` in lean/Tw/Model/ServerBrowseEnc.lean)
fn enc_rinfo(k: K, n: u64, i: &RInfo) -> Vec<u8> {
    let ft = feat(k);
    let mut o: Vec<u8> = vec![];
    put_int(k, i.token, &mut o);
    if k == K::I6More {
        put_int(k, n as i64, &mut o);
        put_str(b"", &mut o);
        put_clients(k, &i.clients, &mut o);
        return o;
    }
    put_str(&i.version, &mut o);
    put_str(&i.name, &mut o);
    if ft.hostname {
        put_str(i.hostname.as_deref().unwrap_or(b""), &mut o);
    }
    put_str(&i.map, &mut o);
    if ft.ext_map {
        let c = i.crc.unwrap_or(0) as i128;
        let wire = if c < (1 << 31) { c } else { c - (1i128 << 32) };
        put_int(k, wire as i64, &mut o);
        put_int(k, i.size.unwrap_or(0) as i64, &mut o);
    }
    put_str(&i.game_type, &mut o);
    put_int(k, i.flags, &mut o);
    if ft.progression {
        put_int(k, i.progression.unwrap_or(0), &mut o);
    }
    if ft.skill {
        put_int(k, i.skill.unwrap_or(0), &mut o);
    }
    put_int(k, i.np, &mut o);
    put_int(k, i.mp, &mut o);
    if ft.ext_player {
        put_int(k, i.nc, &mut o);
        put_int(k, i.mc, &mut o);
    }
    if ft.offset {
        put_int(k, n as i64, &mut o);
    }
    if ft.extra {
        put_str(b"", &mut o);
    }
    put_clients(k, &i.clients, &mut o);
    o
}

fn in_i32(v: i64) -> bool {
    v >= i32::MIN as i64 && v <= i32::MAX as i64
}

fn good_str(cap: usize, s: &[u8]) -> bool {
    !s.contains(&0) && std::str::from_utf8(s).is_ok() && s.len() <= cap
}

fn client_ok(k: K, c: &RClient) -> bool {
    let ft = feat(k);
    good_str(15, &c.name)
        && in_i32(c.score)
        && if ft.ext_player {
            good_str(11, &c.clan) && in_i32(c.country) && if ft.full_flags { in_i32(c.flags) } else { c.flags == 0 || c.flags == 1 }
        } else {
            c.clan.is_empty() && c.country == -1 && c.flags == 0
        }
}

/// representability (mirror of `representableB` / `representableMoreB`)
fn representable(k: K, n: u64, i: &RInfo) -> bool {
    let ft = feat(k);
    if k == K::I6More {
        return in_i32(i.token) && n >= 1 && n < 64 && i.clients.iter().all(|c| client_ok(k, c));
    }
    i.ver == ft.name
        && in_i32(i.token)
        && good_str(32, &i.version)
        && good_str(64, &i.name)
        && good_str(32, &i.map)
        && good_str(32, &i.game_type)
        && in_i32(i.flags)
        && (if ft.hostname { i.hostname.as_ref().map(|h| good_str(64, h)).unwrap_or(false) } else { i.hostname.is_none() })
        && (if ft.ext_map { matches!((i.crc, i.size), (Some(c), Some(s)) if c < (1 << 32) && s < (1 << 31)) } else { i.crc.is_none() && i.size.is_none() })
        && (if ft.progression { i.progression.map(in_i32).unwrap_or(false) } else { i.progression.is_none() })
        && (if ft.skill { i.skill.map(in_i32).unwrap_or(false) } else { i.skill.is_none() })
        && 0 <= i.np
        && i.np <= i.nc
        && i.nc <= i.mc
        && 0 <= i.mp
        && i.mp <= i.mc
        && ft.max_clients.map(|m| i.mc <= m).unwrap_or(true)
        && in_i32(i.mc)
        && (ft.ext_player || (i.nc == i.np && i.mc == i.mp))
        && (if ft.offset { n < (1 << 31) } else { n == 0 })
        && i.clients.iter().all(|c| client_ok(k, c))
        && (k != K::I664 || n as usize + i.clients.len() <= 64)
}

fn run_encode(t: &[&str], o: &mut Oracle) -> String {
    let kc = t[0];
    let k = kind_of_char(kc);
    let n: u64 = t[1].parse().expect("n");
    let i = parse_rinfo(t[2]);
    let bytes = enc_rinfo(k, n, &i);
    let rep = representable(k, n, &i);
    let res = match catch(|| {
        let mut sub = Oracle::new();
        let r = info_result(kc, &bytes, &mut sub);
        (r, sub)
    }) {
        Ok((r, sub)) => {
            for (_, tag, msg) in sub.fails {
                o.fail(&tag, msg);
            }
            r
        }
        Err(msg) => {
            o.fail("C18/parse-panic", format!("{} payload={}", msg, to_hex(&bytes)));
            "panic".to_string()
        }
    };
    // the round trip on the implementation: a representable info comes back as it was sent
    let rt = if rep {
        let mut sorted = i.clients.clone();
        sorted.sort();
        let want = match k {
            K::I6More => format!("part {} none", i.token),
            K::I664 | K::I6Ex => {
                if i.clients.len() as i64 == i.nc {
                    format!("part {} some {}", i.token, rinfo_str(&i, &sorted))
                } else {
                    format!("part {} none", i.token)
                }
            }
            _ => format!("some {}", rinfo_str(&i, &sorted)),
        };
        if res == want {
            "ok"
        } else {
            o.fail("C18/encode-roundtrip", format!("kind={} n={} info={} got={} want={}", kc, n, t[2], res, want));
            "BAD"
        }
    } else {
        "-"
    };
    o.count(if rep { "encode_representable" } else { "encode_other" });
    format!("{} {} {} {}", to_hex(&bytes), if rep { 1 } else { 0 }, res, rt)
}

/// `hp`: whole datagrams through parse_response, hashed
fn run_sweep_parse(t: &[&str], o: &mut Oracle) -> String {
    let pre = parse_hex(t[0]).expect("hex");
    let suf = parse_hex(t[1]).expect("hex");
    let alpha = parse_hex(t[2]).expect("hex");
    let maxlen: u32 = t[3].parse().expect("maxlen");
    let n = alpha.len() as u64;
    let mut h = FNV_OFFSET;
    let mut cnt = 0u64;
    let mut buf: Vec<u8> = vec![];
    for len in 0..=maxlen {
        for c in 0..n.pow(len) {
            buf.clear();
            buf.extend_from_slice(&pre);
            for j in 0..len {
                buf.push(alpha[((c / n.pow(len - 1 - j)) % n) as usize]);
            }
            buf.extend_from_slice(&suf);
            let s = run_parse(&buf, o);
            h = fnv_bytes(h, s.as_bytes());
            h = fnv_byte(h, 10);
            cnt += 1;
        }
    }
    o.add("datagrams_swept", cnt);
    format!("h {}", h)
}

fn kind_of_char(k: &str) -> K {
    match k {
        "5" => K::I5,
        "6" => K::I6,
        "p" => K::I6Dp,
        "d" => K::I664,
        "x" => K::I6Ex,
        "m" => K::I6More,
        "7" => K::I7,
        _ => panic!("bad kind"),
    }
}

fn kind_char(k: K) -> &'static str {
    match k {
        K::I5 => "5",
        K::I6 => "6",
        K::I6Dp => "p",
        K::I664 => "d",
        K::I6Ex => "x",
        K::I6More => "m",
        K::I7 => "7",
    }
}

/// `hc`: every tuple of values for the count fields
fn run_counts(t: &[&str], o: &mut Oracle) -> String {
    let kc = t[0];
    let k = kind_of_char(kc);
    let pre = parse_hex(t[1]).expect("hex");
    let suf = parse_hex(t[2]).expect("hex");
    let vals: Vec<i32> = t[3].split(',').map(|x| x.parse().expect("value")).collect();
    let nf = if k == K::I5 { 2 } else { 4 };
    let encs: Vec<Vec<u8>> = vals.iter().map(|&v| enc_int(k, v)).collect();
    let n = vals.len() as u64;
    let r = catch(|| {
        let mut h = FNV_OFFSET;
        let mut buf: Vec<u8> = vec![];
        let total = n.pow(nf);
        for c in 0..total {
            buf.clear();
            buf.extend_from_slice(&pre);
            for j in 0..nf {
                buf.extend_from_slice(&encs[((c / n.pow(nf - 1 - j)) % n) as usize]);
            }
            buf.extend_from_slice(&suf);
            let s = info_result(kc, &buf, o);
            h = fnv_bytes(h, s.as_bytes());
            h = fnv_byte(h, 10);
        }
        (h, total)
    });
    match r {
        Ok((h, cnt)) => {
            o.add("count_tuples_swept", cnt);
            format!("h {}", h)
        }
        Err(msg) => {
            o.fail("C18/parse-panic", format!("{} request=hc {}", msg, t.join(" ")));
            "panic".to_string()
        }
    }
}

struct R;

impl Runner for R {
    fn run(&mut self, t: &[&str], o: &mut Oracle) -> String {
        match t {
            ["p", h] => run_parse(&parse_hex(h).expect("hex"), o),
            ["hs", rest @ ..] if rest.len() == 5 => run_sweep(rest, o),
            ["hc", rest @ ..] if rest.len() == 4 => run_counts(rest, o),
            ["hp", rest @ ..] if rest.len() == 4 => run_sweep_parse(rest, o),
            ["e", rest @ ..] if rest.len() == 3 => run_encode(rest, o),
            [op @ ("m" | "mf" | "mh" | "mfh"), rest @ ..] if !rest.is_empty() => run_merge(op, rest, o),
            _ => "bad-op".to_string(),
        }
    }
}

// ---------------------------------------------------------------------------------------------
// generator


#[derive(Clone, Copy, PartialEq, Eq, Debug)]
enum K {
    I5,
    I6,
    I6Dp,
    I664,
    I6Ex,
    I6More,
    I7,
}

const KINDS: &[K] = &[K::I5, K::I6, K::I6Dp, K::I664, K::I6Ex, K::I6More, K::I7];

fn header(k: K, rng: &mut Rng) -> Vec<u8> {
    let mut h = match k {
        K::I5 => sb::INFO_5.to_vec(),
        K::I6 => sb::INFO_6.to_vec(),
        K::I6Dp => sb::INFO_6_DDPER.to_vec(),
        K::I664 => sb::INFO_6_64.to_vec(),
        K::I6Ex => sb::INFO_6_EX.to_vec(),
        K::I6More => sb::INFO_6_EX_MORE.to_vec(),
        K::I7 => sb::INFO_7.to_vec(),
    };
    match k {
        K::I7 => {
            for b in &mut h[1..9] {
                *b = rng.next() as u8;
            }
        }
        K::I6Dp => {
            for b in &mut h[2..6] {
                *b = rng.next() as u8;
            }
        }
        _ => {
            if rng.chance(1, 2) {
                // the first six bytes are ignored (first byte: only the connless bit counts)
                for b in &mut h[..6] {
                    *b = rng.next() as u8;
                }
                h[0] |= 0x40;
                if h[0] == b'd' && h[1] == b'p' {
                    h[1] = b'q';
                }
            }
        }
    }
    h
}

#[derive(Clone, Copy, PartialEq, Eq, Debug)]
enum FT {
    Int,
    Str,
}

#[derive(Clone, Debug)]
struct GClient {
    name: Vec<u8>,
    clan: Vec<u8>,
    country: i32,
    score: i32,
    is_player: i32, // V7: flags
}

#[derive(Clone, Debug)]
struct GInfo {
    token: i32,
    version: Vec<u8>,
    name: Vec<u8>,
    hostname: Vec<u8>,
    map: Vec<u8>,
    crc: i32,
    size: i32,
    game_type: Vec<u8>,
    flags: i32,
    progression: i32,
    skill: i32,
    num_players: i32,
    max_players: i32,
    num_clients: i32,
    max_clients: i32,
}

fn varint(v: i32) -> Vec<u8> {
    let mut buf = [0u8; 8];
    libtw2_packer::with_packer(&mut buf[..], |mut p| {
        p.write_int(v).unwrap();
        p.written().to_vec()
    })
}

fn enc_int(k: K, v: i32) -> Vec<u8> {
    if k == K::I7 {
        varint(v)
    } else {
        let mut s = v.to_string().into_bytes();
        s.push(0);
        s
    }
}

fn enc_str(s: &[u8]) -> Vec<u8> {
    let mut v = s.to_vec();
    v.push(0);
    v
}

/// The fields of one datagram payload in wire order: (type, label, encoding).
fn fields(k: K, g: &GInfo, offset: i32, packet_no: i32, clients: &[GClient]) -> Vec<(FT, &'static str, Vec<u8>)> {
    let mut f: Vec<(FT, &'static str, Vec<u8>)> = vec![];
    let i = |v: i32| enc_int(k, v);
    f.push((FT::Int, "token", i(g.token)));
    if k == K::I6More {
        f.push((FT::Int, "packet_no", i(packet_no)));
        f.push((FT::Str, "extra", enc_str(b"")));
    } else {
        f.push((FT::Str, "version", enc_str(&g.version)));
        f.push((FT::Str, "name", enc_str(&g.name)));
        if k == K::I7 {
            f.push((FT::Str, "hostname", enc_str(&g.hostname)));
        }
        f.push((FT::Str, "map", enc_str(&g.map)));
        if k == K::I6Ex {
            f.push((FT::Int, "crc", i(g.crc)));
            f.push((FT::Int, "size", i(g.size)));
        }
        f.push((FT::Str, "game_type", enc_str(&g.game_type)));
        f.push((FT::Int, "flags", i(g.flags)));
        if k == K::I5 {
            f.push((FT::Int, "progression", i(g.progression)));
        }
        if k == K::I7 {
            f.push((FT::Int, "skill", i(g.skill)));
        }
        f.push((FT::Int, "num_players", i(g.num_players)));
        f.push((FT::Int, "max_players", i(g.max_players)));
        if k != K::I5 {
            f.push((FT::Int, "num_clients", i(g.num_clients)));
            f.push((FT::Int, "max_clients", i(g.max_clients)));
        }
        if k == K::I664 {
            f.push((FT::Int, "offset", i(offset)));
        }
        if k == K::I6Ex {
            f.push((FT::Str, "extra", enc_str(b"")));
        }
    }
    for c in clients {
        f.push((FT::Str, "c_name", enc_str(&c.name)));
        if k != K::I5 {
            f.push((FT::Str, "c_clan", enc_str(&c.clan)));
            f.push((FT::Int, "c_country", i(c.country)));
        }
        f.push((FT::Int, "c_score", i(c.score)));
        if k != K::I5 {
            f.push((FT::Int, "c_flags", i(c.is_player)));
        }
        if k == K::I6Ex || k == K::I6More {
            f.push((FT::Str, "c_extra", enc_str(b"")));
        }
    }
    f
}

fn flatten(f: &[(FT, &'static str, Vec<u8>)]) -> Vec<u8> {
    f.iter().flat_map(|x| x.2.iter().cloned()).collect()
}

fn kind_max(k: K) -> i32 {
    match k {
        K::I5 | K::I6 | K::I6Dp => 16,
        K::I664 | K::I7 => 64,
        K::I6Ex | K::I6More => 200,
    }
}

const NAME_ALPHABET: &[&[u8]] = &[b"a", b"b", b"Z", b"0", b" ", b"_", b"\xc3\xa9", b"\xe2\x82\xac", b"\xf0\x9f\x98\x80", b"\x7f", b"\x01"];

fn gen_text(rng: &mut Rng, max_chars: u64) -> Vec<u8> {
    let n = rng.below(max_chars + 1);
    let mut v = vec![];
    for _ in 0..n {
        let a: &[u8] = *rng.pick(NAME_ALPHABET);
        v.extend_from_slice(a);
    }
    v
}

const SHARED_NAMES: &[&[u8]] = &[b"(connecting)", b"nameless tee", b"x", b""];

fn gen_client(rng: &mut Rng, uniq: usize, k: K) -> GClient {
    // a third of the clients share their name with others ("(connecting)", "nameless tee"); they
    // stay pairwise different through the country, whose order is unrelated to the wire order
    let shared = rng.chance(1, 3);
    let name = if shared {
        rng.pick(SHARED_NAMES).to_vec()
    } else {
        let mut name = format!("p{}", uniq).into_bytes();
        name.extend(gen_text(rng, 4));
        name
    };
    GClient {
        name,
        clan: if shared && rng.chance(1, 2) { b"clan".to_vec() } else { gen_text(rng, 5) },
        country: if shared { ((uniq * 37 + 11) % 256) as i32 + 1000 } else if rng.chance(1, 4) { -1 } else { rng.range(0, 900) as i32 },
        score: if rng.chance(1, 8) { rng.next() as i32 } else { rng.range(-5, 500) as i32 },
        is_player: if k == K::I7 { rng.below(4) as i32 } else { rng.below(2) as i32 },
    }
}

fn gen_info(rng: &mut Rng, k: K, nclients: i32) -> GInfo {
    let maxc = kind_max(k).max(nclients);
    let max_clients = rng.range(nclients as i64, maxc as i64) as i32;
    let num_players = rng.range(0, nclients as i64) as i32;
    let max_players = rng.range(0, max_clients as i64) as i32;
    GInfo {
        token: if rng.chance(1, 4) { rng.next() as i32 } else { rng.range(0, 0xffffff) as i32 },
        version: if rng.chance(1, 2) { b"0.6.4, 11.2.1".to_vec() } else { gen_text(rng, 12) },
        name: gen_text(rng, 30),
        hostname: gen_text(rng, 10),
        map: gen_text(rng, 10),
        crc: rng.next() as i32,
        size: rng.range(0, 0x7fffffff) as i32,
        game_type: if rng.chance(1, 2) { b"DDraceNetwork".to_vec() } else { gen_text(rng, 8) },
        flags: rng.below(4) as i32,
        progression: rng.range(-1, 100) as i32,
        skill: rng.below(3) as i32,
        num_players,
        max_players,
        num_clients: nclients,
        max_clients,
    }
}

const INT_TEXTS: &[&[u8]] = &[
    b"0", b"-0", b"+0", b"1", b"-1", b"+1", b"2", b"15", b"16", b"17", b"23", b"24", b"25", b"62", b"63", b"64", b"65", b"66", b"127", b"128",
    b"255", b"256", b"65535", b"65536", b"2147483646", b"2147483647", b"2147483648", b"+2147483647", b"+2147483648", b"-2147483647",
    b"-2147483648", b"-2147483649", b"4294967295", b"4294967296", b"4294967360", b"-4294967232", b"99999999999999999999",
    b"-99999999999999999999", b"18446744073709551680", b"-4294967295", b"-4294967296", b"-4294967297", b"9223372036854775807",
    b"9223372036854775808", b"-9223372036854775808", b"-9223372036854775809", b"18446744073709551615", b"18446744073709551616",
    b"2147483649", b"-2147483650", b"4294967294", b"4294967297", b"", b"-", b"+", b"+-1", b"-+1", b"--1", b"00064", b"-00064", b"+00064",
    b"0000000000000000000000064", b" 64", b"64 ", b"6 4", b"0x40", b"64.0", b"1e2", b"\xef\xbc\x96\xef\xbc\x94", b"\xd9\xa6\xd9\xa4", b"6\xff4",
    b"\xff", b"\xc0\xb1", b"64a", b"a", b"1_0",
];

const INT_VALUES: &[i32] = &[
    0, 1, -1, 2, 15, 16, 17, 23, 24, 25, 62, 63, 64, 65, 66, 127, 128, 255, 256, 8191, 8192, 65535, 65536, 0x7ffffffe, 0x7fffffff, -0x7fffffff,
    -0x80000000, -2, -16, -17, -63, -64, -65,
];

const VARINT_RAW: &[&[u8]] = &[
    b"", b"\x80", b"\x80\x80", b"\x80\x80\x80\x80", b"\x80\x80\x80\x80\x00", b"\x80\x01", b"\xc0\x00", b"\x80\x00", b"\xff\xff\xff\xff\x0f",
    b"\xff\xff\xff\xff\xff", b"\xbf\xff\xff\xff\x0f", b"\x40", b"\x7f", b"\xff\xff\xff\xff\x1f", b"\x81\x80\x80\x80\x10",
];

const STR_TEXTS: &[&[u8]] = &[
    b"", b"a", b"\x01", b"\x7f", b"\xc2\x80", b"\xdf\xbf", b"\xe0\xa0\x80", b"\xef\xbf\xbf", b"\xed\x9f\xbf", b"\xee\x80\x80", b"\xf0\x90\x80\x80",
    b"\xf4\x8f\xbf\xbf", b"\xf1\x80\x80\x80",
    // invalid
    b"\x80", b"\xbf", b"\xc0\x80", b"\xc1\xbf", b"\xc2", b"\xc2\x7f", b"\xc2\xc0", b"\xe0\x80\x80", b"\xe0\x9f\xbf", b"\xe0\xa0", b"\xe1\x80",
    b"\xe1\x80\x7f", b"\xed\xa0\x80", b"\xed\xbf\xbf", b"\xf0\x80\x80\x80", b"\xf0\x8f\xbf\xbf", b"\xf0\x90\x80", b"\xf4\x90\x80\x80",
    b"\xf5\x80\x80\x80", b"\xf8\x88\x80\x80\x80", b"\xff", b"\xfe", b"a\xffb", b"ab\xc3", b"\xe2\x82", b"\xf0\x9f\x98",
];

/// strings of length around a capacity, with a multi-byte character straddling it
fn cap_strings(cap: usize) -> Vec<Vec<u8>> {
    let mut v = vec![];
    for d in [-2i64, -1, 0, 1, 2, 5] {
        let n = (cap as i64 + d).max(0) as usize;
        v.push(vec![b'x'; n]);
    }
    for ch in [&b"\xc3\xa9"[..], &b"\xe2\x82\xac"[..], &b"\xf0\x9f\x98\x80"[..]] {
        for start in cap.saturating_sub(4)..=cap {
            let mut s = vec![b'y'; start];
            s.extend_from_slice(ch);
            s.extend_from_slice(b"zz");
            v.push(s);
            // and a run of them
            let mut s = vec![b'y'; start];
            for _ in 0..3 {
                s.extend_from_slice(ch);
            }
            v.push(s);
        }
    }
    v
}

fn field_cap(label: &str) -> usize {
    match label {
        "version" | "map" | "game_type" => 32,
        "name" | "hostname" => 64,
        "c_name" => 15,
        "c_clan" => 11,
        _ => 0,
    }
}

fn emit_p(w: &mut dyn Write, h: &[u8], payload: &[u8]) {
    let mut d = h.to_vec();
    d.extend_from_slice(payload);
    writeln!(w, "p {}", to_hex(&d)).unwrap();
}

fn part_tok(k: K, payload: &[u8]) -> String {
    let c = match k {
        K::I664 => "d",
        K::I6Ex => "x",
        K::I6More => "m",
        _ => panic!("not a partial kind"),
    };
    format!("{}:{}", c, to_hex(payload))
}

/// The parts of one multi-part info: `sizes[i]` clients in part `i`. For the extended version
/// part 0 is the main packet and part `i` gets packet number `nos[i]`.
fn family(rng: &mut Rng, ex: bool, sizes: &[usize], nos: &[i32]) -> Vec<String> {
    let total: usize = sizes.iter().sum();
    let k = if ex { K::I6Ex } else { K::I664 };
    let clients: Vec<GClient> = (0..total).map(|u| gen_client(rng, u, k)).collect();
    // shuffle so that the sort order is unrelated to the wire order
    let mut order: Vec<usize> = (0..total).collect();
    for i in (1..total).rev() {
        let j = rng.below(i as u64 + 1) as usize;
        order.swap(i, j);
    }
    let clients: Vec<GClient> = order.iter().map(|&i| clients[i].clone()).collect();
    family_of(rng, ex, sizes, nos, &clients)
}

/// The parts of one info whose clients are given in wire order (`sizes[i]` of them in part `i`).
fn family_of(rng: &mut Rng, ex: bool, sizes: &[usize], nos: &[i32], clients: &[GClient]) -> Vec<String> {
    let total: usize = sizes.iter().sum();
    assert_eq!(total, clients.len());
    let k = if ex { K::I6Ex } else { K::I664 };
    let mut g = gen_info(rng, k, total as i32);
    if !ex {
        g.max_clients = g.max_clients.min(64);
        g.max_players = g.max_players.min(g.max_clients);
    }
    let mut out = vec![];
    let mut at = 0usize;
    for (pi, &sz) in sizes.iter().enumerate() {
        let cs = &clients[at..at + sz];
        let (pk, payload) = if ex && pi > 0 {
            (K::I6More, flatten(&fields(K::I6More, &g, 0, nos[pi], cs)))
        } else {
            (k, flatten(&fields(k, &g, at as i32, 0, cs)))
        };
        out.push(part_tok(pk, &payload));
        at += sz;
    }
    out
}

/// A group of clients that agree in the first `depth` sort fields (name, clan, country, score)
/// and differ in the next one (for depth 4: in the flags, so there are only two of them). They are
/// returned in *descending* order, so that merging the parts in ascending order never happens to
/// produce the sorted arrangement.
fn tie_group(rng: &mut Rng, depth: usize, n: usize, tag: usize) -> Vec<GClient> {
    let base = GClient {
        name: (*rng.pick(&[&b"(connecting)"[..], &b"nameless tee"[..], &b"tie"[..]])).to_vec(),
        clan: format!("c{}", tag).into_bytes(),
        country: 40 + tag as i32,
        score: 7,
        is_player: 1,
    };
    let n = if depth >= 4 { 2 } else { n };
    (0..n)
        .rev()
        .map(|m| {
            let mut c = base.clone();
            let d = m as i32;
            match depth {
                1 => {
                    c.clan = format!("k{}", m).into_bytes();
                    c.country = rng.range(-1, 5) as i32;
                    c.score = rng.range(-3, 3) as i32;
                }
                2 => {
                    c.country = 100 + d;
                    c.score = rng.range(-3, 3) as i32;
                }
                3 => c.score = 10 * d - 5,
                // flags are compared last: spectator (1) sorts after player (0); wire `is_player`
                _ => c.is_player = if m == 0 { 1 } else { 0 },
            }
            c
        })
        .collect()
}

fn split_sizes(rng: &mut Rng, total: usize, nparts: usize, ex: bool) -> Vec<usize> {
    // nparts non-empty parts (the main part of an extended info may be empty)
    let mut sizes = vec![1usize; nparts];
    let mut left = total - nparts;
    if ex && rng.chance(1, 3) && total > nparts - 1 {
        sizes[0] = 0;
        left += 1;
    }
    while left > 0 {
        let i = rng.below(nparts as u64) as usize;
        sizes[i] += 1;
        left -= 1;
    }
    sizes
}

fn packet_nos(rng: &mut Rng, nparts: usize, max_no: i32) -> Vec<i32> {
    // distinct packet numbers in 1..=max_no for parts 1.. (index 0 unused)
    let mut pool: Vec<i32> = (1..=max_no).collect();
    let mut nos = vec![0];
    for _ in 1..nparts {
        let j = rng.below(pool.len() as u64) as usize;
        nos.push(pool.swap_remove(j));
    }
    nos
}

/// a valid UTF-8, NUL-free text of at most `cap` bytes; `full`: as close to the capacity as possible
fn fit_text(rng: &mut Rng, cap: usize, full: bool) -> Vec<u8> {
    let mut v: Vec<u8> = vec![];
    let target = if full { cap } else { rng.below(cap as u64 + 1) as usize };
    for _ in 0..200 {
        let a: &[u8] = *rng.pick(NAME_ALPHABET);
        if v.len() + a.len() <= target {
            v.extend_from_slice(a);
        } else if !full {
            break;
        }
    }
    v
}

fn edge_i32(rng: &mut Rng) -> i64 {
    match rng.below(6) {
        0 => i32::MIN as i64,
        1 => i32::MAX as i64,
        2 => -1,
        3 => 0,
        _ => rng.next() as i32 as i64,
    }
}

/// An info that is representable in kind `k` by construction (`HeadOk`/`ClientOk` hold), with the
/// offset / packet number to send it with.
fn gen_rinfo(rng: &mut Rng, k: K, ncl: usize) -> (RInfo, u64) {
    let ft = feat(k);
    let full = rng.chance(1, 4);
    let clients: Vec<RClient> = (0..ncl)
        .map(|_| RClient {
            name: fit_text(rng, 15, full),
            clan: if ft.ext_player { fit_text(rng, 11, full) } else { vec![] },
            country: if ft.ext_player { if rng.chance(1, 2) { edge_i32(rng) } else { rng.range(-1, 900) } } else { -1 },
            score: if rng.chance(1, 3) { edge_i32(rng) } else { rng.range(-10, 1000) },
            flags: if !ft.ext_player { 0 } else if ft.full_flags { if rng.chance(1, 3) { edge_i32(rng) } else { rng.below(4) as i64 } } else { rng.below(2) as i64 },
        })
        .collect();
    let vermax = ft.max_clients.unwrap_or(if rng.chance(1, 4) { i32::MAX as i64 } else { 300 });
    let nc: i64 = if k == K::I6More {
        0
    } else if rng.chance(4, 5) {
        (ncl as i64).min(vermax)
    } else {
        rng.range(0, vermax.min(80))
    };
    let mc = if rng.chance(1, 3) { vermax } else { rng.range(nc, vermax.min(nc + 40).max(nc)) };
    let mut np = if rng.chance(1, 3) { nc } else { rng.range(0, nc) };
    let mut mp = if rng.chance(1, 3) { mc } else { rng.range(0, mc) };
    if !ft.ext_player {
        np = nc;
        mp = mc;
    }
    let n: u64 = match k {
        K::I664 => {
            let room = 64usize.saturating_sub(ncl) as u64;
            if rng.chance(1, 3) { room } else { rng.below(room + 1) }
        }
        K::I6More => *rng.pick(&[1u64, 2, 31, 32, 33, 62, 63]),
        _ => 0,
    };
    let i = RInfo {
        ver: ft.name.to_string(),
        token: edge_i32(rng),
        version: fit_text(rng, 32, full),
        name: fit_text(rng, 64, full),
        hostname: if ft.hostname { Some(fit_text(rng, 64, full)) } else { None },
        map: fit_text(rng, 32, full),
        crc: if ft.ext_map { Some(*rng.pick(&[0u64, 1, 0x7fffffff, 0x80000000, 0xffffffff, 0x12345678, 0xdeadbeef])) } else { None },
        size: if ft.ext_map { Some(*rng.pick(&[0u64, 1, 627272, 0x7fffffff])) } else { None },
        game_type: fit_text(rng, 32, full),
        flags: edge_i32(rng),
        progression: if ft.progression { Some(edge_i32(rng)) } else { None },
        skill: if ft.skill { Some(edge_i32(rng)) } else { None },
        np,
        mp,
        nc,
        mc,
        clients,
    };
    if k == K::I6More {
        // only token and clients travel in an `iex+` packet
        let d = RInfo { version: vec![], name: vec![], map: vec![], game_type: vec![], crc: None, size: None, flags: 0, np: 0, mp: 0, nc: 0, mc: 0, ..i };
        return (d, n);
    }
    (i, n)
}

/// one deliberate violation of representability (the result is still encodable text-wise)
fn perturb(rng: &mut Rng, k: K, i: &mut RInfo, n: &mut u64) {
    let ft = feat(k);
    let v7 = k == K::I7;
    match rng.below(16) {
        0 => i.name.extend_from_slice(&vec![b'x'; 65]),
        1 => i.map.extend_from_slice(b"\xf0\x9f\x98\x80\xf0\x9f\x98\x80\xf0\x9f\x98\x80\xf0\x9f\x98\x80\xf0\x9f\x98\x80\xf0\x9f\x98\x80\xf0\x9f\x98\x80\xf0\x9f\x98\x80\xc3\xa9"),
        2 => i.game_type.push(0xff),
        3 => i.version.insert(0, 0),
        4 => i.mc = ft.max_clients.unwrap_or(i32::MAX as i64 - 1) + 1,
        5 => i.np = i.nc + 1,
        6 => i.mp = i.mc + 1,
        7 => i.np = -1,
        8 => {
            if let Some(c) = i.clients.first_mut() {
                c.flags = if v7 { 5 } else { 2 };
                c.name.extend_from_slice(b"0123456789abcdefg");
            } else {
                i.nc = -1;
            }
        }
        9 => {
            if let Some(c) = i.clients.last_mut() {
                c.clan.extend_from_slice(b"\xe2\x82\xac\xe2\x82\xac\xe2\x82\xac\xe2\x82\xac");
            } else {
                i.mc = -1;
            }
        }
        10 => i.hostname = if ft.hostname { None } else { Some(b"h".to_vec()) },
        11 => {
            if ft.ext_map {
                i.crc = Some(1 << 32);
            } else {
                i.crc = Some(5);
            }
        }
        12 => {
            if ft.ext_map {
                i.size = Some(1 << 31);
            } else {
                i.progression = if ft.progression { None } else { Some(1) };
            }
        }
        13 => {
            if !v7 {
                i.token = 1 << 31;
            } else {
                i.skill = None;
            }
        }
        14 => match k {
            K::I664 => *n = 65 - (i.clients.len() as u64).min(65),
            K::I6More => *n = *rng.pick(&[0u64, 64, 65]),
            _ => *n = 1,
        },
        _ => {
            if !ft.ext_player {
                i.nc = i.np + 1;
            } else {
                i.ver = "V5".to_string();
            }
        }
    }
}

impl Domain for D {
    fn runner(&self) -> Box<dyn Runner> {
        Box::new(R)
    }

    fn gen(&self, tier: &str, seed: u64, w: &mut dyn Write) {
        let mut rng = Rng::new(seed ^ 0x62726f77);
        let thorough = tier == "thorough";
        let reps = if thorough { 12 } else { 2 };

        // ---- the six non-info kinds: every payload length around the record sizes
        for len in 0..=40usize {
            let pl = rng.bytes(len);
            emit_p(w, sb::LIST_5, &pl);
            emit_p(w, sb::LIST_6, &pl);
            let mut h = sb::LIST_7.to_vec();
            for b in &mut h[1..9] {
                *b = rng.next() as u8;
            }
            emit_p(w, &h, &pl);
            let mut mapped = sb::IPV4_MAPPING.to_vec();
            mapped.extend(rng.bytes(6));
            mapped.extend(&pl);
            emit_p(w, sb::LIST_6, &mapped);
            if len < 6 {
                emit_p(w, sb::COUNT, &pl);
                let mut h = sb::COUNT_7.to_vec();
                for b in &mut h[1..9] {
                    *b = rng.next() as u8;
                }
                emit_p(w, &h, &pl);
                let mut h = sb::TOKEN_7.to_vec();
                for b in &mut h[3..7] {
                    *b = rng.next() as u8;
                }
                emit_p(w, &h, &pl);
            }
        }
        // ---- header recognition: every single-byte change of every header, every truncation
        let all_headers: Vec<Vec<u8>> = vec![
            sb::LIST_5.to_vec(), sb::LIST_6.to_vec(), sb::COUNT.to_vec(), sb::INFO_5.to_vec(), sb::INFO_6.to_vec(), sb::INFO_6_DDPER.to_vec(),
            sb::INFO_6_64.to_vec(), sb::INFO_6_EX.to_vec(), sb::INFO_6_EX_MORE.to_vec(), sb::TOKEN_7.to_vec(), sb::LIST_7.to_vec(),
            sb::COUNT_7.to_vec(), sb::INFO_7.to_vec(), sb::REQUEST_INFO_6_EX.to_vec(), sb::REQUEST_LIST_6.to_vec(), sb::CHALLENGE_6.to_vec(),
        ];
        let tail = b"1\0\x01\x02\0\0\0\0\0\0".to_vec();
        for h in &all_headers {
            for cut in 0..=h.len() {
                emit_p(w, &h[..cut], b"");
            }
            for pos in 0..h.len() {
                for v in [0x00u8, 0x04, 0x21, 0x3f, 0x40, 0x64, 0x70, 0x7f, 0x80, 0xbf, 0xfe, 0xff, h[pos] ^ 1, h[pos] ^ 0x40] {
                    let mut m = h.clone();
                    m[pos] = v;
                    emit_p(w, &m, &tail);
                }
            }
        }
        for b0 in 0..=255u8 {
            let mut m = sb::COUNT.to_vec();
            m[0] = b0;
            emit_p(w, &m, b"\x01\x02");
            let mut m = sb::INFO_6_DDPER.to_vec();
            m[0] = b0;
            emit_p(w, &m, b"\x01\x02");
        }

        // ---- info kinds
        for &k in KINDS {
            for rep in 0..reps {
                let nc = match rep {
                    0 => 3,
                    1 => 0,
                    _ => rng.below(5) as i32,
                };
                let g = gen_info(&mut rng, k, nc);
                let clients: Vec<GClient> = (0..nc as usize).map(|u| gen_client(&mut rng, u, k)).collect();
                let base = fields(k, &g, 0, 1, &clients);
                let h = header(k, &mut rng);
                emit_p(w, &h, &flatten(&base));
                // every truncation
                let flat = flatten(&base);
                for cut in 0..flat.len() {
                    emit_p(w, &h, &flat[..cut]);
                }
                // every field replaced by every boundary encoding
                for fi in 0..base.len() {
                    let (ft, label, _) = base[fi].clone();
                    let mut subs: Vec<Vec<u8>> = vec![];
                    match ft {
                        FT::Int => {
                            if k == K::I7 {
                                for &v in INT_VALUES {
                                    subs.push(varint(v));
                                }
                                for r in VARINT_RAW {
                                    subs.push(r.to_vec());
                                }
                            } else {
                                for t in INT_TEXTS {
                                    subs.push(enc_str(t));
                                }
                                for &v in INT_VALUES {
                                    subs.push(enc_int(k, v));
                                }
                            }
                        }
                        FT::Str => {
                            for t in STR_TEXTS {
                                subs.push(enc_str(t));
                            }
                            if rep == 0 {
                                for t in cap_strings(field_cap(label)) {
                                    subs.push(enc_str(&t));
                                }
                            }
                            // missing terminator: swallows the next field
                            subs.push(b"abc".to_vec());
                        }
                    }
                    for s in subs {
                        let mut m = base.clone();
                        m[fi].2 = s;
                        emit_p(w, &h, &flatten(&m));
                    }
                }
                // count fields: pairs of boundary values
                let count_labels = ["num_players", "max_players", "num_clients", "max_clients"];
                let vals = [-1, 0, 1, 2, 3, 4, 15, 16, 17, 63, 64, 65, 0x7fffffff];
                for (ai, a) in count_labels.iter().enumerate() {
                    for b in &count_labels[ai + 1..] {
                        for &va in &vals {
                            for &vb in &vals {
                                if !thorough && !rng.chance(1, 3) {
                                    continue;
                                }
                                let mut m = base.clone();
                                let mut hit = 0;
                                for f in m.iter_mut() {
                                    if f.1 == *a {
                                        f.2 = enc_int(k, va);
                                        hit += 1;
                                    } else if f.1 == *b {
                                        f.2 = enc_int(k, vb);
                                        hit += 1;
                                    }
                                }
                                if hit == 2 {
                                    emit_p(w, &h, &flatten(&m));
                                }
                            }
                        }
                    }
                }
            }
        }
        // ---- dtsf: offset swept over its boundaries with 0..3 clients, and long client lists
        for off in [-1i32, 0, 1, 23, 24, 47, 48, 60, 61, 62, 63, 64, 65, 66, 100, 0x7ffffffd, 0x7ffffffe, 0x7fffffff] {
            for nc in 0..=4usize {
                let mut g = gen_info(&mut rng, K::I664, nc as i32);
                g.max_clients = 64;
                let clients: Vec<GClient> = (0..nc).map(|u| gen_client(&mut rng, u, K::I664)).collect();
                emit_p(w, sb::INFO_6_64, &flatten(&fields(K::I664, &g, off, 0, &clients)));
            }
        }
        for nc in [24usize, 63, 64, 65, 66, 70] {
            for off in [0i32, 1, 2, 40] {
                let mut g = gen_info(&mut rng, K::I664, 64.min(nc) as i32);
                g.max_clients = 64;
                let clients: Vec<GClient> = (0..nc).map(|u| gen_client(&mut rng, u, K::I664)).collect();
                emit_p(w, sb::INFO_6_64, &flatten(&fields(K::I664, &g, off, 0, &clients)));
            }
        }
        // ---- iex+: packet number swept
        for no in [-0x80000000i32, -1, 0, 1, 2, 31, 32, 33, 62, 63, 64, 65, 66, 127, 128, 0x7fffffff] {
            for nc in 0..=2usize {
                let g = gen_info(&mut rng, K::I6More, 0);
                let clients: Vec<GClient> = (0..nc).map(|u| gen_client(&mut rng, u, K::I6More)).collect();
                emit_p(w, sb::INFO_6_EX_MORE, &flatten(&fields(K::I6More, &g, 0, no, &clients)));
            }
        }
        // ---- random payloads behind every header, random datagrams
        let n = if thorough { 40000 } else { 3000 };
        for _ in 0..n {
            let len = rng.below(60) as usize;
            let mut pl = rng.bytes(len);
            if rng.chance(1, 2) {
                // bias to digits, NULs and signs: what the decimal reader looks at
                for b in pl.iter_mut() {
                    *b = *rng.pick(b"0123456789\0\0\0-+a\xc3\xa9\xff");
                }
            }
            let h = rng.pick(&all_headers).clone();
            emit_p(w, &h, &pl);
        }
        for _ in 0..n / 4 {
            let len = rng.below(40) as usize;
            emit_p(w, &[], &rng.bytes(len));
        }
        // ---- mutated valid infos (bit flips, byte inserts/deletes)
        for _ in 0..n {
            let k = *rng.pick(KINDS);
            let nc = rng.below(4) as i32;
            let g = gen_info(&mut rng, k, nc);
            let clients: Vec<GClient> = (0..nc as usize).map(|u| gen_client(&mut rng, u, k)).collect();
            let mut flat = flatten(&fields(k, &g, rng.below(70) as i32, rng.range(0, 66) as i32, &clients));
            for _ in 0..rng.below(3) {
                if flat.is_empty() {
                    break;
                }
                let i = rng.below(flat.len() as u64) as usize;
                match rng.below(4) {
                    0 => flat[i] ^= 1 << rng.below(8),
                    1 => {
                        flat.remove(i);
                    }
                    2 => flat.insert(i, *rng.pick(b"\0019-+\x80\xff")),
                    _ => flat[i] = rng.next() as u8,
                }
            }
            let h = header(k, &mut rng);
            emit_p(w, &h, &flat);
        }

        // ---- exhaustive small sub-domains in hash form
        // decimal reader: every string over the alphabet as packet number / offset / token
        let int_alpha = b"0123456789+-\x00 a\xff";
        let int_len = if thorough { 5 } else { 3 };
        // iex+: token "7", then the swept packet number (the alphabet contains NUL, so the swept
        // string also produces the following fields), then extra + one client
        writeln!(w, "hs m {} {} {} {}", to_hex(b"7\0"), to_hex(b"\0\0c\0\00\01\01\0\0"), to_hex(int_alpha), int_len).unwrap();
        // dtsf: the offset field, two clients behind it
        let dtsf_pre = b"7\0v\0n\0m\0g\00\02\064\02\064\0";
        let dtsf_suf = b"\0a\0\00\01\01\0b\0\00\02\01\0";
        writeln!(w, "hs d {} {} {} {}", to_hex(dtsf_pre), to_hex(dtsf_suf), to_hex(int_alpha), int_len).unwrap();
        // the token of a 0.6 info
        writeln!(w, "hs 6 - {} {} {}", to_hex(b"\0v\0n\0m\0g\00\00\00\00\00\0"), to_hex(int_alpha), int_len).unwrap();
        // varint reader: every byte string as the token of a 0.7 info
        let all: Vec<u8> = (0..=255u8).collect();
        writeln!(w, "hs 7 - {} {} {}", to_hex(b"v\0n\0h\0m\0g\0\x00\x00\x00\x00\x00\x00"), to_hex(&all), 2).unwrap();
        if thorough {
            let some: Vec<u8> = vec![0x00, 0x01, 0x3f, 0x40, 0x7f, 0x80, 0x81, 0x8f, 0x90, 0xbf, 0xc0, 0xfe, 0xff];
            writeln!(w, "hs 7 - {} {} {}", to_hex(b"v\0n\0h\0m\0g\0\x00\x00\x00\x00\x00\x00"), to_hex(&some), 5).unwrap();
        }
        // from_utf8 + truncated_arraystring: every 1- and 2-byte string as a client name / clan,
        // and strings over the UTF-8 class boundaries up to length 4 (5 in the thorough tier)
        let name_pre = b"7\0v\0n\0m\0g\00\01\01\01\01\0";
        writeln!(w, "hs 6 {} {} {} {}", to_hex(name_pre), to_hex(b"\0\00\01\01\0"), to_hex(&all[1..]), 2).unwrap();
        writeln!(w, "hs 6 {} {} {} {}", to_hex(b"7\0v\0n\0m\0g\00\01\01\01\01\0a\0"), to_hex(b"\00\01\01\0"), to_hex(&all[1..]), 2).unwrap();
        let utf_alpha: Vec<u8> = vec![0x41, 0x7f, 0x80, 0x8f, 0x90, 0x9f, 0xa0, 0xbf, 0xc0, 0xc1, 0xc2, 0xdf, 0xe0, 0xe1, 0xec, 0xed, 0xee, 0xef, 0xf0, 0xf1, 0xf3, 0xf4, 0xf5, 0xff];
        writeln!(w, "hs 6 {} {} {} {}", to_hex(name_pre), to_hex(b"\0\00\01\01\0"), to_hex(&utf_alpha), if thorough { 4 } else { 3 }).unwrap();
        if thorough {
            // length 5, one request per first byte (keeps every request well below the watchdog)
            for &b0 in &utf_alpha {
                let mut pre = name_pre.to_vec();
                pre.push(b0);
                writeln!(w, "hs 6 {} {} {} {}", to_hex(&pre), to_hex(b"\0\00\01\01\0"), to_hex(&utf_alpha), 4).unwrap();
            }
        }
        // capacity: 13/14/15 ASCII bytes, then every string over a multi-byte alphabet
        for fill in [9usize, 13, 14, 15] {
            let mut pre = name_pre.to_vec();
            pre.extend(vec![b'x'; fill]);
            writeln!(w, "hs 6 {} {} {} {}", to_hex(&pre), to_hex(b"\0\00\01\01\0"), to_hex(b"a\xc3\xa9\xe2\x82\xac\xf0\x9f\x98\x80"), if thorough { 6 } else { 4 }).unwrap();
        }

        // ---- encoder-based: infos that are representable by construction (all kinds, boundary values,
        // strings exactly at their capacity, up to 64 clients), one in four deliberately perturbed
        {
            let per_kind = if thorough { 3000 } else { 300 };
            for &k in KINDS {
                for j in 0..per_kind {
                    let ncl = match j % 10 {
                        0 => 0,
                        1 => 1,
                        2 => if k == K::I664 || k == K::I7 { 64 } else if k == K::I6Ex || k == K::I6More { 40 } else { 16 },
                        _ => rng.below(6) as usize,
                    };
                    let (mut i, mut n) = gen_rinfo(&mut rng, k, ncl);
                    if j % 4 == 3 {
                        perturb(&mut rng, k, &mut i, &mut n);
                    }
                    writeln!(w, "e {} {} {}", kind_char(k), n, rinfo_str(&i, &i.clients)).unwrap();
                }
            }
        }

        // ---- master-server kinds in hash form: every payload over boundary alphabets
        {
            let all: Vec<u8> = (0..=255u8).collect();
            let tok = |h: &[u8], lo: usize, hi: usize, rng: &mut Rng| {
                let mut v = h.to_vec();
                for b in &mut v[lo..hi] {
                    *b = rng.next() as u8;
                }
                v
            };
            // count / count7: every payload of 0..2 bytes (all 65 536 values), longer ones over 4 bytes
            writeln!(w, "hp {} - {} 2", to_hex(sb::COUNT), to_hex(&all)).unwrap();
            writeln!(w, "hp {} - {} 2", to_hex(&tok(sb::COUNT_7, 1, 9, &mut rng)), to_hex(&all)).unwrap();
            writeln!(w, "hp {} - 00017f80ff 5", to_hex(sb::COUNT)).unwrap();
            // token7: payload lengths 0..6, and every value of our token's first two bytes
            writeln!(w, "hp {} - 0001807fff 6", to_hex(&tok(sb::TOKEN_7, 3, 7, &mut rng))).unwrap();
            writeln!(w, "hp 040000 {} {} 2", to_hex(&[0x33, 0x44, 0x05, 1, 2, 3, 4, 5]), to_hex(&all)).unwrap();
            // list5: records of 6 bytes (address bytes and both port bytes over boundary values),
            // lengths 0..8 cover the empty list, a partial record, one record, one record + rest
            writeln!(w, "hp {} - 0001ff 8", to_hex(sb::LIST_5)).unwrap();
            writeln!(w, "hp {} {} {} 2", to_hex(sb::LIST_5), to_hex(b"\x09\x08"), to_hex(&all)).unwrap();
            // ports: every value of both port bytes behind a fixed address (endianness)
            let mut p5 = sb::LIST_5.to_vec();
            p5.extend_from_slice(&[10, 0, 0, 1]);
            writeln!(w, "hp {} - {} 2", to_hex(&p5), to_hex(&all)).unwrap();
            for h in [sb::LIST_6.to_vec(), tok(sb::LIST_7, 1, 9, &mut rng)] {
                // list6 / list7: the IPv4-mapping prefix with its last two bytes, the address and
                // the port swept (3^8 datagrams reach exactly one 18-byte record at length 8)
                let mut p6 = h.clone();
                p6.extend_from_slice(&sb::IPV4_MAPPING[..10]);
                writeln!(w, "hp {} - 00ff01 8", to_hex(&p6)).unwrap();
                // every single-byte deviation from the mapping prefix at each of its 12 positions
                for pos in 0..12usize {
                    let mut pre = h.clone();
                    pre.extend_from_slice(&sb::IPV4_MAPPING[..pos]);
                    let mut suf = sb::IPV4_MAPPING[pos + 1..].to_vec();
                    suf.extend_from_slice(&[192, 168, 0, 1, 0x20, 0x6c]);
                    writeln!(w, "hp {} {} 0001feff 1", to_hex(&pre), to_hex(&suf)).unwrap();
                }
                // port bytes, all values; record boundary: 0..3 extra bytes after one record, 17 bytes
                let mut p = h.clone();
                p.extend_from_slice(&sb::IPV4_MAPPING);
                p.extend_from_slice(&[1, 2, 3, 4]);
                writeln!(w, "hp {} - {} 2", to_hex(&p), to_hex(&all)).unwrap();
                let mut q = h.clone();
                q.extend_from_slice(&[0x20, 0x01, 0x0d, 0xb8, 0, 0, 0, 0, 0, 0, 0, 0, 0, 0, 0, 1]);
                writeln!(w, "hp {} - 0001ff 5", to_hex(&q)).unwrap();
            }
        }

        // ---- the four count fields jointly (every tuple over the boundary values), per kind
        {
            let vals: &[i32] = if thorough {
                &[-0x80000000, -2, -1, 0, 1, 2, 3, 15, 16, 17, 63, 64, 65, 0x7ffffffe, 0x7fffffff]
            } else {
                &[-1, 0, 1, 2, 15, 16, 17, 63, 64, 65, 0x7fffffff]
            };
            let vs: Vec<String> = vals.iter().map(|v| v.to_string()).collect();
            for &k in KINDS {
                if k == K::I6More {
                    continue;
                }
                for nc in [0usize, 2] {
                    let g = gen_info(&mut rng, k, nc as i32);
                    let clients: Vec<GClient> = (0..nc).map(|u| gen_client(&mut rng, u, k)).collect();
                    let f = fields(k, &g, 0, 0, &clients);
                    let first = f.iter().position(|x| x.1 == "num_players").unwrap();
                    let last = f.iter().rposition(|x| x.1 == "max_clients" || x.1 == "max_players").unwrap();
                    writeln!(w, "hc {} {} {} {}", kind_char(k), to_hex(&flatten(&f[..first])), to_hex(&flatten(&f[last + 1..])), vs.join(",")).unwrap();
                }
            }
        }

        // =========================== merging ===========================
        // small families: every step sequence up to length parts+1 (all permutations, with and
        // without repetition, all prefixes)
        let small = if thorough { 40 } else { 6 };
        for i in 0..small {
            for &ex in &[false, true] {
                let nparts = 1 + (i % 4);
                let total = if ex { nparts + rng.below(6) as usize } else { (nparts + rng.below(20) as usize).min(64) };
                let sizes = if !ex && i % 3 == 0 && nparts == 3 { vec![24, 24, 16] } else { split_sizes(&mut rng, total.max(nparts), nparts, ex) };
                let nos = packet_nos(&mut rng, nparts, 63);
                let parts = family(&mut rng, ex, &sizes, &nos);
                let maxlen = if thorough { nparts + 2 } else { nparts + 1 };
                writeln!(w, "mfh {} {} {}", parts.len(), parts.join(" "), maxlen).unwrap();
                // the complete ascending merge, explicitly (readable sample)
                let steps: Vec<String> = (0..nparts).map(|x| x.to_string()).collect();
                writeln!(w, "mf {} {} {}", parts.len(), parts.join(" "), steps.join(" ")).unwrap();
            }
        }
        // clients that tie in a prefix of the sort key (same name / name+clan / name+clan+country /
        // all but the flags), spread over different parts (for the extended version over different
        // `iex+` packets, the main packet is always moved to the front): every permutation
        // explicitly, then every step sequence up to parts+1 hashed
        for depth in 1..=4usize {
            for &ex in &[false, true] {
                for &nparts in &[3usize, 4] {
                    if !thorough && nparts == 4 && depth % 2 == 0 {
                        continue;
                    }
                    let carriers = if ex { nparts - 1 } else { nparts };
                    let group = tie_group(&mut rng, depth, carriers.min(3), depth);
                    let mut per_part: Vec<Vec<GClient>> = vec![vec![]; nparts];
                    // one filler per part, then the group members one per carrier part
                    let mut uniq = 0usize;
                    for pi in 0..nparts {
                        for _ in 0..rng.below(2) + 1 {
                            per_part[pi].push(gen_client(&mut rng, 500 + uniq, if ex { K::I6Ex } else { K::I664 }));
                            uniq += 1;
                        }
                    }
                    for (gi, c) in group.iter().enumerate() {
                        let pi = if ex { 1 + gi % carriers } else { gi % carriers };
                        let at = rng.below(per_part[pi].len() as u64 + 1) as usize;
                        per_part[pi].insert(at, c.clone());
                    }
                    let sizes: Vec<usize> = per_part.iter().map(|v| v.len()).collect();
                    let clients: Vec<GClient> = per_part.into_iter().flatten().collect();
                    let nos = packet_nos(&mut rng, nparts, 63);
                    let parts = family_of(&mut rng, ex, &sizes, &nos, &clients);
                    let pre = format!("mf {} {}", parts.len(), parts.join(" "));
                    // all permutations (Heap's algorithm)
                    let mut perm: Vec<usize> = (0..nparts).collect();
                    let mut c = vec![0usize; nparts];
                    let emit = |perm: &Vec<usize>, w: &mut dyn Write| {
                        let steps: Vec<String> = perm.iter().map(|x| x.to_string()).collect();
                        writeln!(w, "{} {}", pre, steps.join(" ")).unwrap();
                    };
                    emit(&perm, w);
                    let mut i = 0;
                    while i < nparts {
                        if c[i] < i {
                            if i % 2 == 0 {
                                perm.swap(0, i);
                            } else {
                                perm.swap(c[i], i);
                            }
                            emit(&perm, w);
                            c[i] += 1;
                            i = 0;
                        } else {
                            c[i] = 0;
                            i += 1;
                        }
                    }
                    writeln!(w, "mfh {} {} {}", parts.len(), parts.join(" "), nparts + 1).unwrap();
                }
            }
        }
        // the same tie groups inside one packet of the single-packet kinds
        for depth in 1..=4usize {
            for &k in &[K::I5, K::I6, K::I6Dp, K::I7] {
                let mut clients = tie_group(&mut rng, if k == K::I5 { 3 } else { depth }, 3, depth);
                if k == K::I5 {
                    // only name and score exist
                    for c in clients.iter_mut() {
                        c.clan = vec![];
                        c.country = -1;
                        c.is_player = 0;
                    }
                }
                clients.insert(1, gen_client(&mut rng, 900, k));
                let g = gen_info(&mut rng, k, clients.len() as i32);
                let h = header(k, &mut rng);
                emit_p(w, &h, &flatten(&fields(k, &g, 0, 0, &clients)));
            }
        }
        // large families up to the maximum number of parts: sampled orders and repetition patterns
        let large = if thorough { 60 } else { 8 };
        for i in 0..large {
            for &ex in &[false, true] {
                let nparts = match i % 4 {
                    0 => 64,
                    1 => 5 + rng.below(10) as usize,
                    2 => 3,
                    _ => 16 + rng.below(40) as usize,
                };
                // 64 clients; the legacy version has one slot per client, so at most 64 parts;
                // the extended version has the main packet and packet numbers 1..63
                let total = 64usize;
                let nparts = nparts.min(total);
                let sizes = if !ex && nparts == 3 { vec![24, 24, 16] } else { split_sizes(&mut rng, total, nparts, ex) };
                let nos = packet_nos(&mut rng, nparts, 63);
                let parts = family(&mut rng, ex, &sizes, &nos);
                let pre = format!("mf {} {}", parts.len(), parts.join(" "));
                let samples = if thorough { 12 } else { 5 };
                for s in 0..samples {
                    let mut order: Vec<usize> = (0..nparts).collect();
                    for a in (1..nparts).rev() {
                        let b = rng.below(a as u64 + 1) as usize;
                        order.swap(a, b);
                    }
                    match s % 5 {
                        0 => {}
                        1 => {
                            // drop some parts
                            let keep = rng.below(nparts as u64) as usize;
                            order.truncate(keep.max(1));
                        }
                        2 => {
                            // repeat a few parts at random positions
                            for _ in 0..1 + rng.below(4) {
                                let x = *rng.pick(&order);
                                let at = rng.below(order.len() as u64 + 1) as usize;
                                order.insert(at, x);
                            }
                        }
                        3 => {
                            // everything twice
                            let o2 = order.clone();
                            order.extend(o2);
                        }
                        _ => {
                            // ascending, the order a server sends
                            order.sort();
                        }
                    }
                    let steps: Vec<String> = order.iter().map(|x| x.to_string()).collect();
                    writeln!(w, "{} {}", pre, steps.join(" ")).unwrap();
                }
            }
        }
        // hostile merges: parts of different infos, colliding packet numbers / overlapping
        // offsets, empty parts, corrupted parts, take_info in between
        let hostile = if thorough { 4000 } else { 400 };
        for _ in 0..hostile {
            let nparts = 2 + rng.below(4) as usize;
            let mut parts: Vec<String> = vec![];
            let shared_token = rng.range(0, 99) as i32;
            for _ in 0..nparts {
                let k = *rng.pick(&[K::I664, K::I6Ex, K::I6More, K::I6More]);
                let nc = rng.below(4) as usize;
                let announced = if rng.chance(3, 4) { rng.below(8) as i32 } else { nc as i32 };
                let mut g = gen_info(&mut rng, k, announced);
                g.max_clients = g.max_clients.max(g.num_clients).min(64);
                g.max_players = g.max_players.min(g.max_clients);
                g.num_players = g.num_players.min(g.num_clients);
                if rng.chance(4, 5) {
                    g.token = shared_token;
                }
                let clients: Vec<GClient> = (0..nc).map(|u| gen_client(&mut rng, u, k)).collect();
                let off = *rng.pick(&[0i32, 0, 1, 2, 3, 24, 60, 62, 63]);
                let no = *rng.pick(&[1i32, 1, 2, 3, 63]);
                let mut flat = flatten(&fields(k, &g, off, no, &clients));
                if rng.chance(1, 10) && !flat.is_empty() {
                    let i = rng.below(flat.len() as u64) as usize;
                    flat[i] = rng.next() as u8;
                }
                parts.push(part_tok(k, &flat));
            }
            let nsteps = 1 + rng.below(7) as usize;
            let steps: Vec<String> = (0..nsteps)
                .map(|_| if rng.chance(1, 8) { "t".to_string() } else { rng.below(nparts as u64).to_string() })
                .collect();
            writeln!(w, "m {} {} {}", nparts, parts.join(" "), steps.join(" ")).unwrap();
        }
        // legacy parts of one header with overlapping / nested / adjacent slot ranges: exercises the
        // "already have" and the overlap test of merge
        for _ in 0..(if thorough { 3000 } else { 300 }) {
            let nparts = 2 + rng.below(3) as usize;
            let announced = rng.below(9) as i32;
            let mut g = gen_info(&mut rng, K::I664, announced);
            g.max_clients = g.max_clients.min(64);
            g.max_players = g.max_players.min(g.max_clients);
            let mut parts: Vec<String> = vec![];
            for _ in 0..nparts {
                let nc = rng.below(5) as usize;
                let off = if rng.chance(1, 6) { 60 + rng.below(5) as i32 } else { rng.below(7) as i32 };
                let clients: Vec<GClient> = (0..nc).map(|u| gen_client(&mut rng, off as usize + u, K::I664)).collect();
                parts.push(part_tok(K::I664, &flatten(&fields(K::I664, &g, off, 0, &clients))));
            }
            let nsteps = 2 + rng.below(5) as usize;
            let steps: Vec<String> = (0..nsteps).map(|_| rng.below(nparts as u64).to_string()).collect();
            writeln!(w, "m {} {} {}", nparts, parts.join(" "), steps.join(" ")).unwrap();
        }
        // a lone `iex+` packet without clients (with and without the main packet)
        for no in [1i32, 2, 63] {
            let g = gen_info(&mut rng, K::I6More, 0);
            let more = part_tok(K::I6More, &flatten(&fields(K::I6More, &g, 0, no, &[])));
            let main = part_tok(K::I6Ex, &flatten(&fields(K::I6Ex, &g, 0, 0, &[])));
            writeln!(w, "m 2 {} {} 1", main, more).unwrap();
            writeln!(w, "m 2 {} {} 1 0", main, more).unwrap();
            writeln!(w, "m 2 {} {} 0 1", main, more).unwrap();
        }
    }
}
