//! Domain `net`: `net/src/net.rs` (the multi-peer 0.6 endpoint `Net<A>`), property C20.
//!
//! A session is one real `Net<u32>` (addresses are small integers) plus a clock.  Request grammar
//! and output format: see lean/Tw/Drv/Net.lean.  The correspondence output is observable
//! behaviour only: return value, datagrams handed to `Callback::send` with their destination,
//! the drained `ReceivePacket`, warnings, `needs_tick`.
//!
//! Property oracle (independent of the Lean model): next to the endpoint the runner keeps, per
//! remote address, a real reference `Connection` that is driven by the projected sub-history
//! (datagrams from that address, API calls on that address's peer id, ticks) and demands that the
//! endpoint's events / datagrams (byte for byte, and their destination) / deadline are exactly the
//! reference's; that an unknown address gets a peer only by a connect request on an accepting
//! endpoint and otherwise one warning and nothing else; that a peer pending acceptance is not
//! answered before the application accepts it; that live peer ids are distinct; that a peer is
//! gone after either side disconnected.
//!
//! The datagram canonicalisation (`parse_with`, `parse_sent`, chunk/packet text) duplicates the
//! one of domain `conn6` on purpose (that file belongs to the conn builder); both must print what
//! `Tw.Drv.Conn6.packetStr` prints.
use crate::util::*;
use libtw2_net::connection as cx;
use libtw2_net::net as nx;
use libtw2_net::protocol as px;
use libtw2_net::Connection;
use libtw2_net::Net;
use libtw2_net::Timestamp;
use std::collections::BTreeMap;
use std::collections::VecDeque;

// --------------------------------------------------------------------------------------------
// canonical text

fn tok_str(t: &[u8; 4]) -> String {
    format!("{:02x}{:02x}{:02x}{:02x}", t[0], t[1], t[2], t[3])
}

fn parse_tok(s: &str) -> Option<[u8; 4]> {
    if s.len() != 8 {
        return None;
    }
    let v = parse_hex(s)?;
    Some([v[0], v[1], v[2], v[3]])
}

fn opt_tok_str(t: &Option<px::Token>) -> String {
    match t {
        None => "-".to_string(),
        Some(t) => tok_str(&t.0),
    }
}

fn chunk_str(vital: Option<(u16, bool)>, data: &[u8]) -> String {
    match vital {
        None => format!("n.{}", to_hex(data)),
        Some((s, false)) => format!("v{}.{}", s, to_hex(data)),
        Some((s, true)) => format!("r{}.{}", s, to_hex(data)),
    }
}

struct Parsed {
    text: String,
    clean: bool,
    err: bool,
    connless: bool,
    /// a connect request: does it carry a token?
    connect: Option<bool>,
}

fn parse_with(bytes: &[u8], hint: Option<bool>) -> Parsed {
    let mut ws: Vec<px::Warning> = vec![];
    let mut buf = [0u8; 4096];
    let mut p = Parsed { text: "err".to_string(), clean: false, err: true, connless: false, connect: None };
    match px::Packet::read(&mut ws, bytes, hint, &mut buf[..]) {
        Err(_) => {}
        Ok(px::Packet::Connless(d)) => {
            p.err = false;
            p.connless = true;
            p.text = format!("cl:{}", to_hex(d));
        }
        Ok(px::Packet::Connected(c)) => {
            p.err = false;
            match c.type_ {
                px::ConnectedPacketType::Control(ctl) => {
                    let k = match ctl {
                        px::ControlPacket::KeepAlive => "ka".to_string(),
                        px::ControlPacket::Connect => {
                            p.connect = Some(c.token.is_some());
                            "co".to_string()
                        }
                        px::ControlPacket::ConnectAccept => "ca".to_string(),
                        px::ControlPacket::Accept => "ac".to_string(),
                        px::ControlPacket::Close(r) => format!("cx.{}", to_hex(r)),
                    };
                    p.text = format!("ct:{}:{}:{}", c.ack, opt_tok_str(&c.token), k);
                }
                px::ConnectedPacketType::Chunks(rr, n, payload) => {
                    let mut it = px::ChunksIter::new(payload, n);
                    let mut cs: Vec<String> = vec![];
                    while let Some(ch) = it.next_warn(&mut ws) {
                        cs.push(chunk_str(ch.vital, ch.data));
                    }
                    let cs = if cs.is_empty() { "-".to_string() } else { cs.join("/") };
                    p.text = format!("ch:{}:{}:{}:{}:{}", c.ack, opt_tok_str(&c.token), if rr { 1 } else { 0 }, n, cs);
                }
            }
        }
    }
    p.clean = !p.err && ws.is_empty();
    p
}

const HINTS: [Option<bool>; 3] = [None, Some(false), Some(true)];

/// Canonical form of a datagram the library sent: token-less if that parses cleanly, else with
/// token (a datagram written with a token never parses cleanly as token-less).
fn parse_sent(bytes: &[u8]) -> Parsed {
    let a = parse_with(bytes, Some(false));
    if a.clean {
        return a;
    }
    let b = parse_with(bytes, Some(true));
    if b.clean {
        return b;
    }
    let c = parse_with(bytes, None);
    if !c.err {
        c
    } else if !b.err {
        b
    } else {
        a
    }
}

/// text of the parses of a datagram under every hint, with `=` compression
fn parses(bytes: &[u8]) -> String {
    let mut out: Vec<String> = vec![];
    let mut prev = String::new();
    for k in 0..3 {
        let t = parse_with(bytes, HINTS[k]).text;
        if k > 0 && t == prev {
            out.push("=".to_string());
        } else {
            out.push(t.clone());
        }
        prev = t;
    }
    out.join(" ")
}

fn warn_name(w: &cx::Warning) -> Option<&'static str> {
    match w {
        cx::Warning::Packet(_) => None,
        cx::Warning::Read(_) => Some("read"),
        cx::Warning::TokenMismatch => Some("tokmis"),
        cx::Warning::Unexpected => Some("unexpected"),
    }
}

/// trailing `k=<n>`: the application pulls only `n` items of the returned iterator
fn parse_pull(args: &[&str]) -> Option<usize> {
    args.iter().find_map(|a| a.strip_prefix("k=")).and_then(|n| n.parse().ok())
}

fn parse_draws(args: &[&str]) -> VecDeque<[u8; 4]> {
    for a in args {
        if let Some(r) = a.strip_prefix("r=") {
            return r.split(',').filter_map(parse_tok).collect();
        }
    }
    VecDeque::new()
}

// --------------------------------------------------------------------------------------------
// callbacks

/// The error of the harness callbacks: an armed send fault fired (`Callback::send` returned `Err`,
/// the datagram counts as not sent).
#[derive(Clone, Copy, Debug, PartialEq, Eq)]
pub struct SendFail;

/// Armed send faults of one destination: count-downs, `k` = the k-th next `send` fails.
type Arm = Vec<u32>;

/// one more `send` attempt: does an armed fault fire?
fn fault_hit(f: &mut Arm) -> bool {
    let mut hit = false;
    for k in f.iter_mut() {
        *k = k.saturating_sub(1);
        if *k == 0 {
            hit = true;
        }
    }
    f.retain(|k| *k > 0);
    hit
}

struct NCb {
    now: u64,
    draws: VecDeque<[u8; 4]>,
    sent: Vec<(u32, Vec<u8>)>,
    /// armed send faults per destination address
    faults: BTreeMap<u32, Arm>,
    /// datagrams whose `send` failed
    failed: Vec<(u32, Vec<u8>)>,
}

impl nx::Callback<u32> for NCb {
    type Error = SendFail;
    fn secure_random(&mut self, buffer: &mut [u8]) {
        if buffer.len() != 4 {
            panic!("secure_random: unexpected length");
        }
        let d = self.draws.pop_front().expect("secure_random: no draw supplied");
        buffer.copy_from_slice(&d);
    }
    fn send(&mut self, addr: u32, data: &[u8]) -> Result<(), SendFail> {
        if let Some(f) = self.faults.get_mut(&addr) {
            let hit = fault_hit(f);
            if f.is_empty() {
                self.faults.remove(&addr);
            }
            if hit {
                self.failed.push((addr, data.to_vec()));
                return Err(SendFail);
            }
        }
        self.sent.push((addr, data.to_vec()));
        Ok(())
    }
    fn time(&mut self) -> Timestamp {
        Timestamp::from_usecs_since_epoch(self.now)
    }
}

struct CCb {
    now: u64,
    draws: VecDeque<[u8; 4]>,
    sent: Vec<Vec<u8>>,
    faults: Arm,
    failed: Vec<Vec<u8>>,
}

impl CCb {
    fn new(now: u64, draws: VecDeque<[u8; 4]>) -> CCb {
        CCb { now, draws, sent: vec![], faults: vec![], failed: vec![] }
    }
}

impl cx::Callback for CCb {
    type Error = SendFail;
    fn secure_random(&mut self, buffer: &mut [u8]) {
        if buffer.len() != 4 {
            panic!("secure_random: unexpected length");
        }
        let d = self.draws.pop_front().expect("secure_random: no draw supplied");
        buffer.copy_from_slice(&d);
    }
    fn send(&mut self, data: &[u8]) -> Result<(), SendFail> {
        if fault_hit(&mut self.faults) {
            self.failed.push(data.to_vec());
            return Err(SendFail);
        }
        self.sent.push(data.to_vec());
        Ok(())
    }
    fn time(&mut self) -> Timestamp {
        Timestamp::from_usecs_since_epoch(self.now)
    }
}

// --------------------------------------------------------------------------------------------
// requests

#[derive(Clone)]
enum Op {
    Feed(u32, Vec<u8>),
    Connect(u32),
    Accept(u32),
    Reject(u32, Vec<u8>),
    Disconnect(u32, Vec<u8>),
    Ignore(u32),
    Send(u32, bool, Vec<u8>),
    Flush(u32),
    SendCl(u32, Vec<u8>),
    Tick,
    NeedsTick,
}

enum Parse {
    Op(Op),
    Bad,
    BadFeedLine,
}

fn parse_op(toks: &[&str]) -> Parse {
    let num = |s: &str| s.parse::<u32>().ok();
    let op = match toks {
        ["feed", a, h, rest @ ..] if rest.len() >= 3 => {
            let (a, bytes) = match (num(a), parse_hex(h)) {
                (Some(a), Some(b)) => (a, b),
                _ => return Parse::Bad,
            };
            // integrity of the request line: the claimed parses are what the library's reader
            // says about these bytes
            let mut prev = String::new();
            for k in 0..3 {
                let claimed = if rest[k] == "=" && k > 0 { prev.clone() } else { rest[k].to_string() };
                if claimed != parse_with(&bytes, HINTS[k]).text {
                    return Parse::BadFeedLine;
                }
                prev = claimed;
            }
            Some(Op::Feed(a, bytes))
        }
        ["connect", a] => num(a).map(Op::Connect),
        ["accept", pid, ..] => num(pid).map(Op::Accept),
        ["reject", pid, h] => num(pid).and_then(|p| parse_hex(h).map(|r| Op::Reject(p, r))),
        ["disconnect", pid, h] => num(pid).and_then(|p| parse_hex(h).map(|r| Op::Disconnect(p, r))),
        ["ignore", pid] => num(pid).map(Op::Ignore),
        ["send", pid, k, h] => num(pid).and_then(|p| parse_hex(h).map(|d| Op::Send(p, *k == "v", d))),
        ["flush", pid] => num(pid).map(Op::Flush),
        ["sendcl", a, h] => num(a).and_then(|a| parse_hex(h).map(|d| Op::SendCl(a, d))),
        ["tick"] | ["tick", _] => Some(Op::Tick),
        ["needs_tick"] => Some(Op::NeedsTick),
        _ => None,
    };
    match op {
        Some(op) => Parse::Op(op),
        None => Parse::Bad,
    }
}

/// what one call handed to the outside
#[derive(Default)]
struct Obs {
    /// `Err` = the call panicked
    ret: Option<Result<String, String>>,
    sent: Vec<(u32, Vec<u8>)>,
    events: Vec<String>,
    warns: Vec<String>,
    /// datagrams whose `Callback::send` returned `Err` (armed fault), in order
    failed: Vec<(u32, Vec<u8>)>,
    /// number of `Err(callback error)` results the call handed back (`tick`: one per yielded item)
    errs: u32,
}

fn event_str(e: &nx::ChunkOrEvent<u32>) -> String {
    match *e {
        nx::ChunkOrEvent::Chunk(nx::Chunk { pid, vital, data }) => format!("ch.{}.{}.{}", pid.0, if vital { "v" } else { "n" }, to_hex(data)),
        nx::ChunkOrEvent::Connless(nx::ConnlessChunk { addr, pid, data }) => {
            format!("cl.{}.{}.{}", addr, pid.map(|p| p.0.to_string()).unwrap_or("-".to_string()), to_hex(data))
        }
        nx::ChunkOrEvent::Connect(pid) => format!("con.{}", pid.0),
        nx::ChunkOrEvent::Ready(pid) => format!("rdy.{}", pid.0),
        nx::ChunkOrEvent::Disconnect(pid, r) => format!("dc.{}.{}", pid.0, to_hex(r)),
    }
}

fn nwarn_str(w: &nx::Warning<u32>) -> Option<String> {
    match w {
        nx::Warning::Peer(a, pid, w) => warn_name(w).map(|n| format!("p.{}.{}.{}", a, pid.0, n)),
        nx::Warning::Connless(a, w) => warn_name(w).map(|n| format!("c.{}.{}", a, n)),
    }
}

/// return value of `send` / `send_connless`; a callback error is counted in `errs`, the text stays
/// `ok` (the chunk was accepted)
fn send_res<E>(r: Result<(), nx::Error<E>>, errs: &mut u32) -> String {
    match r {
        Ok(()) => "ok".to_string(),
        Err(nx::Error::TooLongData) => "toolong".to_string(),
        Err(nx::Error::Callback(_)) => {
            *errs += 1;
            "ok".to_string()
        }
    }
}

/// the call on the real endpoint
fn run_net(net: &mut Net<u32>, op: &Op, now: u64, draws: VecDeque<[u8; 4]>, pull: Option<usize>, faults: &mut BTreeMap<u32, Arm>) -> Obs {
    let mut cb = NCb { now, draws, sent: vec![], faults: std::mem::take(faults), failed: vec![] };
    let mut ws: Vec<nx::Warning<u32>> = vec![];
    let mut events: Vec<String> = vec![];
    let mut errs = 0u32;
    let r = catch(|| match op {
        Op::Feed(a, bytes) => {
            let mut buf = [0u8; 4096];
            let (it, res) = net.feed(&mut cb, &mut ws, *a, bytes, &mut buf[..]);
            errs += res.is_err() as u32;
            // the iterator is dropped after `pull` items (None: drained)
            for e in it.take(pull.unwrap_or(usize::MAX)) {
                events.push(event_str(&e));
            }
            "ok".to_string()
        }
        Op::Connect(a) => {
            let (pid, res) = net.connect(&mut cb, *a);
            errs += res.is_err() as u32;
            format!("pid.{}", pid.0)
        }
        Op::Accept(pid) => {
            errs += net.accept(&mut cb, nx::PeerId(*pid)).is_err() as u32;
            "ok".to_string()
        }
        Op::Reject(pid, r) => {
            errs += net.reject(&mut cb, nx::PeerId(*pid), r).is_err() as u32;
            "ok".to_string()
        }
        Op::Disconnect(pid, r) => {
            errs += net.disconnect(&mut cb, nx::PeerId(*pid), r).is_err() as u32;
            "ok".to_string()
        }
        Op::Ignore(pid) => {
            net.ignore(nx::PeerId(*pid));
            "ok".to_string()
        }
        Op::Send(pid, vital, d) => send_res(net.send(&mut cb, nx::Chunk { pid: nx::PeerId(*pid), vital: *vital, data: d }), &mut errs),
        Op::Flush(pid) => {
            errs += net.flush(&mut cb, nx::PeerId(*pid)).is_err() as u32;
            "ok".to_string()
        }
        Op::SendCl(a, d) => send_res(net.send_connless(&mut cb, *a, d), &mut errs),
        Op::Tick => {
            let mut t = net.tick(&mut cb);
            match pull {
                None => {
                    // drained: the iterator yields one item per peer whose tick reported an error
                    for SendFail in t {
                        errs += 1;
                    }
                }
                // polled `k` times, then dropped
                Some(k) => {
                    for _ in 0..k {
                        if let Some(SendFail) = t.next() {
                            errs += 1;
                        }
                    }
                }
            }
            "ok".to_string()
        }
        Op::NeedsTick => "ok".to_string(),
    });
    *faults = std::mem::take(&mut cb.faults);
    Obs { ret: Some(r), sent: cb.sent, events, warns: ws.iter().filter_map(nwarn_str).collect(), failed: cb.failed, errs }
}

// --------------------------------------------------------------------------------------------
// the reference: one independent `Connection` per address

struct RefPeer {
    pid: u32,
    conn: Connection,
    /// created by a connect request, the application has not yet accepted or rejected
    pending: bool,
    /// the connect request carried a token
    token: bool,
}

impl RefPeer {
    fn kind(&self) -> String {
        self.conn.verif_fingerprint().chars().take_while(|c| c.is_ascii_alphanumeric()).collect()
    }
}

/// what the reference predicts for a call
#[derive(Default)]
struct Pred {
    /// the reference connection itself panics on this call (e.g. `send` while not online)
    panic: bool,
    ret: String,
    sent: BTreeMap<u32, Vec<Vec<u8>>>,
    events: Vec<String>,
    warns: Vec<String>,
    /// a fresh peer is expected: its address, pending?, token flag, its (already driven) connection
    fresh: Option<(u32, bool, bool, Connection)>,
    /// peers that must be gone afterwards (address, pid)
    gone: Vec<(u32, u32)>,
    /// the datagram came from a peer that is pending acceptance: only "nothing is sent" is claimed
    pending_feed: Option<u32>,
    tag: &'static str,
    /// datagrams whose `send` fails (the reference's callback has the same armed faults)
    failed: BTreeMap<u32, Vec<Vec<u8>>>,
    /// number of callback errors the call reports
    errs: u32,
}

/// move what the reference's callback recorded for address `a` into the prediction
fn collect(p: &mut Pred, a: u32, cb: &mut CCb) {
    p.sent.insert(a, std::mem::take(&mut cb.sent));
    let f = std::mem::take(&mut cb.failed);
    if !f.is_empty() {
        p.failed.insert(a, f);
    }
}

/// the connect request a client sends, produced by a real client connection
fn client_connect(token: bool) -> Vec<u8> {
    let mut cb = CCb::new(0, VecDeque::new());
    let mut c = Connection::new();
    let _ = c.connect(&mut cb);
    let mut d = cb.sent.pop().unwrap_or_default();
    if !token && d.len() >= 8 {
        // the DDNet token extension is the trailing `TKEN` + 4 bytes
        d.truncate(d.len() - 8);
    }
    d
}

fn ref_event_str(addr: u32, pid: u32, c: &cx::ReceiveChunk) -> String {
    match *c {
        cx::ReceiveChunk::Connless(d) => format!("cl.{}.{}.{}", addr, pid, to_hex(d)),
        cx::ReceiveChunk::Connected(d, vital) => format!("ch.{}.{}.{}", pid, if vital { "v" } else { "n" }, to_hex(d)),
        cx::ReceiveChunk::Ready => format!("rdy.{}", pid),
        cx::ReceiveChunk::Disconnect(r) => format!("dc.{}.{}", pid, to_hex(r)),
    }
}

pub struct World {
    net: Net<u32>,
    accepting: bool,
    now: u64,
    dead: bool,
    refs: BTreeMap<u32, RefPeer>,
    /// the oracle applies: no address has had two live peers at once, no unexplained divergence yet
    checks: bool,
    /// armed send faults per destination address (`fail <addr> <k>`)
    faults: BTreeMap<u32, Arm>,
    // for the generator
    last: Obs,
}

impl World {
    pub fn new() -> World {
        World { net: Net::server(), accepting: true, now: 0, dead: false, refs: BTreeMap::new(), checks: true, faults: BTreeMap::new(), last: Obs::default() }
    }

    fn addr_of(&self, pid: u32) -> Option<u32> {
        self.refs.iter().find(|(_, r)| r.pid == pid).map(|(a, _)| *a)
    }

    /// Drive the reference connections by the projection of this call; `None` = the call is
    /// outside the API's preconditions as far as the endpoint itself is concerned (unknown peer
    /// id, accept/reject of a peer that is not pending, …): no claim.
    fn predict(&mut self, op: &Op, draws: &VecDeque<[u8; 4]>, pull: Option<usize>) -> Option<Pred> {
        if let (Op::Tick, Some(0)) = (op, pull) {
            // a `Tick` that is never polled: nothing happens at all
            return Some(Pred { ret: "ok".to_string(), tag: "C20/lazy-result", ..Default::default() });
        }
        if let (Op::Tick, Some(_)) = (op, pull) {
            if !self.faults.is_empty() {
                // a partly polled `Tick` stops at the first peer whose send failed: not claimed
                self.checks = false;
                return None;
            }
        }
        let mut p = self.predict_drained(op, draws)?;
        if let (Op::Feed(..), Some(k)) = (op, pull) {
            // a `ReceivePacket` dropped after `k` items: the application sees a prefix, the
            // endpoint has done everything all the same
            p.events.truncate(k);
        }
        Some(p)
    }

    fn predict_drained(&mut self, op: &Op, draws: &VecDeque<[u8; 4]>) -> Option<Pred> {
        let now = self.now;
        let mut p = Pred { ret: "ok".to_string(), tag: "C20/isolation", ..Default::default() };
        let mut cb = CCb::new(now, draws.clone());
        // the reference connection of address `a` sees the send faults armed for `a`
        let arm = |faults: &BTreeMap<u32, Arm>, a: u32| faults.get(&a).cloned().unwrap_or_default();
        match op {
            Op::Feed(a, bytes) => {
                let a = *a;
                cb.faults = arm(&self.faults, a);
                match self.refs.get_mut(&a) {
                    Some(r) if r.pending => {
                        // Not yet accepted: the application has not consented to anything, so the
                        // datagram is handled like one from an unknown address (connless payloads
                        // are delivered, everything else is a warning) except that a repeated
                        // connect request is dropped; nothing is sent, the peer stays as it is.
                        p.pending_feed = Some(r.pid);
                        p.tag = "C20/pending-peer-datagram";
                        let q = parse_with(bytes, None);
                        if q.err {
                            p.warns.push(format!("c.{}.read", a));
                        } else if q.connless {
                            p.events.push(format!("cl.{}.-.{}", a, &q.text[3..]));
                        } else if q.connect.is_none() {
                            p.warns.push(format!("c.{}.unexpected", a));
                        }
                    }
                    Some(r) => {
                        let pid = r.pid;
                        let mut buf = [0u8; 4096];
                        let mut ws: Vec<cx::Warning> = vec![];
                        let mut evs: Vec<String> = vec![];
                        let mut disc = false;
                        let mut err = false;
                        let res = catch(|| {
                            let (it, res) = r.conn.feed(&mut cb, &mut ws, bytes, &mut buf[..]);
                            err = res.is_err();
                            for c in it {
                                if let cx::ReceiveChunk::Disconnect(_) = c {
                                    disc = true;
                                }
                                evs.push(ref_event_str(a, pid, &c));
                            }
                        });
                        p.panic = res.is_err();
                        p.errs += err as u32;
                        p.events = evs;
                        p.warns = ws.iter().filter_map(warn_name).map(|n| format!("p.{}.{}.{}", a, pid, n)).collect();
                        collect(&mut p, a, &mut cb);
                        if disc {
                            self.refs.remove(&a);
                            p.gone.push((a, pid));
                        }
                    }
                    None => {
                        p.tag = "C20/unknown-address";
                        let q = parse_with(bytes, None);
                        if q.err {
                            p.warns.push(format!("c.{}.read", a));
                        } else if q.connless {
                            p.events.push(format!("cl.{}.-.{}", a, &q.text[3..]));
                        } else if let (Some(tok), true) = (q.connect, self.accepting) {
                            p.events.push("con.?".to_string());
                            p.fresh = Some((a, true, tok, Connection::new()));
                        } else {
                            p.warns.push(format!("c.{}.unexpected", a));
                        }
                    }
                }
            }
            Op::Connect(a) => {
                if self.refs.contains_key(a) {
                    // the hypothesis of the property (one live peer per address) ends here
                    self.checks = false;
                    return None;
                }
                cb.faults = arm(&self.faults, *a);
                let mut c = Connection::new();
                match catch(|| c.connect(&mut cb).is_err()) {
                    Ok(e) => p.errs += e as u32,
                    Err(_) => p.panic = true,
                }
                p.ret = "pid.?".to_string();
                collect(&mut p, *a, &mut cb);
                p.fresh = Some((*a, false, false, c));
            }
            Op::Accept(pid) => {
                let a = self.addr_of(*pid)?;
                cb.faults = arm(&self.faults, a);
                let r = self.refs.get_mut(&a).unwrap();
                if !r.pending {
                    return None;
                }
                let dg = client_connect(r.token);
                let mut buf = [0u8; 4096];
                let mut ws: Vec<cx::Warning> = vec![];
                let mut evs = 0;
                let mut err = false;
                p.panic = catch(|| {
                    let (it, res) = r.conn.feed(&mut cb, &mut ws, &dg, &mut buf[..]);
                    err = res.is_err();
                    evs = it.count();
                })
                .is_err();
                p.errs += err as u32;
                if evs != 0 || ws.iter().any(|w| warn_name(w).is_some()) {
                    // the reference does not digest its own client's connect request
                    p.panic = true;
                }
                r.pending = false;
                collect(&mut p, a, &mut cb);
            }
            Op::Reject(pid, reason) | Op::Disconnect(pid, reason) => {
                let a = self.addr_of(*pid)?;
                cb.faults = arm(&self.faults, a);
                let r = self.refs.get_mut(&a).unwrap();
                if r.pending != matches!(op, Op::Reject(..)) {
                    return None;
                }
                match catch(|| r.conn.disconnect(&mut cb, reason).is_err()) {
                    Ok(e) => p.errs += e as u32,
                    Err(_) => p.panic = true,
                }
                collect(&mut p, a, &mut cb);
                // whatever the callback answered: the application has ended this peer
                self.refs.remove(&a);
                p.gone.push((a, *pid));
            }
            Op::Ignore(pid) => {
                let a = self.addr_of(*pid)?;
                self.refs.remove(&a);
                p.gone.push((a, *pid));
            }
            Op::Send(pid, vital, d) => {
                let a = self.addr_of(*pid)?;
                cb.faults = arm(&self.faults, a);
                let r = self.refs.get_mut(&a).unwrap();
                match catch(|| r.conn.send(&mut cb, d, *vital)) {
                    Err(_) => p.panic = true,
                    Ok(Ok(())) => {}
                    Ok(Err(cx::Error::TooLongData)) => p.ret = "toolong".to_string(),
                    Ok(Err(cx::Error::Callback(SendFail))) => p.errs += 1,
                }
                collect(&mut p, a, &mut cb);
            }
            Op::Flush(pid) => {
                let a = self.addr_of(*pid)?;
                cb.faults = arm(&self.faults, a);
                let r = self.refs.get_mut(&a).unwrap();
                match catch(|| r.conn.flush(&mut cb).is_err()) {
                    Ok(e) => p.errs += e as u32,
                    Err(_) => p.panic = true,
                }
                collect(&mut p, a, &mut cb);
            }
            Op::SendCl(a, d) => {
                p.tag = "C20/send-connless";
                let mut buf = [0u8; 2048];
                match px::Packet::Connless(d).write(&mut buf[..]) {
                    Ok(b) => {
                        let mut f = arm(&self.faults, *a);
                        if fault_hit(&mut f) {
                            p.failed.insert(*a, vec![b.to_vec()]);
                            p.errs += 1;
                        } else {
                            p.sent.insert(*a, vec![b.to_vec()]);
                        }
                    }
                    Err(_) => p.ret = "toolong".to_string(),
                }
            }
            Op::Tick => {
                for (a, r) in self.refs.iter_mut() {
                    cb.faults = arm(&self.faults, *a);
                    match catch(|| r.conn.tick(&mut cb).is_err()) {
                        Ok(e) => p.errs += e as u32,
                        Err(_) => p.panic = true,
                    }
                    collect(&mut p, *a, &mut cb);
                }
            }
            Op::NeedsTick => {}
        }
        Some(p)
    }

    fn needs_tick_us(&self) -> Option<u64> {
        self.net.needs_tick().to_opt().map(|t| t.as_usecs_since_epoch())
    }

    fn compare(&mut self, op_txt: &str, obs: &Obs, p: Pred, o: &mut Oracle) {
        let fail = |o: &mut Oracle, tag: &str, msg: String| o.fail(tag, format!("{}: {}", op_txt, msg));
        let panicked = matches!(obs.ret, Some(Err(_)));
        if panicked {
            if !p.panic {
                let m = match &obs.ret {
                    Some(Err(m)) => m.clone(),
                    _ => String::new(),
                };
                fail(o, "C20/panic", format!("the endpoint panicked ({}) where the per-address reference connection does not", m));
            }
            return;
        }
        if p.panic {
            fail(o, p.tag, "the reference connection panics on this call, the endpoint does not".to_string());
            self.checks = false;
            return;
        }
        // datagrams: grouped by destination, order kept
        let mut got: BTreeMap<u32, Vec<Vec<u8>>> = BTreeMap::new();
        for (a, d) in &obs.sent {
            got.entry(*a).or_default().push(d.clone());
        }
        let want: BTreeMap<u32, Vec<Vec<u8>>> = p.sent.into_iter().filter(|(_, v)| !v.is_empty()).collect();
        if let Some(pid) = p.pending_feed {
            if !got.is_empty() {
                fail(o, "C20/pending-peer-answered", format!("peer {} is pending acceptance, yet a datagram from its address was answered: {}", pid, sent_txt(&obs.sent)));
            }
            if obs.events.iter().any(|e| e.starts_with("con.")) {
                fail(o, "C20/second-peer-for-address", format!("events {:?}", obs.events));
            }
            if !got.is_empty() || obs.events.iter().any(|e| e.starts_with("con.")) {
                self.checks = false;
                return;
            }
            // fall through: events, warnings, liveness and deadline are compared as for any call
        }
        if got != want {
            for a in got.keys() {
                if !want.contains_key(a) {
                    fail(o, "C20/wrong-destination", format!("datagram(s) sent to address {} which this call does not concern: {}", a, sent_txt(&obs.sent)));
                    self.checks = false;
                    return;
                }
            }
            fail(o, p.tag, format!("datagrams differ from the reference connection's: endpoint {} / reference {}", sent_txt(&obs.sent), sent_txt(&want.iter().flat_map(|(a, v)| v.iter().map(move |d| (*a, d.clone()))).collect::<Vec<_>>())));
            self.checks = false;
            return;
        }
        // datagrams whose send failed: the same attempts, at the same points, as the reference's
        let mut got_failed: BTreeMap<u32, Vec<Vec<u8>>> = BTreeMap::new();
        for (a, d) in &obs.failed {
            got_failed.entry(*a).or_default().push(d.clone());
        }
        if got_failed != p.failed {
            let flat = |m: &BTreeMap<u32, Vec<Vec<u8>>>| m.iter().flat_map(|(a, v)| v.iter().map(move |d| (*a, d.clone()))).collect::<Vec<_>>();
            fail(o, "C20/send-fault-isolation", format!("datagrams whose send failed: endpoint {} / reference connection {}", sent_txt(&obs.failed), sent_txt(&flat(&p.failed))));
            self.checks = false;
            return;
        }
        // every failure of the callback is handed back to the caller, and nothing else is
        if obs.errs != p.errs || (obs.errs > 0) != !obs.failed.is_empty() {
            fail(o, "C20/send-error-report", format!("the call reported {} callback error(s), the reference {} ({} send(s) failed)", obs.errs, p.errs, obs.failed.len()));
            self.checks = false;
            return;
        }
        // return value, events, warnings (a fresh peer's id is the endpoint's choice)
        let mut fresh_pid: Option<u32> = None;
        let ret = obs.ret.as_ref().and_then(|r| r.as_ref().ok()).cloned().unwrap_or_default();
        let ret_ok = if p.ret == "pid.?" {
            fresh_pid = ret.strip_prefix("pid.").and_then(|s| s.parse().ok());
            fresh_pid.is_some()
        } else {
            ret == p.ret
        };
        let mut ev_ok = obs.events.len() == p.events.len();
        if ev_ok {
            for (g, w) in obs.events.iter().zip(p.events.iter()) {
                if w == "con.?" {
                    fresh_pid = g.strip_prefix("con.").and_then(|s| s.parse().ok());
                    ev_ok &= fresh_pid.is_some();
                } else {
                    ev_ok &= g == w;
                }
            }
        }
        if !ret_ok || !ev_ok || obs.warns != p.warns {
            fail(o, p.tag, format!("endpoint: {} e={:?} w={:?} / reference: {} e={:?} w={:?}", ret, obs.events, obs.warns, p.ret, p.events, p.warns));
            self.checks = false;
            return;
        }
        if let Some((a, pending, token, conn)) = p.fresh {
            let pid = match fresh_pid {
                Some(pid) => pid,
                None => {
                    // the `Connect(pid)` event was not pulled: nobody knows the new peer's id
                    self.checks = false;
                    return;
                }
            };
            if self.refs.values().any(|r| r.pid == pid) {
                fail(o, "C20/pid-reuse", format!("fresh peer got id {} which a live peer holds", pid));
                self.checks = false;
                return;
            }
            self.refs.insert(a, RefPeer { pid, conn, pending, token });
        }
        for (a, pid) in p.gone {
            self.check_gone(op_txt, a, pid, o);
        }
        // liveness of every peer the reference knows, and the deadline
        for r in self.refs.values() {
            let mut c = nx::ChunkOrEvent::Chunk(nx::Chunk { pid: nx::PeerId(r.pid), vital: false, data: b"" });
            if !self.net.is_receive_chunk_still_valid(&mut c) {
                o.fail("C20/peer-lost", format!("{}: peer {} should be live", op_txt, r.pid));
                self.checks = false;
            }
        }
        let want_nt = self.refs.values().filter_map(|r| r.conn.needs_tick().to_opt().map(|t| t.as_usecs_since_epoch())).min();
        if self.needs_tick_us() != want_nt {
            o.fail("C20/needs-tick", format!("{}: Net::needs_tick = {:?}, minimum over the reference connections = {:?}", op_txt, self.needs_tick_us(), want_nt));
            self.checks = false;
        }
    }

    fn check_gone(&mut self, op_txt: &str, a: u32, pid: u32, o: &mut Oracle) {
        let mut c = nx::ChunkOrEvent::Chunk(nx::Chunk { pid: nx::PeerId(pid), vital: false, data: b"" });
        if self.net.is_receive_chunk_still_valid(&mut c) {
            o.fail("C20/peer-not-gone", format!("{}: peer {} (address {}) is still present after it was disconnected", op_txt, pid, a));
            self.checks = false;
        }
    }

    /// `f:<op> …`: the op is executed and checked by the oracle like any other, but the line is not
    /// compared with the model (both sides print `skip`)
    pub fn exec(&mut self, toks: &[&str], o: &mut Oracle) -> String {
        if let Some(op) = toks.first().and_then(|t| t.strip_prefix("f:")) {
            let mut v: Vec<&str> = toks.to_vec();
            v[0] = op;
            if op != "new" {
                o.count("ops_not_compared_with_model");
                let _ = self.exec_op(&v, o);
            }
            return "skip".to_string();
        }
        self.exec_op(toks, o)
    }

    fn exec_op(&mut self, toks: &[&str], o: &mut Oracle) -> String {
        match toks {
            ["fail", a, k] => {
                // arm a send fault: the k-th next `Callback::send` to address `a` returns `Err`
                return match (a.parse::<u32>(), k.parse::<u32>()) {
                    (Ok(a), Ok(k)) if k >= 1 && k <= 1000 => {
                        self.faults.entry(a).or_default().push(k);
                        o.count("send_faults_armed");
                        "ok".to_string()
                    }
                    _ => "bad-op".to_string(),
                };
            }
            ["new", k] => {
                let accepting = *k == "s";
                *self = World::new();
                self.accepting = accepting;
                self.net = if accepting { Net::server() } else { Net::client() };
                return "ok".to_string();
            }
            ["time", ms] => {
                return match ms.parse::<u64>() {
                    Ok(ms) => {
                        self.now += ms * 1000;
                        "ok".to_string()
                    }
                    Err(_) => "bad-op".to_string(),
                };
            }
            ["dup"] => {
                self.checks = false;
                return "ok".to_string();
            }
            ["nextid", n] => {
                // verification hook (only when the repository under test provides it, see build.rs)
                return match n.parse::<u32>() {
                    Ok(n) => set_next_peer_id(&mut self.net, n),
                    Err(_) => "bad-op".to_string(),
                };
            }
            _ => {}
        }
        if self.dead {
            return "dead".to_string();
        }
        let op = match parse_op(toks) {
            Parse::Op(op) => op,
            Parse::Bad => return "bad-op".to_string(),
            Parse::BadFeedLine => return "bad-feed-line".to_string(),
        };
        let draws = parse_draws(toks);
        let pull = parse_pull(toks);
        let pred = if self.checks { self.predict(&op, &draws, pull) } else { None };
        let had_claim = pred.is_some();
        let obs = run_net(&mut self.net, &op, self.now, draws, pull, &mut self.faults);
        if pull.is_some() {
            o.count("partly_consumed_results");
        }
        o.count(&format!("op_{}", toks[0]));
        if let Some(p) = pred {
            o.count("oracle_compared");
            let txt: String = toks.iter().take(3).map(|t| if t.len() > 40 { &t[..40] } else { t }).collect::<Vec<_>>().join(" ");
            self.compare(&txt, &obs, p, o);
        } else if self.checks && !had_claim && !matches!(obs.ret, Some(Err(_))) && !matches!(op, Op::Connect(_)) {
            // a call outside the preconditions that did not panic: the reference cannot follow
            self.checks = false;
        }
        let line = match &obs.ret {
            Some(Err(_)) => {
                self.dead = true;
                o.count("panics");
                "panic".to_string()
            }
            Some(Ok(r)) => {
                let nt = match self.needs_tick_us() {
                    None => "inactive".to_string(),
                    Some(t) => t.to_string(),
                };
                o.add("datagrams_sent", obs.sent.len() as u64);
                for e in &obs.events {
                    o.count(&format!("event_{}", e.split('.').next().unwrap_or("?")));
                }
                for w in &obs.warns {
                    o.count(&format!("warn_{}", w.rsplit('.').next().unwrap_or("?")));
                }
                let online = self.refs.values().filter(|r| r.kind() == "Online").count();
                if online >= 2 {
                    o.count("ops_with_2plus_online_peers");
                }
                if self.refs.values().any(|r| r.pending) && online >= 1 {
                    o.count("ops_with_pending_and_online_peers");
                }
                o.add("sends_failed", obs.failed.len() as u64);
                let line = format!(
                    "{} s={} e={} w={} nt={}",
                    r,
                    list_str(obs.sent.iter().map(|(a, d)| format!("{}@{}", a, parse_sent(d).text))),
                    list_str(obs.events.iter().cloned()),
                    list_str(obs.warns.iter().cloned()),
                    nt
                );
                if obs.failed.is_empty() && obs.errs == 0 {
                    line
                } else {
                    // a call during which the callback failed: the datagrams not sent, the number of
                    // errors handed back
                    format!("{} x={} err={}", line, sent_txt(&obs.failed), obs.errs)
                }
            }
            None => "bad-op".to_string(),
        };
        self.last = obs;
        line
    }
}

#[cfg(net_peer_id_hook)]
const HAVE_HOOK: bool = true;
#[cfg(not(net_peer_id_hook))]
const HAVE_HOOK: bool = false;

#[cfg(net_peer_id_hook)]
fn set_next_peer_id(net: &mut Net<u32>, n: u32) -> String {
    net.verif_set_next_peer_id(n);
    "ok".to_string()
}
#[cfg(not(net_peer_id_hook))]
fn set_next_peer_id(_net: &mut Net<u32>, _n: u32) -> String {
    "no-hook".to_string()
}

fn sent_txt(s: &[(u32, Vec<u8>)]) -> String {
    list_str(s.iter().map(|(a, d)| format!("{}@{}", a, parse_sent(d).text)))
}

pub struct R {
    w: World,
}

impl Runner for R {
    fn run(&mut self, toks: &[&str], oracle: &mut Oracle) -> String {
        if let ["sweep", kind, depth, lo, hi, "|", rest @ ..] = toks {
            return match (depth.parse::<u32>(), lo.parse::<u64>(), hi.parse::<u64>()) {
                (Ok(depth), Ok(lo), Ok(hi)) => sweep(kind, depth, lo, hi, rest, oracle),
                _ => "bad-op".to_string(),
            };
        }
        self.w.exec(toks, oracle)
    }
}

/// Hash form: every sequence of `depth` calls over the alphabet `rest` (calls separated by `;`)
/// with index in `[lo, hi)` (digits base |alphabet|, most significant first), each from a fresh
/// endpoint; the output lines are folded into FNV-1a.  The oracle runs on every sequence.
fn sweep(kind: &str, depth: u32, lo: u64, hi: u64, rest: &[&str], o: &mut Oracle) -> String {
    let ops: Vec<&[&str]> = rest.split(|t| *t == ";").collect();
    let k = ops.len() as u64;
    if k == 0 {
        return "bad-op".to_string();
    }
    let mut h = FNV_OFFSET;
    let line_no = o.line_no;
    for i in lo..hi {
        let mut w = World::new();
        w.exec(&["new", kind], o);
        let before = o.fails.len();
        let mut seq: Vec<String> = vec![];
        for j in (0..depth).rev() {
            let d = ((i / k.pow(j)) % k) as usize;
            let line = match catch(|| w.exec(ops[d], o)) {
                Ok(l) => l,
                Err(_) => "panic".to_string(),
            };
            seq.push(ops[d].iter().take(3).map(|t| if t.len() > 24 { &t[..24] } else { t }).collect::<Vec<_>>().join(" "));
            h = fnv_byte(fnv_bytes(h, line.as_bytes()), 10);
        }
        for f in o.fails.iter_mut().skip(before) {
            f.0 = line_no;
            f.2 = format!("{} [sweep sequence #{}: {}]", f.2, i, seq.join(" ; "));
        }
        o.add("ops_in_sweeps", depth as u64);
    }
    o.add("net_sequences_swept", hi.saturating_sub(lo));
    format!("h {}", h)
}

// --------------------------------------------------------------------------------------------
// generator: drives a world of its own (the same real code) plus simulated remote endpoints

/// the far end of one address
struct Remote {
    conn: Connection,
    /// datagrams it sent that have not been delivered to the endpoint yet
    outbox: Vec<Vec<u8>>,
    /// datagrams the endpoint sent to it that have not been delivered yet
    inbox: Vec<Vec<u8>>,
}

impl Remote {
    fn new() -> Remote {
        Remote { conn: Connection::new(), outbox: vec![], inbox: vec![] }
    }
    fn kind(&self) -> String {
        self.conn.verif_fingerprint().chars().take_while(|c| c.is_ascii_alphanumeric()).collect()
    }
}

struct Gen<'a> {
    w: World,
    out: &'a mut dyn std::io::Write,
    rng: Rng,
    o: Oracle,
    remotes: BTreeMap<u32, Remote>,
    addrs: Vec<u32>,
    /// every datagram seen in this session (for cross-address replays)
    seen: Vec<Vec<u8>>,
    lines: u64,
    /// prefix of every further line of this session (`f:` once a send fault has been armed and the
    /// session is no longer compared with the model; empty otherwise)
    pfx: &'static str,
    /// a send fault has been armed in this session
    faulty: bool,
}

/// Prefix of the lines of a session from the first `fail` op on.  `f:` = executed and checked by the
/// oracle, not compared with the Lean model; empty = compared (the model knows send faults).
const FAULT_PFX: &str = "";

const SIZES: &[usize] = &[0, 1, 1, 2, 3, 8, 15, 16, 17, 64, 200, 700, 1019, 1023];
const SIZES_EDGE: &[usize] = &[1023, 1024, 1386, 1389, 1390, 1391, 1393, 1394, 1395, 1400];

impl<'a> Gen<'a> {
    fn line(&mut self, l: &str) -> String {
        let l = &format!("{}{}", self.pfx, l);
        writeln!(self.out, "{}", l).unwrap();
        self.lines += 1;
        let toks: Vec<&str> = l.split_ascii_whitespace().collect();
        let r = self.w.exec(&toks, &mut self.o);
        self.o.fails.clear();
        // route what the endpoint sent to the remotes' inboxes
        let sent = std::mem::take(&mut self.w.last.sent);
        for (a, d) in sent {
            self.seen.push(d.clone());
            self.remotes.entry(a).or_insert_with(Remote::new).inbox.push(d);
        }
        r
    }

    fn draws(&mut self) -> String {
        let mut v: Vec<String> = vec![];
        while self.rng.chance(1, 8) {
            v.push(if self.rng.chance(1, 2) { "ffffffff".to_string() } else { "00000000".to_string() });
        }
        let t = self.rng.next() as u32 | 0x0100;
        v.push(format!("{:08x}", t));
        format!("r={}", v.join(","))
    }

    fn payload(&mut self) -> Vec<u8> {
        let n = if self.rng.chance(1, 25) { *self.rng.pick(SIZES_EDGE) } else { *self.rng.pick(SIZES) };
        self.rng.bytes(n)
    }

    fn reason(&mut self) -> Vec<u8> {
        let n = self.rng.below(8) as usize;
        (0..n).map(|_| if self.rng.chance(1, 400) { 0 } else { 1 + self.rng.below(255) as u8 }).collect()
    }

    fn addr(&mut self) -> u32 {
        *self.rng.pick(&self.addrs.clone())
    }

    fn feed(&mut self, a: u32, bytes: &[u8]) -> String {
        let d = self.draws();
        // now and then the application drops the returned iterator early
        let k = if !self.faulty && self.rng.chance(1, 25) { format!(" k={}", self.rng.below(3)) } else { String::new() };
        let l = format!("feed {} {} {} {}{}", a, to_hex(bytes), parses(bytes), d, k);
        self.line(&l)
    }

    /// run something on a remote connection and collect what it sends
    fn remote_do<F: FnOnce(&mut Connection, &mut CCb)>(&mut self, a: u32, f: F) {
        let now = self.w.now;
        let mut cb = CCb::new(now, VecDeque::new());
        for _ in 0..3 {
            let t = self.rng.next() as u32 | 0x0100;
            cb.draws.push_back(t.to_be_bytes());
        }
        let r = self.remotes.entry(a).or_insert_with(Remote::new);
        let ok = catch(|| f(&mut r.conn, &mut cb)).is_ok();
        if !ok {
            // a remote that tripped over its own API precondition is replaced by a fresh one
            r.conn = Connection::new();
        }
        for d in cb.sent {
            self.seen.push(d.clone());
            r.outbox.push(d);
        }
    }

    fn live(&self) -> Vec<(u32, u32, bool, String)> {
        self.w.refs.iter().map(|(a, r)| (*a, r.pid, r.pending, r.kind())).collect()
    }

    fn pick_pid(&mut self, pred: impl Fn(&(u32, u32, bool, String)) -> bool) -> Option<u32> {
        let v: Vec<u32> = self.live().into_iter().filter(|x| pred(x)).map(|x| x.1).collect();
        if v.is_empty() {
            None
        } else {
            Some(*self.rng.pick(&v))
        }
    }

    fn crafted(&mut self) -> Vec<u8> {
        let token = match self.rng.below(4) {
            0 => None,
            1 => Some(px::Token([0xff; 4])),
            _ => Some(px::Token((self.rng.next() as u32).to_be_bytes())),
        };
        let ack = if self.rng.chance(1, 2) { 0 } else { self.rng.below(1024) as u16 };
        let reason: Vec<u8> = (0..self.rng.below(6)).map(|_| 1 + self.rng.below(255) as u8).collect();
        let mut payload: Vec<u8> = Vec::with_capacity(4096);
        let type_ = match self.rng.below(9) {
            0 => px::ConnectedPacketType::Control(px::ControlPacket::KeepAlive),
            1 | 2 | 3 => px::ConnectedPacketType::Control(px::ControlPacket::Connect),
            4 => px::ConnectedPacketType::Control(px::ControlPacket::ConnectAccept),
            5 => px::ConnectedPacketType::Control(px::ControlPacket::Accept),
            6 => px::ConnectedPacketType::Control(px::ControlPacket::Close(&reason)),
            _ => {
                let n = self.rng.below(4) as usize;
                let mut s = 1 + self.rng.below(3) as u16;
                for _ in 0..n {
                    let k = self.rng.below(12) as usize;
                    let data = self.rng.bytes(k);
                    if self.rng.chance(2, 3) {
                        let _ = px::write_chunk(&data, Some((s, self.rng.chance(1, 3))), &mut payload);
                        s = (s + 1) % 1024;
                    } else {
                        let _ = px::write_chunk(&data, None, &mut payload);
                    }
                }
                px::ConnectedPacketType::Chunks(self.rng.chance(1, 3), n as u8, &payload)
            }
        };
        let mut buf = [0u8; 2048];
        let p = px::Packet::Connected(px::ConnectedPacket { ack, token, type_ });
        catch(|| p.write(&mut buf[..]).ok().map(|b| b.to_vec())).ok().flatten().unwrap_or_default()
    }

    fn garbage(&mut self) -> Vec<u8> {
        match self.rng.below(8) {
            0 | 1 | 2 => self.crafted(),
            3 => {
                // connless
                let mut b = vec![0xff; 6];
                let n = self.rng.below(30) as usize;
                b.extend(self.rng.bytes(n));
                b
            }
            4 if !self.seen.is_empty() => {
                // a genuine datagram, bit-flipped or truncated
                let mut b = self.rng.pick(&self.seen.clone()).clone();
                if !b.is_empty() {
                    if self.rng.chance(1, 2) {
                        let i = self.rng.below(b.len() as u64) as usize;
                        b[i] ^= 1 << self.rng.below(8);
                    } else {
                        let cut = self.rng.below(b.len() as u64) as usize;
                        b.truncate(cut);
                    }
                }
                b
            }
            5 if !self.seen.is_empty() => self.rng.pick(&self.seen.clone()).clone(),
            6 => {
                let n = 1395 + self.rng.below(12) as usize;
                self.rng.bytes(n)
            }
            _ => {
                let n = self.rng.below(24) as usize;
                self.rng.bytes(n)
            }
        }
    }

    fn session(&mut self, steps: usize) {
        let server = self.rng.chance(4, 5);
        self.remotes.clear();
        self.seen.clear();
        self.pfx = "";
        self.faulty = false;
        self.line(if server { "new s" } else { "new c" });
        if HAVE_HOOK && self.rng.chance(1, 3) {
            // the peer id counter about to wrap
            let v = *self.rng.pick(&[4294967295u32, 4294967294, 4294967293, 1]);
            self.line(&format!("nextid {}", v));
        }
        let n = 2 + self.rng.below(3) as u32;
        self.addrs = (1..=n).collect();
        if self.rng.chance(1, 10) {
            self.addrs[0] = 4294967295;
        }
        for _ in 0..steps {
            if self.w.dead {
                // a few more lines show the session stays dead on both sides
                if self.rng.chance(1, 2) {
                    self.line("tick");
                }
                break;
            }
            self.step();
        }
    }

    // ---- send faults ------------------------------------------------------------------------

    /// arm a send fault: the k-th next `Callback::send` to address `a` fails
    fn arm(&mut self, a: u32, k: u32) {
        if !self.faulty {
            self.faulty = true;
            self.pfx = FAULT_PFX;
        }
        self.line(&format!("fail {} {}", a, k));
    }

    /// everything in flight between the endpoint and the remote at `a` is delivered, `rounds` times
    fn pump(&mut self, a: u32, rounds: usize) {
        for _ in 0..rounds {
            let inbox = std::mem::take(&mut self.remotes.entry(a).or_insert_with(Remote::new).inbox);
            for d in inbox {
                self.remote_do(a, |c, cb| {
                    let mut buf = [0u8; 4096];
                    let mut ws: Vec<cx::Warning> = vec![];
                    let (it, _r) = c.feed(cb, &mut ws, &d, &mut buf[..]);
                    let _ = it.count();
                });
            }
            let outbox = std::mem::take(&mut self.remotes.get_mut(&a).unwrap().outbox);
            for d in outbox {
                if self.w.dead {
                    return;
                }
                self.feed(a, &d);
            }
        }
    }

    fn pid_at(&self, a: u32) -> Option<u32> {
        self.w.refs.get(&a).map(|r| r.pid)
    }

    /// a fresh remote client at `a` asks for a connection (with / without the token extension)
    fn remote_connects(&mut self, a: u32, token: bool) {
        self.remotes.insert(a, Remote::new());
        self.remote_do(a, |c, cb| {
            let _ = c.connect(cb);
        });
        if !token {
            if let Some(d) = self.remotes.get_mut(&a).and_then(|r| r.outbox.last_mut()) {
                if d.len() >= 8 {
                    let n = d.len() - 8;
                    d.truncate(n);
                }
            }
        }
        self.pump(a, 1);
    }

    /// Bring address `a` to a stage: 0 = pending acceptance, 1 = accepted (connection `Pending`),
    /// 2 = online (accepted peer), 3 = connecting (`Net::connect`), 4 = online (outgoing peer).
    fn bring(&mut self, a: u32, stage: u32) {
        match stage {
            0 | 1 | 2 => {
                let token = self.rng.chance(2, 3);
                self.remote_connects(a, token);
                if stage >= 1 {
                    if let Some(pid) = self.pid_at(a) {
                        let d = self.draws();
                        self.line(&format!("accept {} {}", pid, d));
                    }
                }
                if stage >= 2 {
                    self.pump(a, 2);
                    // the acceptor goes online with the first chunk packet
                    self.remote_do(a, |c, cb| {
                        let _ = c.send(cb, b"hi", true);
                        let _ = c.flush(cb);
                    });
                    self.pump(a, 2);
                }
            }
            _ => {
                self.remotes.insert(a, Remote::new());
                if !self.w.refs.contains_key(&a) {
                    self.line(&format!("connect {}", a));
                }
                if stage >= 4 {
                    self.pump(a, 3);
                }
            }
        }
    }

    /// the remote at `a` says something (data, or nothing new: just a tick's worth of traffic)
    fn remote_talks(&mut self, a: u32) {
        if self.remotes.get(&a).map(|r| r.kind() == "Online").unwrap_or(false) {
            let d = self.payload();
            self.remote_do(a, |c, cb| {
                let _ = c.send(cb, &d, true);
                let _ = c.flush(cb);
            });
        }
    }

    /// What makes the consequences of a fault visible: the deadline, data from the old peer, ticks
    /// past both timeouts (with retransmissions of the remote), a reconnect from the same address.
    fn aftermath(&mut self, a: u32) {
        self.line("needs_tick");
        self.remote_talks(a);
        self.pump(a, 2);
        for ms in [500u64, 1, 499, 1000] {
            if self.w.dead {
                return;
            }
            self.line(&format!("time {}", ms));
            self.remote_do(a, |c, cb| {
                let _ = c.tick(cb);
            });
            self.line("tick");
            self.pump(a, 1);
        }
        if self.w.dead {
            return;
        }
        // the same address asks again
        if self.w.accepting || self.rng.chance(1, 3) {
            let token = self.rng.chance(1, 2);
            self.remote_connects(a, token);
            if let Some((pid, true)) = self.w.refs.get(&a).map(|r| (r.pid, r.pending)) {
                let d = self.draws();
                self.line(&format!("accept {} {}", pid, d));
                self.pump(a, 2);
                self.remote_talks(a);
                self.pump(a, 2);
            }
        } else if !self.w.refs.contains_key(&a) {
            self.line(&format!("connect {}", a));
            self.pump(a, 3);
        }
        self.line("needs_tick");
    }

    /// A session with a send fault right before one kind of call that sends, for the peer of one
    /// of several addresses (the others are bystanders at random stages), followed by the aftermath
    /// and random further traffic (with more faults).
    fn fault_session(&mut self, kind: u32, steps: usize) {
        let server = kind != 12 && self.rng.chance(5, 6);
        self.remotes.clear();
        self.seen.clear();
        self.pfx = "";
        self.faulty = false;
        self.line(if server { "new s" } else { "new c" });
        let n = 2 + self.rng.below(2) as u32;
        self.addrs = (1..=n).collect();
        let t = self.addr();
        // bystanders
        for a in self.addrs.clone() {
            if a != t && self.rng.chance(2, 3) {
                let st = if server { *self.rng.pick(&[0u32, 1, 2, 2, 4]) } else { *self.rng.pick(&[3u32, 4]) };
                self.bring(a, st);
            }
        }
        // which send fails: mostly the next one
        let k = *self.rng.pick(&[1u32, 1, 1, 1, 2]);
        let stage_in = |g: &mut Gen, stages: &[u32]| if server { *g.rng.pick(stages) } else { *g.rng.pick(&[3u32, 4]) };
        match kind {
            // reject of a pending peer
            0 => {
                self.bring(t, if server { 0 } else { 3 });
                if let Some(pid) = self.pid_at(t) {
                    self.arm(t, 1);
                    let r = self.reason();
                    if server {
                        self.line(&format!("reject {} {}", pid, to_hex(&r)));
                    } else {
                        self.line(&format!("disconnect {} {}", pid, to_hex(&r)));
                    }
                }
            }
            // disconnect at every stage after the decision
            1 | 2 => {
                let st = stage_in(self, &[1, 2, 2, 3, 4]);
                self.bring(t, st);
                if let Some(pid) = self.pid_at(t) {
                    if kind == 2 {
                        // with something queued and unacknowledged
                        self.line(&format!("send {} v 0102", pid));
                    }
                    self.arm(t, 1);
                    let r = self.reason();
                    self.line(&format!("disconnect {} {}", pid, to_hex(&r)));
                }
            }
            // accept: the ConnectAccept is not sent
            3 => {
                self.bring(t, if server { 0 } else { 3 });
                if let (Some(pid), true) = (self.pid_at(t), server) {
                    self.arm(t, k);
                    let d = self.draws();
                    self.line(&format!("accept {} {}", pid, d));
                }
            }
            // connect: the connect request is not sent
            4 => {
                self.remotes.insert(t, Remote::new());
                self.arm(t, k);
                self.line(&format!("connect {}", t));
            }
            // send with an implicit flush
            5 => {
                let st = stage_in(self, &[2, 4]);
                self.bring(t, st);
                if let Some(pid) = self.pid_at(t) {
                    let n = 700 + self.rng.below(300) as usize;
                    let big = self.rng.bytes(n);
                    self.line(&format!("send {} v {}", pid, to_hex(&big)));
                    self.arm(t, 1);
                    let v = if self.rng.chance(1, 2) { "v" } else { "n" };
                    self.line(&format!("send {} {} {}", pid, v, to_hex(&big)));
                    self.line(&format!("flush {}", pid));
                }
            }
            // flush
            6 => {
                let st = stage_in(self, &[2, 4]);
                self.bring(t, st);
                if let Some(pid) = self.pid_at(t) {
                    let d = self.payload();
                    self.line(&format!("send {} v {}", pid, to_hex(&d)));
                    self.line(&format!("send {} n 07", pid));
                    self.arm(t, 1);
                    self.line(&format!("flush {}", pid));
                }
            }
            // tick with a due timer: keep-alive / retransmitted handshake datagram / queued data
            7 => {
                let st = stage_in(self, &[1, 2, 3, 4]);
                self.bring(t, st);
                if let (Some(pid), true) = (self.pid_at(t), self.rng.chance(1, 2)) {
                    self.line(&format!("send {} v 0a0b", pid));
                }
                self.line("time 500");
                self.arm(t, 1);
                self.line("tick");
            }
            // tick with a due retransmission, one datagram and several
            8 | 9 => {
                let st = stage_in(self, &[2, 4]);
                self.bring(t, st);
                if let Some(pid) = self.pid_at(t) {
                    let n = if kind == 8 { 1 } else { 3 + self.rng.below(3) };
                    for i in 0..n {
                        let d = vec![i as u8; 600 + self.rng.below(200) as usize];
                        self.line(&format!("send {} v {}", pid, to_hex(&d)));
                    }
                    self.line(&format!("flush {}", pid));
                    // all of it is lost
                    if let Some(r) = self.remotes.get_mut(&t) {
                        r.inbox.clear();
                    }
                    self.line("time 1000");
                    let k = if kind == 8 { 1 } else { 1 + self.rng.below(3) as u32 };
                    self.arm(t, k);
                    self.line("tick");
                    self.line(&format!("flush {}", pid));
                }
            }
            // a datagram that triggers an answer: the remote's ConnectAccept (answer: Accept), a
            // resend request (answer: the retransmission)
            10 => {
                if self.rng.chance(1, 2) {
                    self.bring(t, 3);
                    let inbox = std::mem::take(&mut self.remotes.entry(t).or_insert_with(Remote::new).inbox);
                    for d in inbox {
                        self.remote_do(t, |c, cb| {
                            let mut buf = [0u8; 4096];
                            let mut ws: Vec<cx::Warning> = vec![];
                            let (it, _r) = c.feed(cb, &mut ws, &d, &mut buf[..]);
                            let _ = it.count();
                        });
                    }
                    self.arm(t, 1);
                    self.pump(t, 1);
                } else {
                    let st = stage_in(self, &[2, 4]);
                    self.bring(t, st);
                    if let Some(pid) = self.pid_at(t) {
                        for i in 0..(1 + self.rng.below(4)) {
                            let d = vec![i as u8; 500 + self.rng.below(300) as usize];
                            self.line(&format!("send {} v {}", pid, to_hex(&d)));
                        }
                        self.line(&format!("flush {}", pid));
                        // the first datagrams are lost; the remote sees a gap and asks for a resend
                        if let Some(r) = self.remotes.get_mut(&t) {
                            r.inbox.clear();
                        }
                        self.line(&format!("send {} v 0c", pid));
                        self.line(&format!("flush {}", pid));
                        let inbox = std::mem::take(&mut self.remotes.entry(t).or_insert_with(Remote::new).inbox);
                        for d in inbox {
                            self.remote_do(t, |c, cb| {
                                let mut buf = [0u8; 4096];
                                let mut ws: Vec<cx::Warning> = vec![];
                                let (it, _r) = c.feed(cb, &mut ws, &d, &mut buf[..]);
                                let _ = it.count();
                                let _ = c.flush(cb);
                            });
                        }
                        let k = 1 + self.rng.below(2) as u32;
                        self.arm(t, k);
                        self.pump(t, 1);
                    }
                }
            }
            // send_connless
            11 => {
                if self.rng.chance(1, 2) {
                    self.bring(t, 2);
                }
                self.arm(t, k);
                let d = self.payload();
                self.line(&format!("sendcl {} {}", t, to_hex(&d)));
                self.line(&format!("sendcl {} {}", t, to_hex(&d)));
            }
            // non-accepting endpoint: outgoing connection, faults on everything it sends for a while
            _ => {
                self.bring(t, 3);
                self.arm(t, 2);
                self.arm(t, 3);
                self.pump(t, 2);
            }
        }
        if !self.w.dead {
            self.aftermath(t);
        }
        for _ in 0..steps {
            if self.w.dead {
                break;
            }
            if self.rng.chance(1, 8) {
                let a = self.addr();
                let k = *self.rng.pick(&[1u32, 1, 1, 2, 3]);
                self.arm(a, k);
            }
            self.step();
        }
        self.pfx = "";
        self.faulty = false;
    }

    fn step(&mut self) {
        let k = self.rng.below(100);
        match k {
            // ---- a remote starts a connection (client role), with or without the token extension
            0..=7 => {
                let a = self.addr();
                if self.remotes.get(&a).map(|r| r.kind() == "Unconnected" || r.kind() == "Disconnected").unwrap_or(true) {
                    self.remotes.insert(a, Remote::new());
                    self.remote_do(a, |c, cb| {
                        let _ = c.connect(cb);
                    });
                    if self.rng.chance(1, 3) {
                        // a vanilla client: no token extension
                        if let Some(d) = self.remotes.get_mut(&a).and_then(|r| r.outbox.last_mut()) {
                            if d.len() >= 8 {
                                let n = d.len() - 8;
                                d.truncate(n);
                            }
                        }
                    }
                }
            }
            // ---- deliver a datagram to the endpoint (in order, reordered, duplicated, lost)
            8..=37 => {
                let cands: Vec<u32> = self.remotes.iter().filter(|(_, r)| !r.outbox.is_empty()).map(|(a, _)| *a).collect();
                if cands.is_empty() {
                    return;
                }
                let a = *self.rng.pick(&cands);
                let r = self.remotes.get_mut(&a).unwrap();
                let i = if self.rng.chance(5, 6) { 0 } else { self.rng.below(r.outbox.len() as u64) as usize };
                let d = match self.rng.below(12) {
                    0 | 1 => r.outbox[i].clone(), // duplicate: stays queued
                    2 => {
                        r.outbox.remove(i); // lost
                        return;
                    }
                    _ => r.outbox.remove(i),
                };
                // sometimes under a wrong source address (spoofed / misrouted)
                let src = if self.rng.chance(1, 15) { self.addr() } else { a };
                self.feed(src, &d);
            }
            // ---- deliver a datagram to a remote
            38..=57 => {
                let cands: Vec<u32> = self.remotes.iter().filter(|(_, r)| !r.inbox.is_empty()).map(|(a, _)| *a).collect();
                if cands.is_empty() {
                    return;
                }
                let a = *self.rng.pick(&cands);
                let d = self.remotes.get_mut(&a).unwrap().inbox.remove(0);
                if self.rng.chance(1, 12) {
                    return; // lost
                }
                self.remote_do(a, |c, cb| {
                    let mut buf = [0u8; 4096];
                    let mut ws: Vec<cx::Warning> = vec![];
                    let (it, _r) = c.feed(cb, &mut ws, &d, &mut buf[..]);
                    let _ = it.count();
                });
            }
            // ---- the application decides about a pending peer
            58..=65 => {
                if let Some(pid) = self.pick_pid(|x| x.2) {
                    if self.rng.chance(4, 5) {
                        let d = self.draws();
                        self.line(&format!("accept {} {}", pid, d));
                    } else {
                        let r = self.reason();
                        self.line(&format!("reject {} {}", pid, to_hex(&r)));
                    }
                }
            }
            // ---- the application connects out
            66..=69 => {
                let a = self.addr();
                if !self.w.refs.contains_key(&a) {
                    self.remotes.insert(a, Remote::new());
                    self.line(&format!("connect {}", a));
                } else if !self.faulty && self.rng.chance(1, 60) {
                    // (not under send faults: the model attributes a failed retransmission to the
                    // address, which is the peer only while an address has one peer)
                    self.line("dup");
                    self.line(&format!("connect {}", a));
                }
            }
            // ---- application traffic on an online peer
            70..=79 => {
                if let Some(pid) = self.pick_pid(|x| x.3 == "Online") {
                    let d = self.payload();
                    let v = if self.rng.chance(2, 3) { "v" } else { "n" };
                    self.line(&format!("send {} {} {}", pid, v, to_hex(&d)));
                    if self.rng.chance(1, 2) {
                        self.line(&format!("flush {}", pid));
                    }
                }
            }
            // ---- remote traffic
            80..=84 => {
                let cands: Vec<u32> = self.remotes.iter().filter(|(_, r)| r.kind() == "Online").map(|(a, _)| *a).collect();
                if cands.is_empty() {
                    return;
                }
                let a = *self.rng.pick(&cands);
                let d = self.payload();
                let vital = self.rng.chance(2, 3);
                let close = self.rng.chance(1, 8);
                let reason = self.reason();
                self.remote_do(a, |c, cb| {
                    if close {
                        let _ = c.disconnect(cb, &reason);
                    } else {
                        let _ = c.send(cb, &d, vital);
                        let _ = c.flush(cb);
                    }
                });
            }
            // ---- time passes, everybody ticks
            85..=90 => {
                let ms = *self.rng.pick(&[0u64, 1, 100, 499, 500, 501, 999, 1000, 1001, 1500]);
                self.line(&format!("time {}", ms));
                let addrs: Vec<u32> = self.remotes.keys().cloned().collect();
                for a in addrs {
                    if self.rng.chance(2, 3) {
                        self.remote_do(a, |c, cb| {
                            let _ = c.tick(cb);
                        });
                    }
                }
                match self.rng.below(20) {
                    0 if !self.faulty => self.line("tick k=0"),
                    1 if !self.faulty => self.line("tick k=2"),
                    _ => self.line("tick"),
                };
            }
            // ---- the application ends a peer
            91..=92 => {
                if let Some(pid) = self.pick_pid(|x| !x.2) {
                    if self.rng.chance(3, 4) {
                        let r = self.reason();
                        self.line(&format!("disconnect {} {}", pid, to_hex(&r)));
                    } else {
                        self.line(&format!("ignore {}", pid));
                    }
                } else if let Some(pid) = self.pick_pid(|_| true) {
                    if self.rng.chance(1, 3) {
                        self.line(&format!("ignore {}", pid));
                    }
                }
            }
            // ---- garbage and stray datagrams, from known and unknown addresses
            93..=96 => {
                let a = if self.rng.chance(1, 4) { 100 + self.rng.below(3) as u32 } else { self.addr() };
                let d = self.garbage();
                self.feed(a, &d);
            }
            97 => {
                let a = self.addr();
                let d = self.payload();
                self.line(&format!("sendcl {} {}", a, to_hex(&d)));
            }
            98 => {
                if HAVE_HOOK && self.rng.chance(1, 2) {
                    // the counter runs into ids that are still live: fresh peers must skip them
                    let v = match self.pick_pid(|_| true) {
                        Some(pid) => pid.wrapping_sub(self.rng.below(2) as u32),
                        None => self.rng.below(4) as u32,
                    };
                    self.line(&format!("nextid {}", v));
                } else {
                    self.line("needs_tick");
                }
            }
            // ---- misuse of the API (outside the property's claims; model and code must still agree)
            _ => {
                if !self.rng.chance(1, 5) {
                    return;
                }
                let pid = match self.rng.below(3) {
                    0 => self.pick_pid(|_| true).unwrap_or(7),
                    1 => self.rng.below(6) as u32,
                    _ => 4294967295,
                };
                match self.rng.below(6) {
                    0 => {
                        let d = self.draws();
                        self.line(&format!("accept {} {}", pid, d));
                    }
                    1 => {
                        self.line(&format!("reject {} 62", pid));
                    }
                    2 => {
                        self.line(&format!("disconnect {} 62", pid));
                    }
                    3 => {
                        self.line(&format!("send {} v 01", pid));
                    }
                    4 => {
                        self.line(&format!("flush {}", pid));
                    }
                    _ => {
                        self.line(&format!("ignore {}", pid));
                    }
                }
            }
        }
    }
}

fn write_pkt(ack: u16, token: Option<[u8; 4]>, type_: px::ConnectedPacketType) -> Vec<u8> {
    let mut buf = [0u8; 2048];
    let p = px::Packet::Connected(px::ConnectedPacket { ack, token: token.map(px::Token), type_ });
    p.write(&mut buf[..]).map(|b| b.to_vec()).unwrap_or_default()
}

/// the alphabet of the exhaustive small-scope sweep: two addresses, both handshake directions with
/// and without token, data, closes, every application call, time and tick
fn sweep_alphabet() -> Vec<String> {
    let feed = |a: u32, d: &[u8], draw: &str| format!("feed {} {} {} r={}", a, to_hex(d), parses(d), draw);
    let t1 = [1u8, 2, 3, 4];
    let mut chunk: Vec<u8> = Vec::new();
    let _ = px::write_chunk(&[0xaa], Some((1, false)), &mut chunk);
    vec![
        feed(1, &client_connect(true), "01020304"),
        feed(1, &client_connect(false), "01020304"),
        feed(2, &client_connect(true), "05060708"),
        "accept 0 r=01020304".to_string(),
        "accept 1 r=05060708".to_string(),
        "reject 0 62".to_string(),
        "connect 2".to_string(),
        feed(2, &write_pkt(0, Some([10, 11, 12, 13]), px::ConnectedPacketType::Control(px::ControlPacket::ConnectAccept)), "090a0b0c"),
        feed(1, &write_pkt(0, Some(t1), px::ConnectedPacketType::Chunks(false, 1, &chunk)), "090a0b0c"),
        feed(1, &write_pkt(0, None, px::ConnectedPacketType::Chunks(false, 1, &chunk)), "090a0b0c"),
        feed(1, &write_pkt(0, Some(t1), px::ConnectedPacketType::Control(px::ControlPacket::Close(b"x"))), "090a0b0c"),
        "send 0 v bb".to_string(),
        "flush 0".to_string(),
        "disconnect 0 62".to_string(),
        "ignore 1".to_string(),
        "time 600".to_string(),
        "tick".to_string(),
    ]
}

/// indices (into `sweep_alphabet`) of the reduced alphabet of the depth-6 sweep: connect requests
/// from both addresses, both accepts, data and close on the first connection, send, flush, time, tick
const REDUCED: &[usize] = &[0, 2, 3, 4, 8, 10, 11, 12, 15, 16];

fn gen_sweeps(depth: u32, chunk: u64, out: &mut dyn std::io::Write) {
    gen_sweeps_over(sweep_alphabet(), depth, chunk, out)
}

fn gen_sweeps_over(alpha: Vec<String>, depth: u32, chunk: u64, out: &mut dyn std::io::Write) {
    let total = (alpha.len() as u64).pow(depth);
    let text = alpha.join(" ; ");
    let mut lo = 0;
    while lo < total {
        let hi = (lo + chunk).min(total);
        // a session boundary before every sweep line lets the check shard between them
        writeln!(out, "new s").unwrap();
        writeln!(out, "sweep s {} {} {} | {}", depth, lo, hi, text).unwrap();
        lo = hi;
    }
}

fn gen_all(tier: &str, seed: u64, out: &mut dyn std::io::Write) {
    match tier {
        "thorough" => {
            gen_sweeps(4, 4096, out);
            gen_sweeps(5, 32768, out);
            let full = sweep_alphabet();
            gen_sweeps_over(REDUCED.iter().map(|i| full[*i].clone()).collect(), 6, 32768, out);
        }
        "search" => {}
        _ => gen_sweeps(4, 8192, out),
    }
    let (sessions, steps) = match tier {
        "thorough" => (6000, 300),
        "search" => (500, 200),
        _ => (350, 200),
    };
    let mut g = Gen { w: World::new(), out, rng: Rng::new(seed ^ 0x6e65_7420), o: Oracle::new(), remotes: BTreeMap::new(), addrs: vec![1, 2], seen: vec![], lines: 0, pfx: "", faulty: false };
    for i in 0..sessions {
        let n = if i % 7 == 0 { steps * 3 } else { steps };
        g.session(n);
    }
    // send faults: a fault right before every kind of call that sends, then the consequences
    let rounds = match tier {
        "thorough" => 120,
        "search" => 10,
        _ => 8,
    };
    g.rng = Rng::new(seed ^ 0x6661_756c_7473);
    for _ in 0..rounds {
        for kind in 0..13 {
            g.fault_session(kind, 25);
        }
    }
}

pub struct D;

pub fn domain() -> Box<dyn Domain> {
    Box::new(D)
}

impl Domain for D {
    fn gen(&self, tier: &str, seed: u64, out: &mut dyn std::io::Write) {
        gen_all(tier, seed, out);
    }
    fn runner(&self) -> Box<dyn Runner> {
        Box::new(R { w: World::new() })
    }
}
