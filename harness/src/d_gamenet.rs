//! Domain `gamenet`: the generated message / snapshot-object codecs of the four protocol crates
//! (`gamenet/teeworlds-0.5|0.6|0.7`, `gamenet/ddnet`), `gamenet/common/src/msg.rs`,
//! `gamenet/snap`.  Property C14.
//!
//! The dispatch over every codec (value printing, construction from values) and the protocol
//! descriptions as static data are in `gen_gamenet_table.rs`, which `tools/extract.d/gamenet.py`
//! regenerates from `gamenet/generate/spec/*.json` on every check run.
#![allow(dead_code)]
use crate::util::*;
use libtw2_buffer::CapacityError;
use libtw2_gamenet_common::error::Error;
use libtw2_gamenet_common::msg::AddrPacked;
use libtw2_gamenet_common::msg::AddrPackedSliceExt;
use libtw2_gamenet_common::msg::SystemOrGame;
use libtw2_gamenet_common::snap_obj::TypeId;
use libtw2_packer::with_packer;
use libtw2_packer::ExcessData;
use libtw2_packer::IntUnpacker;
use libtw2_packer::Packer;
use libtw2_packer::Unpacker;
use libtw2_packer::Warning;
use std::io::Write;

pub struct Dm;

pub fn domain() -> Box<dyn Domain> {
    Box::new(Dm)
}

// ---------------------------------------------------------------------------------------------
// description data (filled by the generated table)

#[derive(Debug)]
pub enum T {
    Int(Option<i32>, Option<i32>),
    Bool,
    Enum(i32, u32),
    Flags(u64),
    Tick,
    Tune,
    Str(bool),
    IntStr,
    Data,
    Rest,
    Raw(usize),
    Be16,
    U8,
    Addrs,
    Clients,
    TwStr(usize),
    Opt(&'static T),
    Arr(usize, &'static T),
    Obj(&'static [T]),
}

#[derive(Debug, Clone, Copy)]
pub enum Id {
    Ord(i32),
    Uuid([u8; 16]),
    Conn([u8; 8]),
}

pub struct D {
    pub name: &'static str,
    pub id: Id,
    pub members: &'static [T],
}

fn t_has_bool(t: &T) -> bool {
    match t {
        T::Bool => true,
        T::Arr(_, t) => t_has_bool(t),
        _ => false,
    }
}

// ---------------------------------------------------------------------------------------------
// values (syntax shared with lean/Tw/Drv/Gamenet.lean)

#[derive(Debug, Clone)]
pub enum V {
    I(i64),
    B(bool),
    X(Vec<u8>),
    N,
    S(Box<V>),
    L(Vec<V>),
}

impl V {
    pub fn int_(&self) -> Option<i64> {
        match self {
            V::I(v) => Some(*v),
            _ => None,
        }
    }
    pub fn i32_(&self) -> Option<i32> {
        self.int_().and_then(|v| i32::try_from(v).ok())
    }
    pub fn bool_(&self) -> Option<bool> {
        match self {
            V::B(b) => Some(*b),
            _ => None,
        }
    }
    pub fn bytes_(&self) -> Option<&[u8]> {
        match self {
            V::X(b) => Some(b),
            _ => None,
        }
    }
    pub fn opt_(&self) -> Option<Option<&V>> {
        match self {
            V::N => Some(None),
            V::S(v) => Some(Some(v)),
            _ => None,
        }
    }
    pub fn list_(&self, n: usize) -> Option<&[V]> {
        match self {
            V::L(l) if l.len() == n => Some(l),
            _ => None,
        }
    }
}

fn parse_v(s: &[u8], i: &mut usize) -> Option<V> {
    let c = *s.get(*i)?;
    *i += 1;
    match c {
        b'i' => {
            let st = *i;
            while *i < s.len() && (s[*i].is_ascii_digit() || s[*i] == b'-') {
                *i += 1;
            }
            std::str::from_utf8(&s[st..*i]).ok()?.parse::<i64>().ok().map(V::I)
        }
        b't' => Some(V::B(true)),
        b'f' => Some(V::B(false)),
        b'n' => Some(V::N),
        b'x' => {
            let st = *i;
            while *i < s.len() && (s[*i].is_ascii_alphanumeric() || s[*i] == b'-') {
                *i += 1;
            }
            parse_hex(std::str::from_utf8(&s[st..*i]).ok()?).map(V::X)
        }
        b's' => {
            if *s.get(*i)? != b'(' {
                return None;
            }
            *i += 1;
            let v = parse_v(s, i)?;
            if *s.get(*i)? != b')' {
                return None;
            }
            *i += 1;
            Some(V::S(Box::new(v)))
        }
        b'[' => {
            let mut l = vec![];
            if *s.get(*i)? == b']' {
                *i += 1;
                return Some(V::L(l));
            }
            loop {
                l.push(parse_v(s, i)?);
                match *s.get(*i)? {
                    b',' => *i += 1,
                    b']' => {
                        *i += 1;
                        return Some(V::L(l));
                    }
                    _ => return None,
                }
            }
        }
        _ => None,
    }
}

pub fn parse_value(s: &str) -> Option<V> {
    let mut i = 0;
    let v = parse_v(s.as_bytes(), &mut i)?;
    if i == s.len() {
        Some(v)
    } else {
        None
    }
}

pub fn pi(o: &mut String, v: i64) {
    o.push('i');
    o.push_str(&v.to_string());
}
pub fn pb(o: &mut String, b: bool) {
    o.push(if b { 't' } else { 'f' });
}
pub fn px(o: &mut String, b: &[u8]) {
    o.push('x');
    o.push_str(&to_hex(b));
}

pub fn addrs_(b: &[u8]) -> Option<&[AddrPacked]> {
    if b.len() % 18 != 0 {
        return None;
    }
    let mut w: Vec<ExcessData> = vec![];
    Some(AddrPackedSliceExt::from_bytes(&mut w, b))
}

/// Runs an `encode` into a buffer that is large enough: hex | `capacity` | `panic`.
pub fn enc_bytes<F>(f: F) -> String
where
    F: for<'d, 's> FnOnce(Packer<'d, 's>) -> Result<&'d [u8], CapacityError>,
{
    let mut buf = vec![0u8; ENC_CAP.with(|c| c.get())];
    match catch(|| with_packer(&mut buf[..], |p| f(p).map(|b| b.to_vec()))) {
        Err(_) => "panic".to_string(),
        Ok(Err(_)) => "capacity".to_string(),
        Ok(Ok(b)) => to_hex(&b),
    }
}

fn ints_str(v: &[i32]) -> String {
    list_str(v.iter().map(|x| x.to_string()))
}

/// Snapshot object `encode`: the words | `len:<n>` for objects with `bool` fields (their padding
/// bytes are unspecified) | `panic`.
pub fn enc_ints<F: FnOnce() -> Vec<i32>>(f: F, has_bool: bool) -> String {
    match catch(f) {
        Err(_) => "panic".to_string(),
        Ok(v) => {
            LAST_INTS.with(|l| *l.borrow_mut() = Some(v.clone()));
            if has_bool {
                format!("len:{}", v.len())
            } else {
                ints_str(&v)
            }
        }
    }
}

const BIG: usize = 1 << 16;

thread_local! {
    /// capacity of the buffer `enc_bytes` encodes into
    static ENC_CAP: std::cell::Cell<usize> = std::cell::Cell::new(BIG);
}

thread_local! {
    /// the words of the last `enc_ints` (for the oracle, which also looks at `bool` objects)
    static LAST_INTS: std::cell::RefCell<Option<Vec<i32>>> = std::cell::RefCell::new(None);
}

mod gen {
    include!("gen_gamenet_table.rs");
}

fn ename(e: &Error) -> &'static str {
    match e {
        Error::ControlCharacters => "ControlCharacters",
        Error::IntOutOfRange => "IntOutOfRange",
        Error::InvalidIntString => "InvalidIntString",
        Error::UnexpectedEnd => "UnexpectedEnd",
        Error::UnknownId => "UnknownId",
    }
}

fn wname(w: &Warning) -> String {
    match w {
        Warning::OverlongIntEncoding => "OverlongIntEncoding",
        Warning::NonZeroIntPadding => "NonZeroIntPadding",
        Warning::ExcessData => "ExcessData",
    }
    .to_string()
}

/// Result of one decode (+ re-encode) on the implementation.
enum Dec {
    Panic,
    Err(&'static str, Vec<Warning>),
    /// kind:name, value, warnings, re-encoded
    Ok(String, String, Vec<Warning>, String),
}

impl Dec {
    fn line(&self) -> String {
        match self {
            Dec::Panic => "panic".to_string(),
            Dec::Err(e, ws) => format!("err {} {}", e, list_str(ws.iter().map(wname))),
            Dec::Ok(n, v, ws, enc) => format!("ok {} {} {} enc:{}", n, v, list_str(ws.iter().map(wname)), enc),
        }
    }
}

enum ODec {
    Panic,
    Err(&'static str),
    /// name, value, excess, printed re-encoding, the words (None = panic)
    Ok(String, String, bool, String, Option<Vec<i32>>),
}

impl ODec {
    fn line(&self) -> String {
        match self {
            ODec::Panic => "panic".to_string(),
            ODec::Err(e) => format!("err {}", e),
            ODec::Ok(n, v, ex, enc, _) => format!("ok obj:{} {} {} enc:{}", n, v, if *ex { "excess" } else { "clean" }, enc),
        }
    }
}

struct Proto {
    name: &'static str,
    system: &'static [D],
    game: &'static [D],
    connless: &'static [D],
    objects: &'static [D],
    msg: fn(&[u8]) -> Dec,
    cl: fn(&[u8]) -> Dec,
    obj: fn(TypeId, &[i32]) -> ODec,
    size: fn(u16) -> Option<u32>,
    build_system: fn(&str, &V) -> Option<String>,
    build_game: fn(&str, &V) -> Option<String>,
    build_connless: fn(&str, &V) -> Option<String>,
    build_obj: fn(&str, &V) -> Option<String>,
}

macro_rules! proto_impl {
    ($modname:ident, $g:ident, $k:ident, $pname:expr) => {
        mod $modname {
            use super::*;
            use $k as k;
            pub fn msg(bs: &[u8]) -> Dec {
                let r = catch(|| {
                    let mut ws: Vec<Warning> = vec![];
                    let mut u = Unpacker::new(bs);
                    match k::msg::decode(&mut ws, &mut u) {
                        Err(e) => Dec::Err(ename(&e), ws),
                        Ok(m) => {
                            let mut s = String::new();
                            let (kind, name, enc) = match &m {
                                SystemOrGame::System(m) => {
                                    let n = gen::$g::print_system(m, &mut s);
                                    ("sys", n, enc_bytes(|p| m.encode(p)))
                                }
                                SystemOrGame::Game(m) => {
                                    let n = gen::$g::print_game(m, &mut s);
                                    ("game", n, enc_bytes(|p| m.encode(p)))
                                }
                            };
                            Dec::Ok(format!("{}:{}", kind, name), s, ws, enc)
                        }
                    }
                });
                r.unwrap_or(Dec::Panic)
            }
            pub fn cl(bs: &[u8]) -> Dec {
                let r = catch(|| {
                    let mut ws: Vec<Warning> = vec![];
                    let mut u = Unpacker::new(bs);
                    match k::msg::Connless::decode(&mut ws, &mut u) {
                        Err(e) => Dec::Err(ename(&e), ws),
                        Ok(m) => {
                            let mut s = String::new();
                            let n = gen::$g::print_connless(&m, &mut s);
                            let enc = enc_bytes(|p| m.encode(p));
                            Dec::Ok(format!("cl:{}", n), s, ws, enc)
                        }
                    }
                });
                r.unwrap_or(Dec::Panic)
            }
            pub fn obj(id: TypeId, ints: &[i32]) -> ODec {
                let r = catch(|| {
                    let mut ws: Vec<ExcessData> = vec![];
                    let mut u = IntUnpacker::new(ints);
                    match k::SnapObj::decode_obj(&mut ws, id, &mut u) {
                        Err(e) => ODec::Err(ename(&e)),
                        Ok(m) => {
                            let mut s = String::new();
                            let n = gen::$g::print_obj(&m, &mut s);
                            let hb = gen::$g::OBJECTS.iter().find(|d| d.name == n).map(|d| d.members.iter().any(t_has_bool)).unwrap_or(false);
                            LAST_INTS.with(|l| *l.borrow_mut() = None);
                            let enc = enc_ints(|| m.encode().to_vec(), hb);
                            let words = LAST_INTS.with(|l| l.borrow_mut().take());
                            ODec::Ok(n.to_string(), s, !ws.is_empty(), enc, words)
                        }
                    }
                });
                r.unwrap_or(ODec::Panic)
            }
            pub fn size(t: u16) -> Option<u32> {
                k::snap_obj::obj_size(t)
            }
            pub fn proto() -> Proto {
                Proto {
                    name: $pname,
                    system: gen::$g::SYSTEM,
                    game: gen::$g::GAME,
                    connless: gen::$g::CONNLESS,
                    objects: gen::$g::OBJECTS,
                    msg,
                    cl,
                    obj,
                    size,
                    build_system: gen::$g::build_system,
                    build_game: gen::$g::build_game,
                    build_connless: gen::$g::build_connless,
                    build_obj: gen::$g::build_obj,
                }
            }
        }
    };
}

proto_impl!(p_tw05, tw05, libtw2_gamenet_teeworlds_0_5, "tw05");
proto_impl!(p_tw06, tw06, libtw2_gamenet_teeworlds_0_6, "tw06");
proto_impl!(p_tw07, tw07, libtw2_gamenet_teeworlds_0_7, "tw07");
proto_impl!(p_ddnet, ddnet, libtw2_gamenet_ddnet, "ddnet");

fn protos() -> Vec<Proto> {
    vec![p_tw05::proto(), p_tw06::proto(), p_tw07::proto(), p_ddnet::proto()]
}

fn parse_ints(s: &str) -> Option<Vec<i32>> {
    if s == "-" {
        return Some(vec![]);
    }
    s.split(',').map(|x| x.parse::<i32>().ok()).collect()
}

fn parse_type_id(s: &str) -> Option<TypeId> {
    if let Some(h) = s.strip_prefix("u:") {
        let b = parse_hex(h)?;
        Some(TypeId::Uuid(uuid::Uuid::from_slice(&b).ok()?))
    } else {
        Some(TypeId::Ordinal(s.parse::<u16>().ok()?))
    }
}

// ---------------------------------------------------------------------------------------------
// runner + property oracle

struct R {
    protos: Vec<Proto>,
}

impl R {
    fn proto(&self, n: &str) -> Option<&Proto> {
        self.protos.iter().find(|p| p.name == n)
    }

    /// C14 on one byte-encoded message.  `expect`: `c` = canonical bytes built from the description
    /// (must decode without warnings and re-encode to the same bytes), `v:<Error>` = bytes that
    /// violate a described constraint (must be rejected with that error), `-` = none.
    fn oracle_bytes(&self, dec_again: fn(&[u8]) -> Dec, d: &Dec, input: &str, expect: &str, o: &mut Oracle) {
        // `c=<value>`: canonical bytes, built by the generator from exactly these member values
        let (expect, built_from) = match expect.strip_prefix("c=") {
            Some(v) => ("c", Some(v)),
            None => (expect, None),
        };
        if let (Some(want), Dec::Ok(name, val, _, _)) = (built_from, d) {
            if want != val {
                o.fail("C14/decoded-fields-differ-from-description", format!("bytes={} {} decoded={} built-from={}", input, name, val, want));
            } else {
                o.count("decoded_fields_compared");
            }
        }
        match d {
            Dec::Panic => o.fail("C14/decode-panics", format!("bytes={}", input)),
            Dec::Err(e, _) => {
                if expect == "c" {
                    o.fail("C14/canonical-rejected", format!("bytes={} error={}", input, e));
                } else if let Some(want) = expect.strip_prefix("v:") {
                    if want != *e {
                        o.fail("C14/violation-wrong-error", format!("bytes={} error={} expected={}", input, e, want));
                    }
                }
            }
            Dec::Ok(name, val, ws, enc) => {
                if expect.starts_with("v:") {
                    o.fail("C14/violation-accepted", format!("bytes={} {} decoded={} expected={}", input, name, val, expect));
                }
                let absent = val.contains(",n") || val.contains("[n");
                if enc == "panic" {
                    if absent {
                        // description-conformant message with an optional member absent
                        o.fail("C14/reencode-absent-optional-panics", format!("bytes={} {} decoded={}", input, name, val));
                    } else {
                        o.fail("C14/reencode-panics", format!("bytes={} {} decoded={}", input, name, val));
                    }
                } else if enc == "capacity" {
                    o.fail("C14/reencode-capacity", format!("bytes={} {}", input, name));
                } else {
                    if expect == "c" && (!ws.is_empty() || enc != input) {
                        o.fail("C14/canonical-roundtrip", format!("bytes={} {} decoded={} warnings={} reencoded={}", input, name, val, ws.len(), enc));
                    }
                    if ws.is_empty() && enc != input {
                        // clean decode of non-canonical bytes: what is written back must mean the same
                        o.count("clean_noncanonical");
                        // ... and the message id is never among the non-canonical parts: an id
                        // that is not the described one (`ordinal << 1 | sys`, or 0/1 + UUID) is
                        // rejected or at least warned about, so a warning-free decode re-encodes
                        // to the same leading id byte
                        if input.len() >= 2 && enc.len() >= 2 && input[..2] != enc[..2] {
                            o.fail("C14/undescribed-id-accepted", format!("bytes={} {} decoded={} reencoded={}", input, name, val, enc));
                        }
                    }
                    if enc != input {
                        match dec_again(&parse_hex(enc).unwrap()) {
                            Dec::Ok(n2, v2, ws2, enc2) if n2 == *name && v2 == *val && ws2.is_empty() && enc2 == *enc => {}
                            other => o.fail("C14/reencode-not-stable", format!("bytes={} {} decoded={} reencoded={} second={}", input, name, val, enc, other.line())),
                        }
                    }
                }
                if ws.is_empty() {
                    o.count("decoded_clean");
                } else {
                    o.count("decoded_with_warnings");
                }
            }
        }
    }

    fn oracle_obj(&self, d: &ODec, ints: &[i32], expect: &str, has_bool: bool, o: &mut Oracle) {
        let (expect, built_from) = match expect.strip_prefix("c=") {
            Some(v) => ("c", Some(v)),
            None => (expect, None),
        };
        if let (Some(want), ODec::Ok(name, val, ..)) = (built_from, d) {
            if want != val {
                o.fail("C14/decoded-fields-differ-from-description", format!("ints={} obj:{} decoded={} built-from={}", ints_str(ints), name, val, want));
            } else {
                o.count("decoded_fields_compared");
            }
        }
        match d {
            ODec::Panic => o.fail("C14/decode-panics", format!("ints={}", ints_str(ints))),
            ODec::Err(e) => {
                if expect == "c" {
                    o.fail("C14/canonical-rejected", format!("ints={} error={}", ints_str(ints), e));
                } else if let Some(want) = expect.strip_prefix("v:") {
                    if want != *e {
                        o.fail("C14/violation-wrong-error", format!("ints={} error={} expected={}", ints_str(ints), e, want));
                    }
                }
            }
            ODec::Ok(name, val, excess, _, words) => {
                if expect.starts_with("v:") {
                    o.fail("C14/violation-accepted", format!("ints={} obj:{} decoded={} expected={}", ints_str(ints), name, val, expect));
                }
                match words {
                    None => o.fail("C14/reencode-panics", format!("ints={} obj:{} decoded={}", ints_str(ints), name, val)),
                    Some(w) => {
                        // "re-exposed as the same words": the words that were consumed
                        let consumed = if *excess { &ints[..ints.len().min(w.len())] } else { ints };
                        if &w[..] != consumed && (expect == "c" || !*excess) {
                            if has_bool {
                                o.fail("C14/obj-bool-words-not-reexposed", format!("ints={} obj:{} words={}", ints_str(ints), name, ints_str(w)));
                            } else {
                                o.fail("C14/obj-words-not-reexposed", format!("ints={} obj:{} words={}", ints_str(ints), name, ints_str(w)));
                            }
                        }
                    }
                }
                if expect == "c" && *excess {
                    o.fail("C14/canonical-roundtrip", format!("ints={} obj:{} excess data", ints_str(ints), name));
                }
            }
        }
    }

    fn run_inner(&mut self, t: &[&str], o: &mut Oracle) -> String {
        match t {
            ["codec", p, rest @ ..] => {
                o.count(&format!("codecs_exercised_{}", p));
                let mut v = vec![rest[0], *p];
                v.extend_from_slice(&rest[1..]);
                self.run_inner(&v, o)
            }
            ["msg", p, h, rest @ ..] | ["cl", p, h, rest @ ..] => {
                let pr = match self.proto(p) {
                    Some(x) => x,
                    None => return "bad-op".to_string(),
                };
                let bs = match parse_hex(h) {
                    Some(b) => b,
                    None => return "bad-op".to_string(),
                };
                let f = if t[0] == "msg" { pr.msg } else { pr.cl };
                let d = f(&bs);
                let expect = rest.first().copied().unwrap_or("-");
                self.oracle_bytes(f, &d, h, expect, o);
                d.line()
            }
            ["obj", p, id, ints, rest @ ..] => {
                let pr = match self.proto(p) {
                    Some(x) => x,
                    None => return "bad-op".to_string(),
                };
                let (tid, xs) = match (parse_type_id(id), parse_ints(ints)) {
                    (Some(a), Some(b)) => (a, b),
                    _ => return "bad-op".to_string(),
                };
                let d = (pr.obj)(tid, &xs);
                let expect = rest.first().copied().unwrap_or("-");
                let hb = match &d {
                    ODec::Ok(n, ..) => pr.objects.iter().find(|d| d.name == n).map(|d| d.members.iter().any(t_has_bool)).unwrap_or(false),
                    _ => false,
                };
                self.oracle_obj(&d, &xs, expect, hb, o);
                // obj_size agrees with what the decoder consumes
                if let (TypeId::Ordinal(n), ODec::Ok(name, _, excess, _, _)) = (tid, &d) {
                    let sz = (pr.size)(n);
                    if !*excess && sz != Some(xs.len() as u32) {
                        o.fail("C14/obj-size-mismatch", format!("obj:{} obj_size={:?} consumed={}", name, sz, xs.len()));
                    }
                }
                d.line()
            }
            ["hbody", p, op, pre, len] => {
                let pr = match self.proto(p) {
                    Some(x) => x,
                    None => return "bad-op".to_string(),
                };
                let (pre, len) = match (parse_hex(pre), len.parse::<u32>()) {
                    (Some(a), Ok(b)) if b <= 3 => (a, b),
                    _ => return "bad-op".to_string(),
                };
                let f = if *op == "msg" { pr.msg } else { pr.cl };
                let total = 256u64.pow(len);
                let mut h = FNV_OFFSET;
                let mut bytes = pre.clone();
                bytes.resize(pre.len() + len as usize, 0);
                for k in 0..total {
                    for j in 0..len as usize {
                        bytes[pre.len() + j] = (k / 256u64.pow(len - 1 - j as u32)) as u8;
                    }
                    let d = f(&bytes);
                    self.oracle_bytes(f, &d, &to_hex(&bytes), "-", o);
                    h = fnv_bytes(h, d.line().as_bytes());
                    h = fnv_byte(h, 10);
                }
                o.add("bodies_swept", total);
                format!("h {}", h)
            }
            ["hobjpos", p, id, base, pos, lo, hi] => {
                let pr = match self.proto(p) {
                    Some(x) => x,
                    None => return "bad-op".to_string(),
                };
                let (tid, base, pos, lo, hi) = match (parse_type_id(id), parse_ints(base), pos.parse::<usize>(), lo.parse::<i32>(), hi.parse::<i32>()) {
                    (Some(a), Some(b), Ok(c), Ok(d), Ok(e)) if c < b.len() => (a, b, c, d, e),
                    _ => return "bad-op".to_string(),
                };
                let mut h = FNV_OFFSET;
                let mut xs = base.clone();
                for v in lo..=hi {
                    xs[pos] = v;
                    let d = (pr.obj)(tid, &xs);
                    let hb = match &d {
                        ODec::Ok(n, ..) => pr.objects.iter().find(|d| d.name == n).map(|d| d.members.iter().any(t_has_bool)).unwrap_or(false),
                        _ => false,
                    };
                    self.oracle_obj(&d, &xs, "-", hb, o);
                    h = fnv_bytes(h, d.line().as_bytes());
                    h = fnv_byte(h, 10);
                }
                o.add("object_fields_swept", (hi as i64 - lo as i64 + 1).max(0) as u64);
                format!("h {}", h)
            }
            ["size", p, n] => {
                let pr = match self.proto(p) {
                    Some(x) => x,
                    None => return "bad-op".to_string(),
                };
                match n.parse::<u16>() {
                    Ok(n) => match (pr.size)(n) {
                        Some(k) => k.to_string(),
                        None => "none".to_string(),
                    },
                    Err(_) => "bad-op".to_string(),
                }
            }
            ["bmsg", p, kind, name, val, cap] => self.run_cap(false, p, kind, name, val, cap, o),
            ["bcl", p, name, val, cap] => self.run_cap(true, p, "-", name, val, cap, o),
            ["bmsg", p, kind, name, val] => {
                let pr = match self.proto(p) {
                    Some(x) => x,
                    None => return "bad-op".to_string(),
                };
                let v = match parse_value(val) {
                    Some(v) => v,
                    None => return "bad-op".to_string(),
                };
                let (tab, f) = if *kind == "sys" { (pr.system, pr.build_system) } else { (pr.game, pr.build_game) };
                if !tab.iter().any(|d| d.name == *name) {
                    return "bad-op".to_string();
                }
                let r = f(name, &v).unwrap_or_else(|| "bad-value".to_string());
                self.oracle_built(pr.msg, &r, &format!("{}:{}", kind, name), val, o);
                r
            }
            ["bcl", p, name, val] => {
                let pr = match self.proto(p) {
                    Some(x) => x,
                    None => return "bad-op".to_string(),
                };
                let v = match parse_value(val) {
                    Some(v) => v,
                    None => return "bad-op".to_string(),
                };
                if !pr.connless.iter().any(|d| d.name == *name) {
                    return "bad-op".to_string();
                }
                let r = (pr.build_connless)(name, &v).unwrap_or_else(|| "bad-value".to_string());
                self.oracle_built(pr.cl, &r, &format!("cl:{}", name), val, o);
                r
            }
            ["bobj", p, name, val] => {
                let pr = match self.proto(p) {
                    Some(x) => x,
                    None => return "bad-op".to_string(),
                };
                let v = match parse_value(val) {
                    Some(v) => v,
                    None => return "bad-op".to_string(),
                };
                let d = match pr.objects.iter().find(|d| d.name == *name) {
                    Some(d) => d,
                    None => return "bad-op".to_string(),
                };
                LAST_INTS.with(|l| *l.borrow_mut() = None);
                let r = (pr.build_obj)(name, &v).unwrap_or_else(|| "bad-value".to_string());
                // an encoded object decodes to the value it was built from
                if let Some(w) = LAST_INTS.with(|l| l.borrow_mut().take()) {
                    if !d.members.iter().any(t_has_bool) {
                        let tid = match d.id {
                            Id::Ord(n) => TypeId::Ordinal(n as u16),
                            Id::Uuid(u) => TypeId::Uuid(uuid::Uuid::from_bytes(u)),
                            Id::Conn(_) => unreachable!(),
                        };
                        match (pr.obj)(tid, &w) {
                            ODec::Ok(n2, v2, false, _, _) if n2 == *name && v2 == *val => {}
                            other => o.fail("C14/encode-decode-roundtrip", format!("obj:{} value={} words={} decoded={}", name, val, ints_str(&w), other.line())),
                        }
                    }
                }
                r
            }
            _ => "bad-op".to_string(),
        }
    }

    /// `encode` into a buffer of exactly `cap` bytes
    fn run_cap(&self, is_cl: bool, p: &str, kind: &str, name: &str, val: &str, cap: &str, o: &mut Oracle) -> String {
        let pr = match self.proto(p) {
            Some(x) => x,
            None => return "bad-op".to_string(),
        };
        let (v, cap) = match (parse_value(val), cap.parse::<usize>()) {
            (Some(v), Ok(c)) if c <= BIG => (v, c),
            _ => return "bad-op".to_string(),
        };
        let (tab, f) = if is_cl {
            (pr.connless, pr.build_connless)
        } else if kind == "sys" {
            (pr.system, pr.build_system)
        } else {
            (pr.game, pr.build_game)
        };
        if !tab.iter().any(|d| d.name == name) {
            return "bad-op".to_string();
        }
        ENC_CAP.with(|c| c.set(cap));
        let r = f(name, &v).unwrap_or_else(|| "bad-value".to_string());
        ENC_CAP.with(|c| c.set(BIG));
        // oracle: against the encoding into a large buffer
        let full = f(name, &v).unwrap_or_else(|| "bad-value".to_string());
        o.count("encoded_with_capacity");
        if let Some(fb) = parse_hex(&full) {
            // an encodable value: written completely iff it fits, never a panic
            let want = if fb.len() <= cap { full.clone() } else { "capacity".to_string() };
            if r != want {
                o.fail("C14/encode-capacity", format!("{} value={} cap={} result={} full={}", name, val, cap, r, full));
            }
        } else if full == "panic" && r != "panic" && r != "capacity" {
            o.fail("C14/encode-capacity", format!("{} value={} cap={} result={} full=panic", name, val, cap, r));
        }
        r
    }

    /// an encoded value decodes to the value it was built from, without warnings
    fn oracle_built(&self, dec: fn(&[u8]) -> Dec, r: &str, name: &str, val: &str, o: &mut Oracle) {
        if r == "panic" || r == "bad-value" || r == "capacity" {
            o.count(&format!("built_{}", r));
            return;
        }
        o.count("built_ok");
        match dec(&parse_hex(r).unwrap()) {
            Dec::Ok(n2, v2, ws, enc2) if n2 == name && v2 == val && ws.is_empty() && enc2 == r => {}
            other => o.fail("C14/encode-decode-roundtrip", format!("{} value={} encoded={} decoded={}", name, val, r, other.line())),
        }
    }
}

impl Runner for R {
    fn run(&mut self, t: &[&str], o: &mut Oracle) -> String {
        self.run_inner(t, o)
    }
}

// ---------------------------------------------------------------------------------------------
// request generator: type-directed from the description tables

fn write_int(v: i32) -> Vec<u8> {
    let mut buf = [0u8; 16];
    with_packer(&mut buf[..], |mut p| {
        p.write_int(v).unwrap();
        p.written()
    })
    .to_vec()
}

/// One candidate encoding of a member (or member list).
#[derive(Clone, Debug)]
struct Cand {
    /// message encoding
    wire: Vec<u8>,
    /// integer encoding (snapshot objects)
    ints: Vec<i32>,
    /// the value, if the Rust field type can hold it
    val: Option<String>,
    /// the error the description demands for it, if it violates a constraint
    viol: Option<&'static str>,
    /// produced by the canonical encoding of a valid value
    canon: bool,
    /// an absent optional member
    absent: bool,
}

impl Cand {
    fn ok(wire: Vec<u8>, ints: Vec<i32>, val: String) -> Cand {
        Cand { wire, ints, val: Some(val), viol: None, canon: true, absent: false }
    }
}

fn int_cand(v: i32, valid: bool, val: Option<String>) -> Cand {
    Cand { wire: write_int(v), ints: vec![v], val, viol: if valid { None } else { Some("IntOutOfRange") }, canon: valid, absent: false }
}

fn hexs(b: &[u8]) -> String {
    format!("x{}", to_hex(b))
}

const INTS: &[i32] = &[0, 1, -1, 2, 63, 64, -64, -65, 8191, 8192, -8193, 1 << 20, i32::MIN, i32::MAX, i32::MIN + 1, i32::MAX - 1];

fn cands(t: &T, rng: &mut Rng, last: bool) -> Vec<Cand> {
    let mut out = vec![];
    match t {
        T::Int(min, max) => {
            let mut vs: Vec<i64> = INTS.iter().map(|&x| x as i64).collect();
            vs.push(rng.next() as i32 as i64);
            for b in [min, max].iter().copied().flatten() {
                for d in [-1i64, 0, 1] {
                    vs.push(*b as i64 + d);
                }
            }
            vs.sort();
            vs.dedup();
            // a valid value first (the baseline)
            let base = match (min, max) {
                (Some(a), _) => *a as i64,
                (None, Some(b)) => *b as i64,
                _ => 0,
            };
            vs.retain(|&v| v != base);
            vs.insert(0, base);
            for v in vs {
                if v < i32::MIN as i64 || v > i32::MAX as i64 {
                    continue;
                }
                let v = v as i32;
                let valid = min.map_or(true, |m| m <= v) && max.map_or(true, |m| v <= m);
                out.push(int_cand(v, valid, Some(format!("i{}", v))));
            }
            // non-canonical encodings of the baseline value
            if base == 0 {
                out.push(Cand { wire: vec![0x80, 0x00], ints: vec![], val: None, viol: None, canon: false, absent: false });
                out.push(Cand { wire: vec![0x80, 0x80, 0x80, 0x80, 0x20], ints: vec![], val: None, viol: None, canon: false, absent: false });
                out.push(Cand { wire: vec![0x80, 0x80, 0x80, 0x80, 0x00], ints: vec![], val: None, viol: None, canon: false, absent: false });
            }
        }
        T::Bool => {
            out.push(int_cand(0, true, Some("f".into())));
            out.push(int_cand(1, true, Some("t".into())));
            for v in [-1, 2, i32::MIN, i32::MAX, 256] {
                out.push(int_cand(v, false, None));
            }
        }
        T::Enum(lo, n) => {
            for v in *lo..*lo + *n as i32 {
                out.push(int_cand(v, true, Some(format!("i{}", v))));
            }
            for v in [*lo - 1, *lo + *n as i32, i32::MIN, i32::MAX] {
                out.push(int_cand(v, false, Some(format!("i{}", v))));
            }
        }
        T::Flags(mask) => {
            let mut vs: Vec<i32> = vec![0, *mask as u32 as i32];
            for b in 0..32 {
                if mask >> b & 1 == 1 {
                    vs.push((1u32 << b) as i32);
                }
            }
            // undefined bits: the generator does not constrain flags (DESIGN.md Appendix C)
            vs.push(((*mask + 1) & 0x7fff_ffff) as i32);
            vs.push(-1);
            vs.push(i32::MAX);
            vs.dedup();
            for v in vs {
                out.push(int_cand(v, true, Some(format!("i{}", v))));
            }
        }
        T::Tick | T::Tune => {
            for v in [0, 1, -1, 100, i32::MIN, i32::MAX, rng.next() as i32] {
                out.push(int_cand(v, true, Some(format!("i{}", v))));
            }
        }
        T::Str(strict) => {
            let long: Vec<u8> = (0..300).map(|i| b'a' + (i % 26) as u8).collect();
            let strs: Vec<Vec<u8>> = vec![
                b"abc".to_vec(),
                vec![],
                b" ".to_vec(),
                long,
                vec![0x20, 0x7f, 0x80, 0xff, 0xc3, 0xa4],
                vec![0x1f],
                vec![b'a', 0x01, b'b'],
                b"line\nbreak".to_vec(),
                b"tab\there".to_vec(),
                vec![b'x'; 1 + rng.below(40) as usize],
            ];
            for s in strs {
                let bad = *strict && s.iter().any(|&b| b < 32);
                let mut w = s.clone();
                w.push(0);
                out.push(Cand { wire: w, ints: vec![], val: Some(hexs(&s)), viol: if bad { Some("ControlCharacters") } else { None }, canon: !bad, absent: false });
            }
            if last {
                // missing terminator
                out.push(Cand { wire: b"abc".to_vec(), ints: vec![], val: None, viol: Some("UnexpectedEnd"), canon: false, absent: false });
            }
        }
        T::IntStr => {
            for v in [0i32, 42, -1, 7, i32::MAX, i32::MIN, 1000000] {
                let mut w = v.to_string().into_bytes();
                w.push(0);
                out.push(Cand::ok(w, vec![], format!("i{}", v)));
            }
            for s in ["+5", "007", "-0", "-007", "+0", "0000000000000000000000001"] {
                let mut w = s.as_bytes().to_vec();
                w.push(0);
                out.push(Cand { wire: w, ints: vec![], val: None, viol: None, canon: false, absent: false });
            }
            let bad: Vec<Vec<u8>> = vec![
                b"".to_vec(), b"-".to_vec(), b"+".to_vec(), b"2147483648".to_vec(), b"-2147483649".to_vec(), b"1a".to_vec(),
                b" 1".to_vec(), b"1 ".to_vec(), vec![0xff], vec![0xd9, 0xa3], b"99999999999999999999".to_vec(), b"--1".to_vec(),
                b"+-1".to_vec(), b"0x10".to_vec(), b"1.0".to_vec(),
            ];
            for s in bad {
                let mut w = s.clone();
                w.push(0);
                out.push(Cand { wire: w, ints: vec![], val: None, viol: Some("InvalidIntString"), canon: false, absent: false });
            }
        }
        T::Data => {
            for n in [3usize, 0, 1, 63, 64, 300] {
                let d = rng.bytes(n);
                let mut w = write_int(n as i32);
                w.extend_from_slice(&d);
                out.push(Cand::ok(w, vec![], hexs(&d)));
            }
            out.push(Cand { wire: write_int(-1), ints: vec![], val: None, viol: Some("UnexpectedEnd"), canon: false, absent: false });
            if last {
                let mut w = write_int(5);
                w.extend_from_slice(&[1, 2]);
                out.push(Cand { wire: w, ints: vec![], val: None, viol: Some("UnexpectedEnd"), canon: false, absent: false });
            }
        }
        T::Rest | T::Clients => {
            for n in [4usize, 0, 1, 100] {
                let d = rng.bytes(n);
                out.push(Cand { wire: d.clone(), ints: vec![], val: Some(hexs(&d)), viol: None, canon: last, absent: false });
            }
        }
        T::Raw(n) => {
            for k in 0..3 {
                let d = if k == 1 { vec![0u8; *n] } else { rng.bytes(*n) };
                out.push(Cand::ok(d.clone(), vec![], hexs(&d)));
            }
        }
        T::Be16 => {
            for v in [258u16, 0, 1, 63, 64, 127, 128, 255, 256, 32767, 32768, 65535] {
                out.push(Cand::ok(v.to_be_bytes().to_vec(), vec![], format!("i{}", v)));
            }
        }
        T::U8 => {
            for v in [7u8, 0, 1, 63, 64, 127, 128, 255] {
                out.push(Cand::ok(vec![v], vec![], format!("i{}", v)));
            }
        }
        T::Addrs => {
            for n in [18usize, 0, 36, 180] {
                let d = rng.bytes(n);
                out.push(Cand { wire: d.clone(), ints: vec![], val: Some(hexs(&d)), viol: None, canon: last, absent: false });
            }
            for n in [1usize, 17, 19, 35] {
                let d = rng.bytes(n);
                out.push(Cand { wire: d, ints: vec![], val: None, viol: None, canon: false, absent: false });
            }
        }
        T::TwStr(n) => {
            for k in 0..4 {
                let xs: Vec<i32> = (0..*n)
                    .map(|i| match k {
                        0 => i as i32,
                        1 => i32::MIN,
                        2 => i32::MAX,
                        _ => rng.next() as i32,
                    })
                    .collect();
                let w: Vec<u8> = xs.iter().flat_map(|&x| write_int(x)).collect();
                out.push(Cand::ok(w, xs.clone(), format!("[{}]", xs.iter().map(|x| format!("i{}", x)).collect::<Vec<_>>().join(","))));
            }
        }
        T::Opt(inner) => {
            for mut c in cands(inner, rng, last) {
                c.val = c.val.map(|v| format!("s({})", v));
                // an error of the inner read makes the member absent instead of failing
                if c.viol.is_some() {
                    c.viol = None;
                    c.canon = false;
                }
                out.push(c);
            }
            out.push(Cand { wire: vec![], ints: vec![], val: Some("n".into()), viol: None, canon: true, absent: true });
        }
        T::Arr(n, inner) => {
            let ic = cands(inner, rng, false);
            let base = ic[0].clone();
            let mut combos: Vec<Vec<Cand>> = vec![vec![base.clone(); *n]];
            let mut pos = vec![0usize, *n - 1, *n / 2];
            pos.dedup();
            for &p in &pos {
                for c in &ic[1..] {
                    let mut v = vec![base.clone(); *n];
                    v[p] = c.clone();
                    combos.push(v);
                }
            }
            for _ in 0..3 {
                combos.push((0..*n).map(|_| rng.pick(&ic).clone()).collect());
            }
            for v in combos {
                out.push(join(&v));
            }
        }
        T::Obj(ms) => {
            out = sweep(ms, rng, last, 2);
        }
    }
    out
}

/// concatenation of member candidates into one candidate for the list
fn join(v: &[Cand]) -> Cand {
    let mut wire = vec![];
    let mut ints = vec![];
    let mut vals = vec![];
    let mut all = true;
    for c in v {
        wire.extend_from_slice(&c.wire);
        ints.extend_from_slice(&c.ints);
        match &c.val {
            Some(s) => vals.push(s.clone()),
            None => all = false,
        }
    }
    Cand {
        wire,
        ints,
        val: if all { Some(format!("[{}]", vals.join(","))) } else { None },
        viol: v.iter().find_map(|c| c.viol),
        canon: v.iter().all(|c| c.canon),
        absent: false,
    }
}

/// Boundary sweep over a member list: the baseline, every member over all its candidates with the
/// others at their baseline, and some random combinations.
fn sweep(ms: &[T], rng: &mut Rng, last: bool, randoms: usize) -> Vec<Cand> {
    let n = ms.len();
    let all: Vec<Vec<Cand>> = ms.iter().enumerate().map(|(i, t)| cands(t, rng, last && i + 1 == n)).collect();
    let base: Vec<Cand> = all.iter().map(|c| c[0].clone()).collect();
    let absent = Cand { wire: vec![], ints: vec![], val: Some("n".into()), viol: None, canon: true, absent: true };
    let mut out = vec![join(&base)];
    // canonical values that differ from member to member (so that exchanged fields show)
    let distinct: Vec<Cand> = all
        .iter()
        .enumerate()
        .map(|(i, c)| {
            let good: Vec<&Cand> = c.iter().filter(|x| x.canon && !x.absent && x.val.is_some()).collect();
            if good.is_empty() {
                c[0].clone()
            } else {
                good[(i + 1) % good.len()].clone()
            }
        })
        .collect();
    out.push(join(&distinct));
    for i in 0..n {
        for c in &all[i][1..] {
            let mut v = base.clone();
            v[i] = c.clone();
            if c.absent {
                // everything after an absent member is absent as well
                if !ms[i + 1..].iter().all(|t| matches!(t, T::Opt(_))) {
                    continue;
                }
                for x in v[i + 1..].iter_mut() {
                    *x = absent.clone();
                }
            }
            out.push(join(&v));
        }
    }
    for _ in 0..randoms {
        let mut v: Vec<Cand> = all.iter().map(|c| rng.pick(c).clone()).collect();
        if let Some(i) = v.iter().position(|c| c.absent) {
            for x in v[i + 1..].iter_mut() {
                *x = absent.clone();
            }
            if !ms[i + 1..].iter().all(|t| matches!(t, T::Opt(_))) {
                continue;
            }
        }
        out.push(join(&v));
    }
    out
}

fn id_bytes(id: &Id, sys: bool) -> Vec<u8> {
    match id {
        Id::Ord(n) => write_int((n << 1) | sys as i32),
        Id::Uuid(u) => {
            let mut w = write_int(sys as i32);
            w.extend_from_slice(u);
            w
        }
        Id::Conn(c) => c.to_vec(),
    }
}

fn expect_of(c: &Cand) -> String {
    match c.viol {
        Some(e) => format!("v:{}", e),
        None => {
            if c.canon {
                match &c.val {
                    Some(v) => format!("c={}", v),
                    None => "c".to_string(),
                }
            } else {
                "-".to_string()
            }
        }
    }
}

fn obj_id_str(id: &Id) -> String {
    match id {
        Id::Ord(n) => n.to_string(),
        Id::Uuid(u) => format!("u:{}", to_hex(u)),
        Id::Conn(_) => unreachable!(),
    }
}

impl Domain for Dm {
    fn runner(&self) -> Box<dyn Runner> {
        Box::new(R { protos: protos() })
    }
    fn gen(&self, tier: &str, seed: u64, w: &mut dyn Write) {
        let mut rng = Rng::new(seed ^ 0x67616d656e6574);
        let thorough = tier == "thorough";
        // the encode-from-value requests need the typed construction table (struct literals of the
        // crates' types), which ./check drops when it does not build (soft feature)
        let typed = cfg!(feature = "gamenet_typed");
        let randoms = if thorough { 40 } else { 2 };
        let nrand = if thorough { 200 } else { 5 };
        for pr in protos() {
            let p = pr.name;
            // ---- system, game, connless messages
            for (kind, op, bop, tab) in [("sys", "msg", "bmsg", pr.system), ("game", "msg", "bmsg", pr.game), ("cl", "cl", "bcl", pr.connless)] {
                for d in tab {
                    let idb = id_bytes(&d.id, kind == "sys");
                    let cs = sweep(d.members, &mut rng, true, randoms);
                    let bname = if kind == "cl" { d.name.to_string() } else { format!("{} {}", kind, d.name) };
                    for (i, c) in cs.iter().enumerate() {
                        let mut bytes = idb.clone();
                        bytes.extend_from_slice(&c.wire);
                        if i == 0 {
                            // the baseline: canonical bytes of valid values — counts the codec as exercised
                            writeln!(w, "codec {} {} {} {}", p, op, to_hex(&bytes), expect_of(c)).unwrap();
                        } else {
                            writeln!(w, "{} {} {} {}", op, p, to_hex(&bytes), expect_of(c)).unwrap();
                        }
                        if let Some(v) = &c.val {
                            if typed { writeln!(w, "{} {} {} {}", bop, p, bname, v).unwrap(); }
                        }
                    }
                    // truncation at every position, trailing bytes, random tails
                    let mut base = idb.clone();
                    base.extend_from_slice(&cs[0].wire);
                    for k in 0..base.len() {
                        writeln!(w, "{} {} {} -", op, p, to_hex(&base[..k])).unwrap();
                    }
                    if thorough {
                        let c = rng.pick(&cs).clone();
                        let mut b2 = idb.clone();
                        b2.extend_from_slice(&c.wire);
                        for k in 0..b2.len() {
                            writeln!(w, "{} {} {} -", op, p, to_hex(&b2[..k])).unwrap();
                        }
                    }
                    for extra in [vec![0u8], vec![0xff, 0xff], rng.bytes(5)] {
                        let mut b = base.clone();
                        b.extend_from_slice(&extra);
                        writeln!(w, "{} {} {} -", op, p, to_hex(&b)).unwrap();
                    }
                    for _ in 0..nrand {
                        let mut b = idb.clone();
                        let n = rng.below(24) as usize;
                        b.extend(rng.bytes(n));
                        writeln!(w, "{} {} {} -", op, p, to_hex(&b)).unwrap();
                        // structured: a candidate with one byte changed
                        let c = rng.pick(&cs);
                        let mut b = idb.clone();
                        b.extend_from_slice(&c.wire);
                        if !b.is_empty() {
                            let i = rng.below(b.len() as u64) as usize;
                            b[i] ^= 1 << rng.below(8);
                        }
                        writeln!(w, "{} {} {} -", op, p, to_hex(&b)).unwrap();
                    }
                    // exhaustive: every body of 0, 1 (and 2) bytes behind the id
                    for len in 0..=1 {
                        writeln!(w, "hbody {} {} {} {}", p, op, to_hex(&idb), len).unwrap();
                    }
                    if thorough {
                        for b0 in 0..=255u8 {
                            let mut pre = idb.clone();
                            pre.push(b0);
                            writeln!(w, "hbody {} {} {} 1", p, op, to_hex(&pre)).unwrap();
                        }
                    }
                    // every buffer capacity from 0 to one more than needed, for the baseline value and
                    // for a value that violates a constraint (assert vs. CapacityError order)
                    let capname = bname.clone();
                    let mut capvals: Vec<(&Cand, usize)> = vec![(&cs[0], idb.len() + cs[0].wire.len())];
                    if let Some(c) = cs.iter().find(|c| c.viol.is_some() && c.val.is_some()) {
                        capvals.push((c, idb.len() + c.wire.len()));
                    }
                    if thorough {
                        let c = rng.pick(&cs);
                        if c.val.is_some() {
                            capvals.push((c, idb.len() + c.wire.len()));
                        }
                    }
                    for (c, n) in capvals {
                        if let Some(v) = &c.val {
                            let caps: Vec<usize> = if n <= 40 || thorough { (0..=n + 1).collect() } else { vec![0, 1, idb.len(), n / 2, n - 1, n, n + 1] };
                            for cap in caps {
                                if typed { writeln!(w, "{} {} {} {} {}", bop, p, capname, v, cap).unwrap(); }
                            }
                        }
                    }
                    // a string with a NUL inside: `write_string` panics when its turn comes, after the
                    // writes before it (which may already have failed for lack of room)
                    if let Some(i) = d.members.iter().position(|t| matches!(t, T::Str(_))) {
                        let vals: Vec<Option<String>> = d.members.iter().map(|t| cands(t, &mut rng, false)[0].val.clone()).collect();
                        if vals.iter().all(|v| v.is_some()) {
                            let mut vs: Vec<String> = vals.into_iter().map(|v| v.unwrap()).collect();
                            vs[i] = "x610062".to_string();
                            let v = format!("[{}]", vs.join(","));
                            if typed { writeln!(w, "{} {} {} {}", bop, p, bname, v).unwrap(); }
                            for cap in 0..=(idb.len() + 12) {
                                if typed { writeln!(w, "{} {} {} {} {}", bop, p, capname, v, cap).unwrap(); }
                            }
                        }
                    }
                    // values of the wrong shape
                    if typed { writeln!(w, "{} {} {} []", bop, p, bname).unwrap(); }
                    if typed { writeln!(w, "{} {} {} [i0]", bop, p, bname).unwrap(); }
                }
            }
            // ---- message ids: every small id with an empty and a short body, unknown uuids
            for id in -2i32..80 {
                for sys in [0, 1] {
                    let b = write_int((id << 1) | sys);
                    writeln!(w, "msg {} {} -", p, to_hex(&b)).unwrap();
                    let mut b2 = b.clone();
                    b2.extend_from_slice(&[0, 0, 0]);
                    writeln!(w, "msg {} {} -", p, to_hex(&b2)).unwrap();
                }
            }
            for sys in [0u8, 1] {
                let mut b = vec![sys];
                b.extend(rng.bytes(16));
                writeln!(w, "msg {} {} v:UnknownId", p, to_hex(&b)).unwrap();
                writeln!(w, "msg {} {} -", p, to_hex(&b[..9])).unwrap();
                // id 0 with overlong encoding
                let mut b = vec![0x80 | sys, 0x00];
                b.extend(rng.bytes(16));
                writeln!(w, "msg {} {} -", p, to_hex(&b)).unwrap();
            }
            // a known UUID with a valid body behind every small raw id value (also negative ones and
            // overlong encodings): only the raw ids 0 and 1 announce a UUID; anything else that
            // splits into ordinal 0 by a different rounding (e.g. -1 with `/ 2`) must be rejected
            for (kind, tab) in [("sys", pr.system), ("game", pr.game)] {
                for d in tab {
                    if let Id::Uuid(u) = &d.id {
                        let cs = sweep(d.members, &mut rng, true, 0);
                        for raw in -4i32..=4 {
                            let mut encs = vec![write_int(raw)];
                            let first = encs[0][0];
                            encs.push(vec![first | 0x80, 0x00]);
                            for idb in encs {
                                let mut b = idb.clone();
                                b.extend_from_slice(u);
                                b.extend_from_slice(&cs[0].wire);
                                let canon = idb.len() == 1 && raw == (kind == "sys") as i32;
                                if canon {
                                    writeln!(w, "msg {} {} {}", p, to_hex(&b), expect_of(&cs[0])).unwrap();
                                } else {
                                    writeln!(w, "msg {} {} -", p, to_hex(&b)).unwrap();
                                }
                            }
                        }
                    }
                }
            }
            for id in [i32::MAX, i32::MIN, 1 << 30, -(1 << 30), 0x3fff_ffff] {
                writeln!(w, "msg {} {} -", p, to_hex(&write_int(id))).unwrap();
            }
            for _ in 0..(if thorough { 20000 } else { 500 }) {
                let n = rng.below(20) as usize;
                let b = rng.bytes(n);
                writeln!(w, "msg {} {} -", p, to_hex(&b)).unwrap();
                let mut c = vec![0xff, 0xff, 0xff, 0xff];
                c.extend(rng.bytes(n));
                writeln!(w, "cl {} {} -", p, to_hex(&c)).unwrap();
                if n % 4 == 0 {
                    writeln!(w, "cl {} {} -", p, to_hex(&b)).unwrap();
                }
            }
            // ---- snapshot objects
            for d in pr.objects {
                let ids = obj_id_str(&d.id);
                let cs = sweep(d.members, &mut rng, true, randoms);
                for (i, c) in cs.iter().enumerate() {
                    if c.val.is_none() && c.ints.is_empty() && !d.members.is_empty() {
                        continue;
                    }
                    // candidates without an integer encoding (non-canonical byte encodings) are skipped
                    let want: usize = cs[0].ints.len();
                    if c.ints.len() == want {
                        if i == 0 {
                            writeln!(w, "codec {} obj {} {} {}", p, ids, ints_str(&c.ints), expect_of(c)).unwrap();
                        } else {
                            writeln!(w, "obj {} {} {} {}", p, ids, ints_str(&c.ints), expect_of(c)).unwrap();
                        }
                    }
                    if let Some(v) = &c.val {
                        if typed { writeln!(w, "bobj {} {} {}", p, d.name, v).unwrap(); }
                    }
                }
                let base = cs[0].ints.clone();
                for k in 0..base.len() {
                    writeln!(w, "obj {} {} {} v:UnexpectedEnd", p, ids, ints_str(&base[..k])).unwrap();
                }
                let mut b = base.clone();
                b.push(0);
                writeln!(w, "obj {} {} {} -", p, ids, ints_str(&b)).unwrap();
                b.push(rng.next() as i32);
                writeln!(w, "obj {} {} {} -", p, ids, ints_str(&b)).unwrap();
                for _ in 0..nrand {
                    let n = if rng.chance(3, 4) { base.len() } else { rng.below(base.len() as u64 + 3) as usize };
                    let xs: Vec<i32> = (0..n)
                        .map(|_| match rng.below(4) {
                            0 => rng.next() as i32,
                            1 => rng.range(-3, 3) as i32,
                            2 => rng.range(-70, 300) as i32,
                            _ => *rng.pick(INTS),
                        })
                        .collect();
                    writeln!(w, "obj {} {} {} -", p, ids, ints_str(&xs)).unwrap();
                }
                // exhaustive per field: every value of a window around all declared ranges
                let (lo, hi) = if thorough { (-70, 300) } else { (-4, 17) };
                for pos in 0..base.len() {
                    writeln!(w, "hobjpos {} {} {} {} {} {}", p, ids, ints_str(&base), pos, lo, hi).unwrap();
                }
                if typed { writeln!(w, "bobj {} {} []", p, d.name).unwrap(); }
            }
            for id in 0u32..70 {
                writeln!(w, "size {} {}", p, id).unwrap();
                writeln!(w, "obj {} {} - -", p, id).unwrap();
                writeln!(w, "obj {} {} 0,0,0,0,0,0,0,0,0,0,0,0,0,0,0,0,0,0,0,0,0,0,0,0,0,0,0,0,0,0 -", p, id).unwrap();
            }
            for id in [255u32, 256, 32767, 32768, 65535] {
                writeln!(w, "size {} {}", p, id).unwrap();
                writeln!(w, "obj {} {} 0,0 -", p, id).unwrap();
            }
            writeln!(w, "obj {} u:{} 0,0 v:UnknownId", p, to_hex(&rng.bytes(16))).unwrap();
        }
    }
}
