//! Domain `teehist`: the incremental teehistorian reader (`teehistorian/src/raw.rs`,
//! `format/item.rs`) driven through the `libtw2_verif` hook with a callback whose read sizes are
//! chosen by the request.  Property C17.
//!
//!   run  <ver> <header hex> <stream hex> <frag>    canonical item sequence + final result
//!   hash <ver> <header hex> <stream hex> <frag>    FNV-1a of that line
//!   all2 <ver> <header hex> <stream hex>           every two-piece split, folded into one hash
//!
//! `<frag>`: `w` as much as fits per read, `b` byte by byte, `s:<k>` first read k bytes,
//! `l:<n1>,<n2>,…` these read sizes (0 allowed), then as much as fits.
use crate::util::*;
use libtw2_packer::with_packer;
use libtw2_teehistorian::format;
use libtw2_teehistorian::format::item;
use libtw2_teehistorian::verif::Callback;
use libtw2_teehistorian::verif::Error;
use libtw2_teehistorian::verif::Reader;
use libtw2_teehistorian::Buffer;
use libtw2_teehistorian::Item;
use std::collections::BTreeMap;
use std::collections::VecDeque;
use std::io::Write;

pub struct D;

pub fn domain() -> Box<dyn Domain> {
    Box::new(D)
}

// ---------------------------------------------------------------------------------------------
// the callback

/// read size that stands for "the callback fails at this invocation"
const FAIL: usize = usize::MAX;

struct FragCb {
    data: Vec<u8>,
    pos: usize,
    ds: VecDeque<usize>,
    calls: u64,
}

impl Callback for FragCb {
    type Error = ();
    fn read_at_most(&mut self, buffer: &mut [u8]) -> Result<Option<usize>, ()> {
        self.calls += 1;
        let remaining = self.data.len() - self.pos;
        let n = match self.ds.pop_front() {
            Some(FAIL) => return Err(()),
            Some(d) => d.min(buffer.len()).min(remaining),
            None => {
                if remaining == 0 {
                    return Ok(None);
                }
                buffer.len().min(remaining)
            }
        };
        buffer[..n].copy_from_slice(&self.data[self.pos..self.pos + n]);
        self.pos += n;
        Ok(Some(n))
    }
}

// ---------------------------------------------------------------------------------------------
// canonical text

fn fields(name: &str, xs: Vec<String>) -> String {
    format!("{}({})", name, xs.join(";"))
}
fn i(v: i32) -> String {
    v.to_string()
}
fn h(b: &[u8]) -> String {
    to_hex(b)
}

/// Structured view of an output item for the oracle.
#[derive(Clone, Debug, PartialEq)]
enum Ev {
    Start(i32),
    End(i32),
    New(i32, i32, i32),
    Change(i32, i32, i32, i32, i32),
    Old(i32, i32, i32),
    Input(i32, [i32; 10]),
    /// a record passed through unchanged: its canonical text
    Other(String),
}

fn item_str(it: &Item) -> (String, Ev) {
    let (s, ev) = item_str0(it);
    match ev {
        Ev::Other(_) => (s.clone(), Ev::Other(s)),
        ev => (s, ev),
    }
}

fn item_str0(it: &Item) -> (String, Ev) {
    match it {
        Item::TickStart(t) => (fields("TickStart", vec![i(*t)]), Ev::Start(*t)),
        Item::TickEnd(t) => (fields("TickEnd", vec![i(*t)]), Ev::End(*t)),
        Item::PlayerNew(p) => (fields("PlayerNew", vec![i(p.cid), i(p.pos.x), i(p.pos.y)]), Ev::New(p.cid, p.pos.x, p.pos.y)),
        Item::PlayerChange(p) => (
            fields("PlayerChange", vec![i(p.cid), i(p.pos.x), i(p.pos.y), i(p.old_pos.x), i(p.old_pos.y)]),
            Ev::Change(p.cid, p.pos.x, p.pos.y, p.old_pos.x, p.old_pos.y),
        ),
        Item::PlayerOld(p) => (fields("PlayerOld", vec![i(p.cid), i(p.pos.x), i(p.pos.y)]), Ev::Old(p.cid, p.pos.x, p.pos.y)),
        Item::Input(p) => {
            let mut v = vec![i(p.cid)];
            v.extend(p.input.iter().map(|x| i(*x)));
            (fields("Input", v), Ev::Input(p.cid, p.input))
        }
        Item::Message(m) => (fields("Message", vec![i(m.cid), h(m.msg)]), Ev::Other(String::new())),
        Item::Join(m) => (fields("Join", vec![i(m.cid)]), Ev::Other(String::new())),
        Item::Drop(m) => (fields("Drop", vec![i(m.cid), h(m.reason)]), Ev::Other(String::new())),
        Item::ConsoleCommand(m) => {
            let mut v = vec![i(m.cid), m.flag_mask.to_string(), h(m.cmd)];
            v.extend(m.args.iter().map(|a| h(a)));
            (fields("ConsoleCommand", v), Ev::Other(String::new()))
        }
        Item::Antibot(m) => (fields("Antibot", vec![h(m.data)]), Ev::Other(String::new())),
        Item::AuthInit(m) => (fields("AuthInit", vec![i(m.cid), i(m.level), h(m.identity)]), Ev::Other(String::new())),
        Item::AuthLogin(m) => (fields("AuthLogin", vec![i(m.cid), i(m.level), h(m.identity)]), Ev::Other(String::new())),
        Item::AuthLogout(m) => (fields("AuthLogout", vec![i(m.cid)]), Ev::Other(String::new())),
        Item::Ddnetver(m) => (
            fields("Ddnetver", vec![i(m.cid), h(m.connection_id.as_bytes()), i(m.ddnet_version), h(m.ddnet_version_str)]),
            Ev::Other(String::new()),
        ),
        Item::DdnetverOld(m) => (fields("DdnetverOld", vec![i(m.cid), i(m.ddnet_version)]), Ev::Other(String::new())),
        Item::Joinver6(m) => (fields("Joinver6", vec![i(m.cid)]), Ev::Other(String::new())),
        Item::Joinver7(m) => (fields("Joinver7", vec![i(m.cid)]), Ev::Other(String::new())),
        Item::PlayerFinish(m) => (fields("PlayerFinish", vec![i(m.cid), i(m.time_ticks)]), Ev::Other(String::new())),
        Item::PlayerName(m) => (fields("PlayerName", vec![i(m.cid), h(m.name)]), Ev::Other(String::new())),
        Item::PlayerReady(m) => (fields("PlayerReady", vec![i(m.cid)]), Ev::Other(String::new())),
        Item::PlayerRejoin(m) => (fields("PlayerRejoin", vec![i(m.cid)]), Ev::Other(String::new())),
        Item::PlayerSwap(m) => (fields("PlayerSwap", vec![i(m.cid1), i(m.cid2)]), Ev::Other(String::new())),
        Item::PlayerTeam(m) => (fields("PlayerTeam", vec![i(m.cid), i(m.team)]), Ev::Other(String::new())),
        Item::TeamFinish(m) => (fields("TeamFinish", vec![i(m.team), i(m.time_ticks)]), Ev::Other(String::new())),
        Item::TeamLoadFailure(m) => (fields("TeamLoadFailure", vec![i(m.team)]), Ev::Other(String::new())),
        Item::TeamLoadSuccess(m) => (fields("TeamLoadSuccess", vec![i(m.team), h(m.save_uuid.as_bytes()), h(m.save)]), Ev::Other(String::new())),
        Item::TeamPractice(m) => (fields("TeamPractice", vec![i(m.team), i(m.practice)]), Ev::Other(String::new())),
        Item::TeamSaveFailure(m) => (fields("TeamSaveFailure", vec![i(m.team)]), Ev::Other(String::new())),
        Item::TeamSaveSuccess(m) => (fields("TeamSaveSuccess", vec![i(m.team), h(m.save_uuid.as_bytes()), h(m.save)]), Ev::Other(String::new())),
        Item::UnknownEx(m) => (fields("UnknownEx", vec![h(m.uuid.as_bytes()), h(m.data)]), Ev::Other(String::new())),
    }
}

fn err_str(e: &Error<()>) -> String {
    match e {
        Error::Cb(()) => "Cb".to_string(),
        Error::Teehistorian(e) => match e {
            format::Error::Header(_) => "Header".to_string(),
            format::Error::Item(item::Error::UnknownType(v)) => format!("UnknownType:{}", v),
            format::Error::Item(item::Error::NegativeDt) => "NegativeDt".to_string(),
            format::Error::Item(item::Error::NegativeNumArgs) => "NegativeNumArgs".to_string(),
            format::Error::Item(item::Error::NumArgsTooLarge) => "NumArgsTooLarge".to_string(),
            format::Error::UnknownVersion => "UnknownVersion".to_string(),
            format::Error::TickOverflow => "TickOverflow".to_string(),
            format::Error::UnexpectedEnd => "UnexpectedEnd".to_string(),
            format::Error::InvalidClientId => "InvalidClientId".to_string(),
            format::Error::PlayerNewDuplicate => "PlayerNewDuplicate".to_string(),
            format::Error::PlayerDiffWithoutNew => "PlayerDiffWithoutNew".to_string(),
            format::Error::PlayerOldWithoutNew => "PlayerOldWithoutNew".to_string(),
            format::Error::InputNewDuplicate => "InputNewDuplicate".to_string(),
            format::Error::InputDiffWithoutNew => "InputDiffWithoutNew".to_string(),
        },
    }
}

struct Out {
    line: String,
    evs: Vec<Ev>,
    fin: String,
    header_version: Option<i32>,
    /// `Reader::cids().end` after the last call
    cids_end: i32,
    /// `Reader::player_pos` / `Reader::input` after the last call, for the client ids asked for
    final_pos: Vec<(i32, Option<(i32, i32)>)>,
    final_inp: Vec<(i32, Option<[i32; 10]>)>,
    /// first item after which `player_pos` / `input` / `cids` did not show what the item said
    acc_fail: Option<String>,
}

/// The accessors right after an item was returned: the table entry of the item's client id is what
/// the item reports (gone after `PlayerOld`), and `cids()` covers the id.
fn accessors_after(ev: &Ev, pos: &dyn Fn(i32) -> Option<(i32, i32)>, inp: &dyn Fn(i32) -> Option<[i32; 10]>, cids_end: i32) -> Option<String> {
    let (c, ok) = match ev {
        Ev::New(c, x, y) | Ev::Change(c, x, y, _, _) => (*c, pos(*c) == Some((*x, *y))),
        Ev::Old(c, _, _) => (*c, pos(*c).is_none()),
        Ev::Input(c, v) => (*c, inp(*c) == Some(*v)),
        _ => return None,
    };
    if !ok {
        return Some(format!("after {:?}: player_pos({}) = {:?}, input({}) = {:?}", ev, c, pos(c), c, inp(c)));
    }
    if cids_end <= c && c != i32::MAX {
        return Some(format!("after {:?}: cids().end = {}", ev, cids_end));
    }
    None
}

/// Non-negative client ids that occur in the stream's complete records (for the final table queries).
fn cids_of_interest(stream: &[u8], has_ex: bool) -> Vec<i32> {
    let mut v: Vec<i32> = split_records(stream, has_ex)
        .iter()
        .filter_map(|m| match m {
            Msg::Diff(c, _, _) | Msg::New(c, _, _) | Msg::Old(c) | Msg::InputDiff(c, _) | Msg::InputNew(c, _) => Some(*c),
            _ => None,
        })
        .filter(|c| *c >= 0)
        .collect();
    v.sort();
    v.dedup();
    v.truncate(300);
    v
}

/// ` P <cid:x:y,…> I <cid:v0:…:v9,…>`: what `player_pos` / `input` return after the last call for
/// every client id that occurred in an emitted table item (every table entry was created by a
/// `PlayerNew` / `Input` item), ascending; entries that are `None` are left out.
fn access_str(evs: &[Ev], pos: &dyn Fn(i32) -> Option<(i32, i32)>, inp: &dyn Fn(i32) -> Option<[i32; 10]>) -> String {
    let mut cids: Vec<i32> = evs
        .iter()
        .filter_map(|e| match e {
            Ev::New(c, _, _) | Ev::Change(c, _, _, _, _) | Ev::Old(c, _, _) | Ev::Input(c, _) => Some(*c),
            _ => None,
        })
        .filter(|c| *c >= 0)
        .collect();
    cids.sort();
    cids.dedup();
    let ps: Vec<String> = cids.iter().filter_map(|&c| pos(c).map(|(x, y)| format!("{}:{}:{}", c, x, y))).collect();
    let is: Vec<String> = cids
        .iter()
        .filter_map(|&c| inp(c).map(|v| format!("{}:{}", c, v.iter().map(|x| x.to_string()).collect::<Vec<_>>().join(":"))))
        .collect();
    let j = |l: Vec<String>| if l.is_empty() { "-".to_string() } else { l.join(",") };
    format!("P {} I {}", j(ps), j(is))
}

/// Reads header + stream with the given read sizes; `Err` = the reader panicked.
fn read_all(total: &[u8], ds: &[usize]) -> Result<Out, String> {
    read_all_q(total, ds, &[])
}

fn read_all_q(total: &[u8], ds: &[usize], ask: &[i32]) -> Result<Out, String> {
    catch(|| {
        let mut cb = FragCb { data: total.to_vec(), pos: 0, ds: ds.iter().cloned().collect(), calls: 0 };
        let mut buf = Buffer::new();
        let mut evs = vec![];
        let new = match Reader::new(&mut cb, &mut buf) {
            Ok((hd, rd)) => Ok((hd.version, rd)),
            Err(e) => Err(e),
        };
        let (ver, mut rd) = match new {
            Ok(x) => x,
            Err(e) => {
                let fin = format!("err:{}", err_str(&e));
                return Out { line: format!("{} 0 0 - P - I -", fin), evs, fin, header_version: None, cids_end: 0, final_pos: vec![], final_inp: vec![], acc_fail: None };
            }
        };
        let mut items: Vec<String> = vec![];
        let mut acc_fail: Option<String> = None;
        let fin;
        loop {
            match rd.read(&mut cb, &mut buf) {
                Ok(Some(it)) => {
                    let (s, ev) = item_str(&it);
                    if acc_fail.is_none() {
                        acc_fail = accessors_after(&ev, &|c| rd.player_pos(c).map(|p| (p.x, p.y)), &|c| rd.input(c), rd.cids().end);
                    }
                    items.push(s);
                    evs.push(ev);
                }
                Ok(None) => {
                    fin = "end".to_string();
                    break;
                }
                Err(e) => {
                    fin = format!("err:{}", err_str(&e));
                    break;
                }
            }
        }
        let maxcid = rd.cids().end;
        let acc = access_str(&evs, &|c| rd.player_pos(c).map(|p| (p.x, p.y)), &|c| rd.input(c));
        let line = format!("{} {} {} {} {}", fin, maxcid, items.len(), if items.is_empty() { "-".to_string() } else { items.join(" ") }, acc);
        let final_pos = ask.iter().map(|&c| (c, rd.player_pos(c).map(|p| (p.x, p.y)))).collect();
        let final_inp = ask.iter().map(|&c| (c, rd.input(c))).collect();
        Out { line, evs, fin, header_version: Some(ver), cids_end: maxcid, final_pos, final_inp, acc_fail }
    })
}

/// The same through the public `libtw2_teehistorian::Reader` (`file.rs`: a `File`, `Ok(0)` = EOF).
/// `ds` empty: a regular temporary file; otherwise a socket pair whose writer sends the stream in
/// pieces of these sizes (how the kernel hands them to `read` is not under our control, which is
/// fine: the expected output does not depend on it).
fn read_all_file(total: &[u8], ds: &[usize], ask: &[i32]) -> Result<Out, String> {
    use libtw2_teehistorian::Error as FErr;
    use std::os::fd::OwnedFd;
    use std::sync::atomic::{AtomicU64, Ordering};
    static SEQ: AtomicU64 = AtomicU64::new(0);
    let total_v = total.to_vec();
    let ds_v = ds.to_vec();
    let mut tmp: Option<std::path::PathBuf> = None;
    let mut writer: Option<std::thread::JoinHandle<()>> = None;
    let file: std::fs::File = if ds.first() == Some(&FAIL) {
        // an I/O error at the first read: a directory opened as a file (EISDIR)
        std::fs::File::open(std::env::temp_dir()).expect("open temp dir")
    } else if ds.is_empty() {
        let pth = std::env::temp_dir().join(format!("tw-teehist-{}-{}.th", std::process::id(), SEQ.fetch_add(1, Ordering::SeqCst)));
        std::fs::write(&pth, &total_v).expect("write temp file");
        let f = std::fs::File::open(&pth).expect("open temp file");
        tmp = Some(pth);
        f
    } else {
        let (a, b) = std::os::unix::net::UnixStream::pair().expect("socketpair");
        writer = Some(std::thread::spawn(move || {
            use std::io::Write as _;
            let mut a = a;
            let mut pos = 0;
            for d in ds_v {
                let n = d.min(total_v.len() - pos);
                if n > 0 && a.write_all(&total_v[pos..pos + n]).is_err() {
                    return;
                }
                pos += n;
                std::thread::yield_now();
            }
            let _ = a.write_all(&total_v[pos..]);
        }));
        std::fs::File::from(OwnedFd::from(b))
    };
    let r = catch(|| {
        let mut buf = Buffer::new();
        let mut evs = vec![];
        let ferr = |e: &FErr| match e {
            FErr::Teehistorian(e) => err_str(&Error::Teehistorian(clone_ferr(e))),
            FErr::Io(_) => "Cb".to_string(),
        };
        let new = match libtw2_teehistorian::Reader::new(file, &mut buf) {
            Ok((hd, rd)) => Ok((hd.version, rd)),
            Err(e) => Err(e),
        };
        let (ver, mut rd) = match new {
            Ok(x) => x,
            Err(e) => {
                let fin = format!("err:{}", ferr(&e));
                return Out { line: format!("{} 0 0 - P - I -", fin), evs, fin, header_version: None, cids_end: 0, final_pos: vec![], final_inp: vec![], acc_fail: None };
            }
        };
        let mut items: Vec<String> = vec![];
        let mut acc_fail: Option<String> = None;
        let fin;
        loop {
            match rd.read(&mut buf) {
                Ok(Some(it)) => {
                    let (s, ev) = item_str(&it);
                    if acc_fail.is_none() {
                        acc_fail = accessors_after(&ev, &|c| rd.player_pos(c).map(|p| (p.x, p.y)), &|c| rd.input(c), rd.cids().end);
                    }
                    items.push(s);
                    evs.push(ev);
                }
                Ok(None) => {
                    fin = "end".to_string();
                    break;
                }
                Err(e) => {
                    fin = format!("err:{}", ferr(&e));
                    break;
                }
            }
        }
        let maxcid = rd.cids().end;
        let acc = access_str(&evs, &|c| rd.player_pos(c).map(|p| (p.x, p.y)), &|c| rd.input(c));
        let line = format!("{} {} {} {} {}", fin, maxcid, items.len(), if items.is_empty() { "-".to_string() } else { items.join(" ") }, acc);
        let final_pos = ask.iter().map(|&c| (c, rd.player_pos(c).map(|p| (p.x, p.y)))).collect();
        let final_inp = ask.iter().map(|&c| (c, rd.input(c))).collect();
        Out { line, evs, fin, header_version: Some(ver), cids_end: maxcid, final_pos, final_inp, acc_fail }
    });
    // the reader (and with it our end of the socket) is gone: the writer cannot block any more
    if let Some(w) = writer {
        let _ = w.join();
    }
    if let Some(pth) = tmp {
        let _ = std::fs::remove_file(pth);
    }
    r
}

/// `format::Error` is not `Clone`; rebuild the value for the shared error printer.
fn clone_ferr(e: &format::Error) -> format::Error {
    use format::Error as E;
    match e {
        E::Header(_) => E::UnknownVersion, // printed as a header problem below; never produced after a valid header
        E::Item(item::Error::UnknownType(v)) => E::Item(item::Error::UnknownType(*v)),
        E::Item(item::Error::NegativeDt) => E::Item(item::Error::NegativeDt),
        E::Item(item::Error::NegativeNumArgs) => E::Item(item::Error::NegativeNumArgs),
        E::Item(item::Error::NumArgsTooLarge) => E::Item(item::Error::NumArgsTooLarge),
        E::UnknownVersion => E::UnknownVersion,
        E::TickOverflow => E::TickOverflow,
        E::UnexpectedEnd => E::UnexpectedEnd,
        E::InvalidClientId => E::InvalidClientId,
        E::PlayerNewDuplicate => E::PlayerNewDuplicate,
        E::PlayerDiffWithoutNew => E::PlayerDiffWithoutNew,
        E::PlayerOldWithoutNew => E::PlayerOldWithoutNew,
        E::InputNewDuplicate => E::InputNewDuplicate,
        E::InputDiffWithoutNew => E::InputDiffWithoutNew,
    }
}

fn parse_frag(total: usize, s: &str) -> Option<Vec<usize>> {
    // `x<k>/<frag>`: fail at invocation k; before that the sizes of <frag>, then as much as fits
    if let Some(rest) = s.strip_prefix('x') {
        let (k, f) = rest.split_once('/')?;
        let k: usize = k.parse().ok()?;
        let mut ds = parse_frag(total, f)?;
        ds.resize(k.max(ds.len()), total);
        ds.truncate(k);
        ds.push(FAIL);
        return Some(ds);
    }
    if s == "w" {
        return Some(vec![]);
    }
    if s == "b" {
        return Some(vec![1; total]);
    }
    if let Some(k) = s.strip_prefix("s:") {
        return Some(vec![k.parse().ok()?]);
    }
    if let Some(l) = s.strip_prefix("l:") {
        if l.is_empty() {
            return Some(vec![]);
        }
        return l.split(',').map(|x| x.parse().ok()).collect();
    }
    None
}

// ---------------------------------------------------------------------------------------------
// independent reading of the stream for the oracle: a record splitter written from
// doc/teehistorian.md and doc/int.md (no code shared with the crate under test)

#[derive(Clone, Debug)]
enum Msg {
    Diff(i32, i32, i32),
    New(i32, i32, i32),
    Old(i32),
    Skip(i32),
    InputDiff(i32, [i32; 10]),
    InputNew(i32, [i32; 10]),
    /// any other record, with its `cid` field if it has one and the text of the item it must be reported as
    Other(Option<i32>, String),
    Finish,
}

struct Cur<'a> {
    b: &'a [u8],
    p: usize,
}

impl<'a> Cur<'a> {
    fn int(&mut self) -> Option<i32> {
        let first = *self.b.get(self.p)?;
        self.p += 1;
        let neg = first & 0x40 != 0;
        let mut mag: u32 = (first & 0x3f) as u32;
        let mut more = first & 0x80 != 0;
        let mut shift = 6;
        let mut n = 1;
        while more && n < 5 {
            let c = *self.b.get(self.p)?;
            self.p += 1;
            mag |= ((c & 0x7f) as u32).wrapping_shl(shift);
            shift += 7;
            more = c & 0x80 != 0;
            n += 1;
        }
        Some(if neg { !(mag as i32) } else { mag as i32 })
    }
    fn skip(&mut self, n: usize) -> Option<()> {
        if self.b.len() - self.p < n {
            return None;
        }
        self.p += n;
        Some(())
    }
    fn string(&mut self) -> Option<()> {
        while *self.b.get(self.p)? != 0 {
            self.p += 1;
        }
        self.p += 1;
        Some(())
    }
    fn ints10(&mut self) -> Option<[i32; 10]> {
        let mut a = [0i32; 10];
        for x in a.iter_mut() {
            *x = self.int()?;
        }
        Some(a)
    }
}

/// The complete records at the start of `stream`, as far as the documentation defines them.
fn split_records(stream: &[u8], has_ex: bool) -> Vec<Msg> {
    let mut c = Cur { b: stream, p: 0 };
    let mut out = vec![];
    loop {
        let m = (|| -> Option<Msg> {
            let id = c.int()?;
            Some(match id {
                x if x >= 0 => Msg::Diff(x, c.int()?, c.int()?),
                -1 => Msg::Finish,
                -2 => {
                    let dt = c.int()?;
                    if dt < 0 {
                        return None;
                    }
                    Msg::Skip(dt)
                }
                -3 => Msg::New(c.int()?, c.int()?, c.int()?),
                -4 => Msg::Old(c.int()?),
                -5 => Msg::InputDiff(c.int()?, c.ints10()?),
                -6 => Msg::InputNew(c.int()?, c.ints10()?),
                -7 => {
                    let cid = c.int()?;
                    let n = c.int()?;
                    if n < 0 {
                        return None;
                    }
                    let d0 = c.p;
                    c.skip(n as usize)?;
                    Msg::Other(Some(cid), format!("Message({};{})", cid, to_hex(&c.b[d0..c.p])))
                }
                -8 => {
                    let cid = c.int()?;
                    Msg::Other(Some(cid), format!("Join({})", cid))
                }
                -9 => {
                    let cid = c.int()?;
                    let s0 = c.p;
                    c.string()?;
                    Msg::Other(Some(cid), format!("Drop({};{})", cid, to_hex(&c.b[s0..c.p - 1])))
                }
                -10 => {
                    let cid = c.int()?;
                    let flags = c.int()?;
                    let mut parts = vec![cid.to_string(), (flags as u32).to_string()];
                    let s0 = c.p;
                    c.string()?;
                    parts.push(to_hex(&c.b[s0..c.p - 1]));
                    let n = c.int()?;
                    if n < 0 || n > 16 {
                        return None;
                    }
                    for _ in 0..n {
                        let s0 = c.p;
                        c.string()?;
                        parts.push(to_hex(&c.b[s0..c.p - 1]));
                    }
                    Msg::Other(Some(cid), format!("ConsoleCommand({})", parts.join(";")))
                }
                -11 if has_ex => {
                    let start = c.p;
                    c.skip(16)?;
                    let uuid = &c.b[start..start + 16];
                    let n = c.int()?;
                    if n < 0 {
                        return None;
                    }
                    let pstart = c.p;
                    c.skip(n as usize)?;
                    // payload layout per doc/teehistorian.md (i int, s string, u uuid); a payload
                    // that is too short for its layout is not a complete record
                    let mut cid = None;
                    let payload = &c.b[pstart..pstart + n as usize];
                    let text;
                    if let Some((name, _, layout, has_cid)) = EX_LAYOUT.iter().find(|e| e.1 == uuid) {
                        let mut pc = Cur { b: payload, p: 0 };
                        let mut parts: Vec<String> = vec![];
                        for (k, f) in layout.chars().enumerate() {
                            match f {
                                'i' => {
                                    let v = pc.int()?;
                                    if k == 0 && *has_cid {
                                        cid = Some(v);
                                    }
                                    parts.push(v.to_string());
                                }
                                's' => {
                                    let s0 = pc.p;
                                    pc.string()?;
                                    parts.push(to_hex(&payload[s0..pc.p - 1]));
                                }
                                _ => {
                                    let s0 = pc.p;
                                    pc.skip(16)?;
                                    parts.push(to_hex(&payload[s0..pc.p]));
                                }
                            }
                        }
                        if layout.is_empty() {
                            parts.push(to_hex(payload)); // antibot: the whole payload
                        }
                        // snake_case -> CamelCase
                        let camel: String = name.split('_').map(|w| w[..1].to_uppercase() + &w[1..]).collect();
                        text = format!("{}({})", camel, parts.join(";"));
                    } else {
                        text = format!("UnknownEx({};{})", to_hex(uuid), to_hex(payload));
                    }
                    Msg::Other(cid, text)
                }
                _ => return None,
            })
        })();
        match m {
            None => return out,
            Some(Msg::Finish) => {
                out.push(Msg::Finish);
                return out;
            }
            Some(m) => out.push(m),
        }
    }
}

/// doc/teehistorian.md, "(Implicit) Ticks": the tick of every message.
fn doc_ticks(msgs: &[Msg]) -> Vec<i64> {
    let mut tick: i64 = 0;
    let mut implicit_cid: Option<i32> = None;
    let mut out = vec![];
    for m in msgs {
        if let Msg::Skip(dt) = m {
            tick += *dt as i64 + 1;
            implicit_cid = None;
        }
        let cid = match m {
            Msg::Diff(c, _, _) | Msg::New(c, _, _) | Msg::Old(c) => Some(*c),
            _ => None,
        };
        if let Some(cid) = cid {
            if let Some(ic) = implicit_cid {
                if cid <= ic {
                    tick += 1;
                }
            }
            implicit_cid = Some(cid);
        }
        out.push(tick);
    }
    out
}

/// The records end with FINISH, every PLAYER_DIFF/PLAYER_OLD/INPUT_DIFF refers to a player/input
/// that exists, no player is created twice, client ids of table records are non-negative and the
/// documentation's tick numbers stay within `i32`.
fn stream_is_valid(msgs: &[Msg], doc_ticks: &[i64]) -> bool {
    if !matches!(msgs.last(), Some(Msg::Finish)) {
        return false;
    }
    if doc_ticks.iter().any(|t| *t > i32::MAX as i64) {
        return false;
    }
    let mut players = std::collections::BTreeSet::new();
    let mut inputs = std::collections::BTreeSet::new();
    for m in msgs {
        let ok = match m {
            Msg::New(c, _, _) => *c >= 0 && players.insert(*c),
            Msg::Diff(c, _, _) => players.contains(c),
            Msg::Old(c) => *c >= 0 && players.remove(c),
            Msg::InputNew(c, _) => {
                inputs.insert(*c);
                *c >= 0
            }
            Msg::InputDiff(c, _) => *c >= 0 && inputs.contains(c),
            _ => true,
        };
        if !ok {
            return false;
        }
    }
    true
}

/// The property itself, evaluated on one reading of the implementation.
fn oracle_structure(stream: &[u8], has_ex: bool, out: &Out, o: &mut Oracle, ctx: &str) {
    // 0. the accessors after every item agree with the item
    if let Some(m) = &out.acc_fail {
        o.fail("C17/accessor-differs-from-item", format!("{} {}", m, ctx));
    }
    // 1. nesting, strictly increasing tick numbers, every other item inside a tick
    let mut open: Option<i32> = None;
    let mut last: Option<i32> = None;
    let mut item_ticks: Vec<i64> = vec![];
    let mut bad = false;
    for ev in &out.evs {
        match ev {
            Ev::Start(t) => {
                if open.is_some() {
                    o.fail("C17/tick-nesting", format!("TickStart({}) inside an open tick {}", t, ctx));
                    bad = true;
                }
                if let Some(l) = last {
                    if *t <= l {
                        o.fail("C17/tick-not-increasing", format!("TickStart({}) after tick {} {}", t, l, ctx));
                        bad = true;
                    }
                }
                open = Some(*t);
                last = Some(*t);
            }
            Ev::End(t) => {
                if open != Some(*t) {
                    o.fail("C17/tick-nesting", format!("TickEnd({}) while open tick is {:?} {}", t, open, ctx));
                    bad = true;
                }
                open = None;
            }
            _ => match open {
                Some(t) => item_ticks.push(t as i64),
                None => {
                    o.fail("C17/item-outside-tick", format!("{:?} {}", ev, ctx));
                    bad = true;
                }
            },
        }
    }
    if out.fin == "end" && open.is_some() {
        o.fail("C17/tick-nesting", format!("stream finished with tick {:?} still open {}", open, ctx));
        bad = true;
    }
    if bad {
        return;
    }
    // 2. the ticks are the ones the documentation assigns
    let msgs = split_records(stream, has_ex);
    let dt = doc_ticks(&msgs);
    let expected: Vec<i64> = msgs
        .iter()
        .zip(dt.iter())
        .filter(|(m, _)| !matches!(m, Msg::Skip(_) | Msg::Finish))
        .map(|(_, t)| *t)
        .collect();
    let n = item_ticks.len().min(expected.len());
    if item_ticks[..n] != expected[..n] {
        let k = (0..n).find(|&k| item_ticks[k] != expected[k]).unwrap();
        o.fail(
            "C17/tick-differs-from-doc",
            format!("item #{} (not counting tick marks) is reported in tick {} but doc/teehistorian.md assigns tick {} {}", k, item_ticks[k], expected[k], ctx),
        );
    }
    if item_ticks.len() > expected.len() {
        o.fail("C17/more-items-than-records", format!("{} items, {} records {}", item_ticks.len(), expected.len(), ctx));
    }
    if out.fin == "end" && item_ticks.len() != expected.len() {
        o.fail("C17/fewer-items-than-records", format!("{} items, {} records {}", item_ticks.len(), expected.len(), ctx));
    }
    // 2b. a stream that is complete and consistent by the documentation must be read to its end
    if out.fin != "end" && out.fin != "err:Cb" && stream_is_valid(&msgs, &dt) {
        o.fail("C17/valid-stream-rejected", format!("the stream is complete and consistent, the reader stops with `{}` after {} items {}", out.fin, out.evs.len(), ctx));
    }
    // 3. positions and inputs are the wrapping running sums of the recorded differences
    let mut pos: BTreeMap<i32, (i64, i64)> = BTreeMap::new(); // exact sums
    let mut inp: BTreeMap<i32, [i64; 10]> = BTreeMap::new();
    let w = |v: i64| v as i32; // i64 -> i32 truncation = reduction modulo 2^32
    let mut evs = out.evs.iter().filter(|e| !matches!(e, Ev::Start(_) | Ev::End(_)));
    for m in &msgs {
        if matches!(m, Msg::Skip(_) | Msg::Finish) {
            continue;
        }
        let ev = match evs.next() {
            Some(e) => e,
            None => break,
        };
        let ok = match (m, ev) {
            (Msg::New(c, x, y), Ev::New(c2, x2, y2)) => {
                pos.insert(*c, (*x as i64, *y as i64));
                if *c >= 1 << 17 {
                    o.add("player_new_cid_ge_2^17_accepted", 1);
                }
                (c, x, y) == (c2, x2, y2)
            }
            (Msg::Diff(c, dx, dy), Ev::Change(c2, x, y, ox, oy)) => match pos.get_mut(c) {
                None => false,
                Some(p) => {
                    let old = *p;
                    p.0 += *dx as i64;
                    p.1 += *dy as i64;
                    c == c2 && w(p.0) == *x && w(p.1) == *y && w(old.0) == *ox && w(old.1) == *oy
                }
            },
            (Msg::Old(c), Ev::Old(c2, x, y)) => match pos.remove(c) {
                None => false,
                Some(p) => c == c2 && w(p.0) == *x && w(p.1) == *y,
            },
            (Msg::InputNew(c, a), Ev::Input(c2, b)) => {
                let mut s = [0i64; 10];
                for k in 0..10 {
                    s[k] = a[k] as i64;
                }
                inp.insert(*c, s);
                if *c >= 1 << 17 {
                    o.add("input_new_cid_ge_2^17_accepted", 1);
                }
                c == c2 && a == b
            }
            (Msg::InputDiff(c, d), Ev::Input(c2, b)) => match inp.get_mut(c) {
                None => false,
                Some(s) => {
                    for k in 0..10 {
                        s[k] += d[k] as i64;
                    }
                    c == c2 && (0..10).all(|k| w(s[k]) == b[k])
                }
            },
            (Msg::Other(_, want), Ev::Other(got)) => want == got,
            _ => false,
        };
        if !ok {
            let tag = match m {
                Msg::InputNew(..) | Msg::InputDiff(..) => "C17/input-not-running-sum",
                Msg::Other(..) => "C17/item-differs-from-record",
                _ => "C17/position-not-running-sum",
            };
            o.fail(tag, format!("record {:?} reported as {:?} {}", m, ev, ctx));
            return;
        }
    }
    if out.fin != "end" {
        return;
    }
    // 4. `cids()` covers exactly 0..=largest client id any record carried
    let max_cid = msgs
        .iter()
        .filter_map(|m| match m {
            Msg::Diff(c, _, _) | Msg::New(c, _, _) | Msg::Old(c) | Msg::InputDiff(c, _) | Msg::InputNew(c, _) => Some(*c),
            Msg::Other(c, _) => *c,
            _ => None,
        })
        .max()
        .unwrap_or(-1)
        .max(-1);
    let expected_end = max_cid.saturating_add(1);
    if out.cids_end != expected_end {
        o.fail("C17/cids-range", format!("cids().end = {} but the largest client id in the stream is {} {}", out.cids_end, max_cid, ctx));
    }
    // 5. the tables the reader exposes afterwards hold the same running sums
    for (c, p) in &out.final_pos {
        let e = pos.get(c).map(|p| (w(p.0), w(p.1)));
        if *p != e {
            o.fail("C17/table-not-running-sum", format!("player_pos({}) = {:?}, running sums give {:?} {}", c, p, e, ctx));
            break;
        }
    }
    for (c, v) in &out.final_inp {
        let e = inp.get(c).map(|s| {
            let mut a = [0i32; 10];
            for k in 0..10 {
                a[k] = w(s[k]);
            }
            a
        });
        if *v != e {
            o.fail("C17/table-not-running-sum", format!("input({}) = {:?}, running sums give {:?} {}", c, v, e, ctx));
            break;
        }
    }
}

/// doc/teehistorian.md, "Header": the teehistorian UUID 699db17b-8efb-34ff-b1d8-da6f60c15dd1 as 16
/// bytes, then a NUL-terminated JSON object whose `version` must be "1" or "2".  (The JSON itself is
/// valid in every generated request; `ver` is the version it carries.)
fn oracle_header(total: &[u8], ver: &str, out: &Out, failing: bool, o: &mut Oracle, frag: &str) {
    const DOC_MAGIC: [u8; 16] = [0x69, 0x9d, 0xb1, 0x7b, 0x8e, 0xfb, 0x34, 0xff, 0xb1, 0xd8, 0xda, 0x6f, 0x60, 0xc1, 0x5d, 0xd1];
    if failing && out.fin == "err:Cb" {
        return;
    }
    let expected: Option<&str> = if total.len() < 16 {
        Some("err:UnexpectedEnd")
    } else if total[..16] != DOC_MAGIC {
        Some("err:Header")
    } else if !total[16..].contains(&0) {
        Some("err:UnexpectedEnd")
    } else if ver != "1" && ver != "2" {
        Some("err:UnknownVersion")
    } else {
        None
    };
    match expected {
        Some(e) => {
            if out.fin != e || !out.evs.is_empty() {
                o.fail("C17/header-framing", format!("frag={} expected `{}` and no items, got `{}`", frag, e, clip(&out.line)));
            }
        }
        None => {
            if out.header_version.is_none() {
                o.fail("C17/header-framing", format!("frag={} a complete valid header was rejected: `{}`", frag, clip(&out.line)));
            }
        }
    }
}

// ---------------------------------------------------------------------------------------------
// resource use (the part of C17 that finding D18 was about): the memory one reader run allocates
// is bounded by a small multiple of the input, whatever the client ids are.
//
// The counting `#[global_allocator]` of the harness binary lives in `d_snap.rs` (exactly one is
// allowed per binary; C11 needed it first).  A harness `run` process executes its requests on one
// thread (the watchdog thread only sleeps), so the global counters measure this thread.
use crate::domains::d_snap::alloc_count;

/// peak ≤ ALLOC_SLACK + ALLOC_FACTOR · input bytes.  What the reader legitimately needs: the
/// buffer (amortised doubling: ≤ 2 · input + `BUFFER_SIZE`) and one map entry per live
/// PLAYER_NEW (≥ 4 input bytes, 16 bytes of payload) / INPUT_NEW (≥ 12 input bytes, 48 bytes of
/// payload) plus B-tree node slack — below 16 · input.  Before the repair of D18 a 5-byte record
/// with client id c cost 12·(c+1) bytes (players) or 44·(c+1) bytes (inputs).
const ALLOC_FACTOR: usize = 64;
const ALLOC_SLACK: usize = 1 << 20;

/// One reader run (in-process `verif::Reader`, read sizes `ds`) that keeps nothing but counters;
/// returns the peak number of bytes allocated during the run over what was allocated before it.
/// `None`: the reader panicked (reported by the caller's own pass).
fn alloc_probe(total: &[u8], ds: &[usize]) -> Option<usize> {
    let mut cb = FragCb { data: total.to_vec(), pos: 0, ds: ds.iter().cloned().collect(), calls: 0 };
    let r = catch(move || {
        alloc_count::measure(move || {
            let mut buf = Buffer::new();
            let mut n = 0u64;
            if let Ok((_, mut rd)) = Reader::new(&mut cb, &mut buf) {
                while let Ok(Some(_)) = rd.read(&mut cb, &mut buf) {
                    n += 1;
                }
                // the accessors must not allocate by client id either
                n += rd.cids().end as u64;
            }
            n
        })
        .1
    });
    r.ok()
}

fn oracle_alloc(total: &[u8], ds: &[usize], o: &mut Oracle, ctx: &str) {
    if let Some(peak) = alloc_probe(total, ds) {
        o.add("alloc_probes", 1);
        o.count(match peak {
            0..=16384 => "alloc_peak:<=16KiB",
            16385..=65536 => "alloc_peak:<=64KiB",
            65537..=1048576 => "alloc_peak:<=1MiB",
            _ => "alloc_peak:>1MiB",
        });
        if peak > ALLOC_SLACK + ALLOC_FACTOR * total.len() {
            o.fail(
                "C17/allocation-not-bounded-by-input",
                format!(
                    "one reader run over {} input bytes allocated {} bytes at its peak (bound {} + {}·input) {}",
                    total.len(),
                    peak,
                    ALLOC_SLACK,
                    ALLOC_FACTOR,
                    ctx
                ),
            );
        }
    }
}

// ---------------------------------------------------------------------------------------------
// runner

struct R;

fn has_ex_of(ver: &str) -> bool {
    ver != "1"
}

impl Runner for R {
    fn run(&mut self, t: &[&str], o: &mut Oracle) -> String {
        match t {
            [op @ ("run" | "hash" | "file"), ver, hh, sh, frag] => {
                let hdr = parse_hex(hh).unwrap();
                let stream = parse_hex(sh).unwrap();
                let mut total = hdr.clone();
                total.extend_from_slice(&stream);
                let ds = match parse_frag(total.len(), frag) {
                    Some(d) => d,
                    None => return "bad-op".to_string(),
                };
                let ask = cids_of_interest(&stream, has_ex_of(ver));
                let r = if *op == "file" { read_all_file(&total, &ds, &ask) } else { read_all_q(&total, &ds, &ask) };
                // oracle: independent of the fragmentation; no panic; tick structure; sums
                let whole = if ds.is_empty() && *op != "file" { Ok(None) } else { read_all(&total, &[]).map(Some) };
                let failing = ds.contains(&FAIL);
                if let Ok(a) = &r {
                    oracle_header(&total, ver, a, failing, o, frag);
                }
                // resource use of one reader run under this request's fragmentation
                oracle_alloc(&total, &ds, o, &format!("(frag={})", frag));
                match (&r, &whole) {
                    (Ok(a), Ok(Some(b))) if failing => {
                        // a failing callback: its error after a prefix of the items, or no difference
                        let prefix = a.evs.len() <= b.evs.len() && a.evs[..] == b.evs[..a.evs.len()];
                        if !((a.fin == "err:Cb" && prefix) || a.line == b.line) {
                            o.fail("C17/callback-error-not-prefix", format!("frag={} gives `{}`, unfragmented `{}`", frag, clip(&a.line), clip(&b.line)));
                        }
                        if a.header_version.is_some() {
                            oracle_structure(&stream, has_ex_of(ver), a, o, &format!("(frag={})", frag));
                        }
                    }
                    (Ok(a), Ok(b)) => {
                        if b.as_ref().map(|b| a.line != b.line).unwrap_or(false) {
                            let b = b.as_ref().unwrap();
                            o.fail("C17/fragmentation-changes-output", format!("frag={} gives `{}`, unfragmented `{}`", frag, clip(&a.line), clip(&b.line)));
                        }
                        if let Some(v) = a.header_version {
                            if v.to_string() != *ver {
                                o.fail("C17/harness-header-version", format!("header says {} request says {}", v, ver));
                            }
                            oracle_structure(&stream, has_ex_of(ver), a, o, &format!("(frag={})", frag));
                        }
                    }
                    (Err(p), _) => o.fail("C17/panic", format!("frag={} {}", frag, p)),
                    (_, Err(p)) => o.fail("C17/panic", format!("unfragmented {}", p)),
                }
                o.count(&format!("final:{}", r.as_ref().map(|x| x.fin.split(':').nth(1).unwrap_or("end").to_string()).unwrap_or("panic".to_string())));
                match r {
                    Err(_) => "panic".to_string(),
                    Ok(out) => {
                        if *op != "hash" {
                            out.line
                        } else {
                            format!("h {}", fnv_bytes(FNV_OFFSET, out.line.as_bytes()))
                        }
                    }
                }
            }
            ["all2", ver, hh, sh] => {
                let hdr = parse_hex(hh).unwrap();
                let stream = parse_hex(sh).unwrap();
                let mut total = hdr.clone();
                total.extend_from_slice(&stream);
                let whole = read_all_q(&total, &[], &cids_of_interest(&stream, has_ex_of(ver)));
                match &whole {
                    Ok(w) if w.header_version.is_some() => oracle_structure(&stream, has_ex_of(ver), w, o, "(unfragmented)"),
                    Ok(_) => {}
                    Err(p) => o.fail("C17/panic", format!("unfragmented {}", p)),
                }
                oracle_alloc(&total, &[], o, "(unfragmented)");
                oracle_alloc(&total, &[total.len() / 2], o, &format!("(frag=s:{})", total.len() / 2));
                oracle_alloc(&total, &vec![1; total.len()], o, "(frag=b)");
                let mut hsh = FNV_OFFSET;
                for k in 0..=total.len() {
                    let line = match read_all(&total, &[k]) {
                        Ok(out) => out.line,
                        Err(p) => {
                            o.fail("C17/panic", format!("frag=s:{} {}", k, p));
                            "panic".to_string()
                        }
                    };
                    if let Ok(w) = &whole {
                        if w.line != line {
                            o.fail("C17/fragmentation-changes-output", format!("frag=s:{} gives `{}`, unfragmented `{}`", k, clip(&line), clip(&w.line)));
                        }
                    }
                    hsh = fnv_bytes(hsh, line.as_bytes());
                    hsh = fnv_byte(hsh, 10);
                }
                o.add("splits_swept", total.len() as u64 + 1);
                format!("h {}", hsh)
            }
            ["sweep", ver, hh, n, pre] => {
                // every stream `pre ++ (n arbitrary bytes)`, read whole and byte by byte
                let mut hdr = parse_hex(hh).unwrap();
                let hl = hdr.len();
                hdr.extend(parse_hex(pre).unwrap());
                let n: u32 = n.parse().unwrap();
                let count = 256u64.pow(n);
                let mut hsh = FNV_OFFSET;
                let mut total = hdr.clone();
                total.resize(hdr.len() + n as usize, 0);
                let ones = vec![1usize; total.len()];
                for k in 0..count {
                    for j in 0..n as usize {
                        total[hdr.len() + j] = (k / 256u64.pow(n - 1 - j as u32)) as u8;
                    }
                    let w = read_all(&total, &[]);
                    let b = read_all(&total, &ones);
                    match (&w, &b) {
                        (Ok(w), Ok(b)) => {
                            if w.line != b.line {
                                o.fail("C17/fragmentation-changes-output", format!("stream={} byte by byte `{}`, unfragmented `{}`", to_hex(&total[hl..]), clip(&b.line), clip(&w.line)));
                            }
                            oracle_structure(&total[hl..], has_ex_of(ver), w, o, &format!("(stream={})", to_hex(&total[hl..])));
                        }
                        (Err(p), _) | (_, Err(p)) => o.fail("C17/panic", format!("stream={} {}", to_hex(&total[hl..]), p)),
                    }
                    oracle_alloc(&total, &[], o, &format!("(stream={})", to_hex(&total[hl..])));
                    for r in [&w, &b] {
                        let line = r.as_ref().map(|x| x.line.clone()).unwrap_or("panic".to_string());
                        hsh = fnv_bytes(hsh, line.as_bytes());
                        hsh = fnv_byte(hsh, 10);
                    }
                }
                o.add("streams_swept", count);
                format!("h {}", hsh)
            }
            _ => "bad-op".to_string(),
        }
    }
}

fn clip(s: &str) -> String {
    if s.len() > 300 {
        format!("{}…", &s[..300])
    } else {
        s.to_string()
    }
}

// ---------------------------------------------------------------------------------------------
// generator: an independent writer of the format (doc/teehistorian.md) fed by a random server
// history

struct W(Vec<u8>);

impl W {
    fn int(&mut self, v: i32) {
        let mut buf = [0u8; 8];
        let w = with_packer(&mut buf[..], |mut p| {
            p.write_int(v).unwrap();
            p.written()
        });
        self.0.extend_from_slice(w);
    }
    fn str(&mut self, s: &[u8]) {
        self.0.extend(s.iter().map(|&b| if b == 0 { 1 } else { b }));
        self.0.push(0);
    }
    fn data(&mut self, d: &[u8]) {
        self.int(d.len() as i32);
        self.0.extend_from_slice(d);
    }
    fn raw(&mut self, d: &[u8]) {
        self.0.extend_from_slice(d);
    }
}

/// Extension records: payload layout (i int, s string, u uuid) and whether the first field is the
/// client id, transcribed from doc/teehistorian.md (and the struct definitions for the records
/// the document does not list); used only by the oracle's record splitter.
const EX_LAYOUT: &[(&str, [u8; 16], &str, bool)] = &[
    ("antibot", item::UUID_ANTIBOT, "", false),
    ("auth_init", item::UUID_AUTH_INIT, "iis", true),
    ("auth_login", item::UUID_AUTH_LOGIN, "iis", true),
    ("auth_logout", item::UUID_AUTH_LOGOUT, "i", true),
    ("ddnetver", item::UUID_DDNETVER, "iuis", true),
    ("ddnetver_old", item::UUID_DDNETVER_OLD, "ii", true),
    ("joinver6", item::UUID_JOINVER6, "i", true),
    ("joinver7", item::UUID_JOINVER7, "i", true),
    ("player_finish", item::UUID_PLAYER_FINISH, "ii", true),
    ("player_name", item::UUID_PLAYER_NAME, "is", true),
    ("player_ready", item::UUID_PLAYER_READY, "i", true),
    ("player_rejoin", item::UUID_PLAYER_REJOIN, "i", true),
    ("player_swap", item::UUID_PLAYER_SWAP, "ii", false),
    ("player_team", item::UUID_PLAYER_TEAM, "ii", true),
    ("team_finish", item::UUID_TEAM_FINISH, "ii", false),
    ("team_load_failure", item::UUID_TEAM_LOAD_FAILURE, "i", false),
    ("team_load_success", item::UUID_TEAM_LOAD_SUCCESS, "ius", false),
    ("team_practice", item::UUID_TEAM_PRACTICE, "ii", false),
    ("team_save_failure", item::UUID_TEAM_SAVE_FAILURE, "i", false),
    ("team_save_success", item::UUID_TEAM_SAVE_SUCCESS, "ius", false),
];

const UUIDS: &[(&str, [u8; 16])] = &[
    ("antibot", item::UUID_ANTIBOT),
    ("auth_init", item::UUID_AUTH_INIT),
    ("auth_login", item::UUID_AUTH_LOGIN),
    ("auth_logout", item::UUID_AUTH_LOGOUT),
    ("ddnetver", item::UUID_DDNETVER),
    ("ddnetver_old", item::UUID_DDNETVER_OLD),
    ("joinver6", item::UUID_JOINVER6),
    ("joinver7", item::UUID_JOINVER7),
    ("player_finish", item::UUID_PLAYER_FINISH),
    ("player_name", item::UUID_PLAYER_NAME),
    ("player_ready", item::UUID_PLAYER_READY),
    ("player_rejoin", item::UUID_PLAYER_REJOIN),
    ("player_swap", item::UUID_PLAYER_SWAP),
    ("player_team", item::UUID_PLAYER_TEAM),
    ("team_finish", item::UUID_TEAM_FINISH),
    ("team_load_failure", item::UUID_TEAM_LOAD_FAILURE),
    ("team_load_success", item::UUID_TEAM_LOAD_SUCCESS),
    ("team_practice", item::UUID_TEAM_PRACTICE),
    ("team_save_failure", item::UUID_TEAM_SAVE_FAILURE),
    ("team_save_success", item::UUID_TEAM_SAVE_SUCCESS),
];

pub fn header(ver: u32, variant: u32) -> Vec<u8> {
    let start = if ver == 1 { "2017-10-05 12:34:56 +0200" } else { "2018-03-01T09:08:07+01:00" };
    let config = match variant {
        0 => "{}".to_string(),
        1 => "{\"sv_name\":\"verification server\",\"sv_port\":\"8303\"}".to_string(),
        _ => format!("{{\"sv_motd\":\"{}\"}}", "x".repeat(300)),
    };
    let json = format!(
        "{{\"comment\":\"teehistorian@ddnet.tw\",\"version\":\"{}\",\"game_uuid\":\"a1eb7182-796e-3b3e-941d-38ca71b2a4a8\",\"server_version\":\"DDNet 11.0.3\",\"start_time\":\"{}\",\"server_port\":\"8303\",\"map_name\":\"Kobra 4\",\"map_size\":\"903514\",\"map_crc\":\"4dd4ed34\",\"config\":{},\"tuning\":{{}},\"uuids\":[]}}",
        ver, start, config
    );
    let mut v = format::UUID.to_vec();
    v.extend_from_slice(json.as_bytes());
    v.push(0);
    v
}

fn rand_i32(rng: &mut Rng) -> i32 {
    match rng.below(10) {
        0 => *rng.pick(&[0, 1, -1, 63, 64, -64, -65, 8191, 8192, i32::MAX, i32::MIN, i32::MAX - 1, i32::MIN + 1]),
        1 => rng.next() as i32,
        2..=4 => rng.range(-100000, 100000) as i32,
        _ => rng.range(-40, 40) as i32,
    }
}

fn rand_str(rng: &mut Rng) -> Vec<u8> {
    let n = match rng.below(8) {
        0 => 0,
        1 => rng.below(80) as usize,
        _ => rng.below(12) as usize,
    };
    (0..n).map(|_| if rng.chance(1, 10) { 128 + rng.below(128) as u8 } else { 32 + rng.below(95) as u8 }).collect()
}

/// One extension record with a payload that fits its UUID.
fn write_ex(w: &mut W, rng: &mut Rng, cid: i32) {
    let mut p = W(vec![]);
    let uuid: [u8; 16];
    if rng.chance(1, 8) {
        // unknown UUIDs, among them the documented TEST message
        uuid = if rng.chance(1, 2) {
            [0x6b, 0xb8, 0xba, 0x88, 0x0f, 0x0b, 0x38, 0x2e, 0x8d, 0xae, 0xdb, 0xf4, 0x05, 0x2b, 0x8b, 0x7d]
        } else {
            let mut u = [0u8; 16];
            for b in u.iter_mut() {
                *b = rng.next() as u8;
            }
            u
        };
        let n = rng.below(20) as usize;
        p.raw(&rng.bytes(n));
    } else {
        let (name, u) = *rng.pick(UUIDS);
        uuid = u;
        let uu = rng.bytes(16);
        match name {
            "antibot" => {
                let n = rng.below(24) as usize;
                p.raw(&rng.bytes(n))
            }
            "auth_init" | "auth_login" => {
                p.int(cid);
                p.int(rng.range(0, 3) as i32);
                p.str(&rand_str(rng));
            }
            "auth_logout" | "joinver6" | "joinver7" | "player_ready" | "player_rejoin" => p.int(cid),
            "ddnetver" => {
                p.int(cid);
                p.raw(&uu);
                p.int(rng.range(0, 20000) as i32);
                p.str(&rand_str(rng));
            }
            "ddnetver_old" | "player_finish" | "player_team" => {
                p.int(cid);
                p.int(rand_i32(rng));
            }
            "player_name" => {
                p.int(cid);
                p.str(&rand_str(rng));
            }
            "player_swap" => {
                p.int(cid);
                p.int(rng.range(0, 63) as i32);
            }
            "team_finish" | "team_practice" => {
                p.int(rng.range(0, 63) as i32);
                p.int(rand_i32(rng));
            }
            "team_load_failure" | "team_save_failure" => p.int(rng.range(0, 63) as i32),
            _ => {
                // team_load_success, team_save_success
                p.int(rng.range(0, 63) as i32);
                p.raw(&uu);
                p.str(&rand_str(rng));
            }
        }
        if rng.chance(1, 12) {
            // trailing bytes inside the payload are ignored by the reader
            let n = 1 + rng.below(4) as usize;
            p.raw(&rng.bytes(n));
        }
    }
    w.int(item::EX);
    w.raw(&uuid);
    w.data(&p.0);
}

fn write_other(w: &mut W, rng: &mut Rng, ver: u32, cid: i32, big: bool) {
    match rng.below(if ver == 1 { 4 } else { 7 }) {
        0 => {
            w.int(item::MESSAGE);
            w.int(cid);
            let n = if big { *rng.pick(&[200usize, 3000, 8191, 8192, 8193, 9000]) } else { rng.below(40) as usize };
            w.data(&rng.bytes(n));
        }
        1 => {
            w.int(item::JOIN);
            w.int(cid);
        }
        2 => {
            w.int(item::DROP);
            w.int(cid);
            w.str(&rand_str(rng));
        }
        3 => {
            w.int(item::CONSOLE_COMMAND);
            w.int(if rng.chance(1, 4) { -1 } else { cid });
            w.int(rand_i32(rng));
            w.str(&rand_str(rng));
            let n = *rng.pick(&[0usize, 0, 1, 2, 3, 15, 16]);
            w.int(n as i32);
            for _ in 0..n {
                w.str(&rand_str(rng));
            }
        }
        _ => write_ex(w, rng, cid),
    }
}

/// Writer state per doc/teehistorian.md: which tick the stream is in and the implicit cid.
struct Hist {
    w: W,
    #[allow(dead_code)]
    ver: u32,
    players: BTreeMap<i32, ()>,
    inputs: BTreeMap<i32, ()>,
    written_tick: i64,
    implicit_cid: Option<i32>,
    first_in_stream: bool,
}

impl Hist {
    /// Makes the next record belong to server tick `tick` (≥ written_tick): explicit TICK_SKIP, or
    /// nothing when the record is a player record that advances the tick implicitly.
    fn enter_tick(&mut self, rng: &mut Rng, tick: i64, player_cid: Option<i32>) {
        if tick == self.written_tick {
            return;
        }
        let dt = tick - self.written_tick - 1;
        let implicit_ok = dt == 0 && matches!((player_cid, self.implicit_cid), (Some(c), Some(ic)) if c <= ic);
        if implicit_ok && !rng.chance(1, 10) {
            // the player record itself advances the tick
        } else {
            // one TICK_SKIP, or — when at least two ticks are to be skipped, every second time — a
            // run of 2–4 consecutive TICK_SKIPs that advance by the same amount in total (the
            // second and later ones arrive while no tick is open; seeded change C17-6)
            let adv = dt + 1;
            let k = if adv >= 2 && rng.chance(1, 2) { (2 + rng.below(3) as i64).min(adv) } else { 1 };
            let mut parts = vec![1i64; k as usize];
            let extra = adv - k;
            if rng.chance(1, 2) {
                let j = rng.below(k as u64) as usize;
                parts[j] += extra;
            } else {
                let mut left = extra;
                for j in 0..k as usize {
                    let take = if j + 1 == k as usize { left } else { rng.below(left as u64 + 1) as i64 };
                    parts[j] += take;
                    left -= take;
                }
            }
            for a in parts {
                self.w.int(item::TICK_SKIP);
                self.w.int((a - 1) as i32);
            }
            self.implicit_cid = None;
        }
        self.written_tick = tick;
    }
    fn player_record(&mut self, cid: i32) {
        self.implicit_cid = Some(cid);
    }
}

/// Varint length boundaries and the ends of the accepted client id range.
const CID_BOUNDARY: &[i32] = &[
    0, 1, 62, 63, 64, 65, 8191, 8192, 8193, 1 << 17, (1 << 20) - 1, 1 << 20, 1 << 24, (1 << 27) - 1, 1 << 27, 1 << 30,
    i32::MAX - 2, i32::MAX - 1, i32::MAX,
];

/// The client ids of one history, strictly increasing: slot k of the server is client id `pal[k]`.
/// Two thirds of the histories use 0..n as a server does; the others spread their players over the
/// whole accepted range 0 ..= i32::MAX (the reader's tables are sparse maps since the repair of D18).
fn cid_palette(rng: &mut Rng, n: usize) -> Vec<i32> {
    if !rng.chance(1, 3) {
        return (0..n as i32).collect();
    }
    let mut set = std::collections::BTreeSet::new();
    while set.len() < n {
        let c = match rng.below(4) {
            0 => *rng.pick(CID_BOUNDARY),
            1 => rng.below(300) as i32,
            2 => (rng.next() as i32) & i32::MAX,
            _ => {
                // next to a boundary value
                let b = *rng.pick(CID_BOUNDARY) as i64 + rng.range(-3, 3);
                b.clamp(0, i32::MAX as i64) as i32
            }
        };
        set.insert(c);
    }
    set.into_iter().collect()
}

fn negative_cid(rng: &mut Rng) -> i32 {
    match rng.below(3) {
        0 => *rng.pick(&[-1, -2, -64, -65, -8192, -8193, i32::MIN, i32::MIN + 1]),
        1 => -1 - rng.below(100) as i32,
        _ => (rng.next() as i32) | i32::MIN,
    }
}

/// A valid stream from a random server history.
fn gen_history(rng: &mut Rng, ver: u32, size: usize, big: bool) -> Vec<u8> {
    let max_cid: i32 = *rng.pick(&[4, 16, 64, 64, 200]);
    let pal = cid_palette(rng, max_cid as usize);
    // one history in eight contains a record with a negative client id somewhere (InvalidClientId)
    let mut inject_neg = rng.chance(1, 8);
    let mut hst = Hist { w: W(vec![]), ver, players: BTreeMap::new(), inputs: BTreeMap::new(), written_tick: 0, implicit_cid: None, first_in_stream: true };
    let mut tick: i64 = if rng.chance(1, 3) { rng.below(5) as i64 } else { 0 };
    let mut pos_big = rng.chance(1, 5);
    while hst.w.0.len() < size {
        // players block, ascending cids (the server writes them this way)
        let mut wrote = false;
        let cids: Vec<i32> = pal.iter().cloned().filter(|_| rng.chance(1, 3)).collect();
        for cid in cids {
            let present = hst.players.contains_key(&cid);
            if !present {
                if rng.chance(1, 2) {
                    hst.enter_tick(rng, tick, Some(cid));
                    hst.w.int(item::PLAYER_NEW);
                    hst.w.int(cid);
                    let (x, y) = if pos_big { (i32::MAX - rng.below(3) as i32, i32::MIN + rng.below(3) as i32) } else { (rand_i32(rng), rand_i32(rng)) };
                    hst.w.int(x);
                    hst.w.int(y);
                    hst.players.insert(cid, ());
                    hst.player_record(cid);
                    wrote = true;
                }
            } else if rng.chance(1, 8) {
                hst.enter_tick(rng, tick, Some(cid));
                hst.w.int(item::PLAYER_OLD);
                hst.w.int(cid);
                hst.players.remove(&cid);
                hst.player_record(cid);
                wrote = true;
            } else {
                hst.enter_tick(rng, tick, Some(cid));
                hst.w.int(cid);
                hst.w.int(rand_i32(rng));
                hst.w.int(rand_i32(rng));
                hst.player_record(cid);
                wrote = true;
            }
        }
        // inputs, messages, joins, drops, commands, extension records
        let n = rng.below(5);
        for _ in 0..n {
            let cid = *rng.pick(&pal);
            hst.enter_tick(rng, tick, None);
            wrote = true;
            if rng.chance(1, 2) {
                let has = hst.inputs.contains_key(&cid);
                let vals: Vec<i32> = (0..10).map(|_| rand_i32(rng)).collect();
                if has && rng.chance(4, 5) {
                    hst.w.int(item::INPUT_DIFF);
                } else {
                    hst.w.int(item::INPUT_NEW);
                    hst.inputs.insert(cid, ());
                }
                hst.w.int(cid);
                for v in vals {
                    hst.w.int(v);
                }
            } else {
                let b = big && rng.chance(1, 6);
                write_other(&mut hst.w, rng, ver, cid, b);
            }
        }
        // occasionally a second players block inside the same server tick (the format allows it;
        // the documentation then counts a new tick)
        if rng.chance(1, 12) {
            if let Some((&cid, _)) = hst.players.iter().next() {
                hst.w.int(cid);
                hst.w.int(1);
                hst.w.int(-1);
                let already = matches!(hst.implicit_cid, Some(ic) if cid <= ic);
                if already {
                    tick += 1;
                    hst.written_tick += 1;
                }
                hst.player_record(cid);
            }
        }
        let _ = wrote;
        if inject_neg && rng.chance(1, 5) {
            inject_neg = false;
            let c = negative_cid(rng);
            match rng.below(4) {
                0 => {
                    hst.w.int(item::PLAYER_NEW);
                    hst.w.int(c);
                    hst.w.int(rand_i32(rng));
                    hst.w.int(rand_i32(rng));
                }
                1 => {
                    hst.w.int(item::PLAYER_OLD);
                    hst.w.int(c);
                }
                k => {
                    hst.w.int(if k == 2 { item::INPUT_NEW } else { item::INPUT_DIFF });
                    hst.w.int(c);
                    for _ in 0..10 {
                        hst.w.int(rand_i32(rng));
                    }
                }
            }
        }
        pos_big = pos_big && rng.chance(9, 10);
        // next server tick: usually the next one, sometimes a gap (idle server)
        tick += if rng.chance(1, 5) { 1 + rng.below(4) as i64 } else { 1 };
        if rng.chance(1, 40) {
            tick += rng.below(100000) as i64;
        }
        hst.first_in_stream = false;
    }
    if rng.chance(1, 6) {
        // a run of TICK_SKIPs right before FINISH
        for _ in 0..2 + rng.below(3) {
            hst.w.int(item::TICK_SKIP);
            hst.w.int(*rng.pick(&[0, 0, 1, 5, 100000]));
        }
    }
    if !rng.chance(1, 10) {
        hst.w.int(item::FINISH);
    }
    hst.w.0
}

fn frag_random(rng: &mut Rng, total: usize) -> String {
    let mut left = total as i64 + 3;
    let mut v: Vec<String> = vec![];
    let style = rng.below(4);
    while left > 0 && v.len() < 4000 {
        let d: i64 = match style {
            0 => rng.below(4) as i64,                                  // tiny, many empty reads
            1 => 1 + rng.below(40) as i64,
            2 => *rng.pick(&[0i64, 1, 2, 7, 100, 1000, 8191, 8192, 8193, 20000]),
            _ => {
                if rng.chance(1, 4) {
                    0
                } else {
                    1 + rng.below(600) as i64
                }
            }
        };
        v.push(d.to_string());
        left -= d.max(0);
        if rng.chance(1, 50) {
            break; // the rest is delivered as it fits
        }
    }
    format!("l:{}", v.join(","))
}

fn emit(w: &mut dyn Write, op: &str, ver: u32, hdr: &[u8], stream: &[u8], frag: &str) {
    if op == "all2" {
        writeln!(w, "all2 {} {} {}", ver, to_hex(hdr), to_hex(stream)).unwrap();
    } else {
        writeln!(w, "{} {} {} {} {}", op, ver, to_hex(hdr), to_hex(stream), frag).unwrap();
    }
}

/// Hand-written boundary streams (each is read whole, byte by byte and under every split).
fn boundary_streams() -> Vec<(u32, Vec<u8>)> {
    let mut out: Vec<(u32, Vec<u8>)> = vec![];
    let mut add = |ver: u32, f: &dyn Fn(&mut W)| {
        let mut w = W(vec![]);
        f(&mut w);
        out.push((ver, w.0));
    };
    let new = |w: &mut W, cid: i32, x: i32, y: i32| {
        w.int(item::PLAYER_NEW);
        w.int(cid);
        w.int(x);
        w.int(y);
    };
    let diff = |w: &mut W, cid: i32, dx: i32, dy: i32| {
        w.int(cid);
        w.int(dx);
        w.int(dy);
    };
    let skip = |w: &mut W, dt: i32| {
        w.int(item::TICK_SKIP);
        w.int(dt);
    };
    let fin = |w: &mut W| w.int(item::FINISH);
    // empty stream, only finish, finish followed by garbage
    add(2, &|_w| {});
    add(2, &|w| fin(w));
    add(2, &|w| {
        fin(w);
        w.raw(&[0xff, 0xff, 0xff]);
    });
    // positions wrap
    add(2, &|w| {
        new(w, 0, i32::MAX, i32::MIN);
        diff(w, 0, 1, -1);
        diff(w, 0, i32::MAX, i32::MIN);
        diff(w, 0, i32::MAX, i32::MIN);
        fin(w);
    });
    // tick numbers at the top of the range
    add(2, &|w| {
        skip(w, i32::MAX - 2);
        new(w, 0, 0, 0);
        skip(w, 0);
        diff(w, 0, 1, 1);
        fin(w);
    });
    add(2, &|w| {
        skip(w, i32::MAX - 1);
        new(w, 0, 0, 0);
        diff(w, 0, 1, 1);
        fin(w);
    });
    add(2, &|w| {
        skip(w, i32::MAX);
        fin(w);
    });
    add(2, &|w| {
        skip(w, i32::MAX - 1);
        skip(w, 0);
        fin(w);
    });
    // consecutive tick skips, skip first, skip last
    add(2, &|w| {
        skip(w, 3);
        skip(w, 0);
        skip(w, 5);
        new(w, 2, 1, 1);
        skip(w, 0);
        skip(w, 1);
        fin(w);
    });
    // implicit tick: equal and lower cid
    add(2, &|w| {
        new(w, 1, 0, 0);
        new(w, 2, 0, 0);
        diff(w, 2, 1, 1);
        diff(w, 1, 1, 1);
        diff(w, 2, 1, 1);
        diff(w, 1, 1, 1);
        diff(w, 1, 1, 1);
        fin(w);
    });
    // semantic errors
    add(2, &|w| {
        new(w, 1, 0, 0);
        new(w, 1, 5, 5);
    });
    add(2, &|w| diff(w, 3, 1, 1));
    add(2, &|w| {
        w.int(item::PLAYER_OLD);
        w.int(3);
    });
    add(2, &|w| new(w, -1, 0, 0));
    add(2, &|w| {
        w.int(item::PLAYER_OLD);
        w.int(-5);
    });
    add(2, &|w| {
        w.int(item::INPUT_DIFF);
        for _ in 0..11 {
            w.int(0);
        }
    });
    add(2, &|w| {
        w.int(item::INPUT_NEW);
        w.int(-1);
        for _ in 0..10 {
            w.int(0);
        }
    });
    add(2, &|w| {
        w.int(item::INPUT_NEW);
        w.int(7);
        for k in 0..10 {
            w.int(if k % 2 == 0 { i32::MAX } else { i32::MIN });
        }
        w.int(item::INPUT_DIFF);
        w.int(7);
        for k in 0..10 {
            w.int(if k % 2 == 0 { 1 } else { -1 });
        }
        w.int(item::INPUT_NEW);
        w.int(7);
        for _ in 0..10 {
            w.int(3);
        }
        w.int(item::INPUT_DIFF);
        w.int(7);
        for k in 0..10 {
            w.int(k);
        }
        // a record of every kind with a cid field raises `cids()`
        w.int(item::JOIN);
        w.int(9);
        w.int(item::INPUT_NEW);
        w.int(12);
        for _ in 0..10 {
            w.int(0);
        }
        w.int(item::DROP);
        w.int(15);
        w.str(b"bye");
        fin(w);
    });
    for (k, u) in [item::UUID_JOINVER7, item::UUID_PLAYER_READY, item::UUID_PLAYER_NAME].iter().enumerate() {
        let u = *u;
        add(2, &move |w| {
            w.int(item::JOIN);
            w.int(1);
            w.int(item::EX);
            w.raw(&u);
            let mut p = W(vec![]);
            p.int(20 + k as i32);
            p.str(b"x");
            w.data(&p.0);
            w.int(item::FINISH);
        });
    }
    add(2, &|w| skip(w, -1));
    add(2, &|w| w.int(-12));
    add(2, &|w| w.int(i32::MIN));
    add(1, &|w| {
        w.int(item::EX);
        w.raw(&item::UUID_JOINVER6);
        w.data(&[0]);
    });
    // console command argument counts
    for n in [-1i32, 0, 16, 17, 18, i32::MAX] {
        add(2, &move |w| {
            w.int(item::CONSOLE_COMMAND);
            w.int(0);
            w.int(-1);
            w.str(b"say");
            w.int(n);
            for _ in 0..n.clamp(0, 20) {
                w.str(b"a");
            }
            w.int(item::FINISH);
        });
    }
    // message / extension lengths: negative, longer than what follows
    add(2, &|w| {
        w.int(item::MESSAGE);
        w.int(0);
        w.int(-1);
        w.raw(&[1, 2, 3]);
        fin(w);
    });
    add(2, &|w| {
        w.int(item::MESSAGE);
        w.int(0);
        w.int(100);
        w.raw(&[1, 2, 3]);
    });
    add(2, &|w| {
        w.int(item::MESSAGE);
        w.int(0);
        w.int(i32::MAX);
        w.raw(&[1, 2, 3]);
    });
    // known extension with a payload that is too short: reported as UnexpectedEnd at EOF
    add(2, &|w| {
        new(w, 0, 0, 0);
        w.int(item::EX);
        w.raw(&item::UUID_PLAYER_TEAM);
        w.data(&[5]);
        diff(w, 0, 1, 1);
        fin(w);
    });
    add(2, &|w| {
        w.int(item::EX);
        w.raw(&item::UUID_DDNETVER);
        w.data(&[5, 1, 2, 3]);
        fin(w);
    });
    // client ids over the whole accepted range (the tables are sparse maps since the repair of
    // D18): every table operation on one large id, at the varint length boundaries and at the top
    for c in [63, 64, 8191, 8192, 1 << 17, (1 << 20) - 1, 1 << 20, 1 << 24, (1 << 27) - 1, 1 << 27, i32::MAX - 1, i32::MAX] {
        add(2, &move |w| {
            new(w, c, 1, 2);
            diff(w, c, 3, 4);
            w.int(item::INPUT_NEW);
            w.int(c);
            for k in 0..10 {
                w.int(k);
            }
            w.int(item::INPUT_DIFF);
            w.int(c);
            for k in 0..10 {
                w.int(-2 * k);
            }
            w.int(item::PLAYER_OLD);
            w.int(c);
            fin(w);
        });
    }
    // several players at the top of the range: implicit ticks decided by comparisons of huge ids,
    // re-creation after PLAYER_OLD, a duplicate
    add(2, &|w| {
        new(w, 0, 0, 0);
        new(w, i32::MAX - 1, 10, 10);
        new(w, i32::MAX, 20, 20);
        diff(w, i32::MAX - 1, 1, 1);
        diff(w, i32::MAX, 1, 1);
        diff(w, i32::MAX, 1, 1);
        diff(w, 0, 1, 1);
        w.int(item::PLAYER_OLD);
        w.int(i32::MAX - 1);
        diff(w, i32::MAX, i32::MAX, i32::MIN);
        new(w, i32::MAX - 1, -5, -5);
        w.int(item::PLAYER_OLD);
        w.int(i32::MAX);
        fin(w);
    });
    add(2, &|w| {
        new(w, i32::MAX, 1, 1);
        new(w, i32::MAX, 2, 2);
    });
    add(2, &|w| {
        new(w, 1 << 24, 1, 1);
        diff(w, (1 << 24) + 1, 1, 1);
    });
    add(2, &|w| {
        new(w, 1 << 24, 1, 1);
        w.int(item::PLAYER_OLD);
        w.int((1 << 24) - 1);
    });
    add(2, &|w| {
        w.int(item::INPUT_NEW);
        w.int(i32::MAX);
        for _ in 0..10 {
            w.int(i32::MAX);
        }
        w.int(item::INPUT_DIFF);
        w.int(i32::MAX - 1);
        for _ in 0..10 {
            w.int(1);
        }
    });
    // negative client ids in every table record, first in the stream and inside an open tick
    for c in [-1, -2, -64, -65, i32::MIN] {
        for kind in 0..4 {
            for lead in [false, true] {
                add(2, &move |w| {
                    if lead {
                        new(w, 5, 0, 0);
                        w.int(item::INPUT_NEW);
                        w.int(5);
                        for _ in 0..10 {
                            w.int(1);
                        }
                    }
                    match kind {
                        0 => new(w, c, 1, 1),
                        1 => {
                            w.int(item::PLAYER_OLD);
                            w.int(c);
                        }
                        k => {
                            w.int(if k == 2 { item::INPUT_NEW } else { item::INPUT_DIFF });
                            w.int(c);
                            for _ in 0..10 {
                                w.int(0);
                            }
                        }
                    }
                    fin(w);
                });
            }
        }
    }
    // runs of 2–4 consecutive TICK_SKIPs (dt 0 / 1 / large / mixed) after a tick with player records,
    // followed at once by a player record with a lower (PLAYER_DIFF) / equal (PLAYER_OLD) / higher
    // (PLAYER_NEW) client id; the same at the start of the stream and right before FINISH
    // (seeded change C17-6: `prev_player_cid` not cleared by a TICK_SKIP that arrives outside a tick)
    for run in 2..=4usize {
        for pat in 0..4usize {
            let dts: Vec<i32> = (0..run)
                .map(|j| match pat {
                    0 => 0,
                    1 => 1,
                    2 => 1000000 + j as i32,
                    _ => [0, 3, 0, 70000][j],
                })
                .collect();
            for follow in 0..3 {
                let dts = dts.clone();
                add(2, &move |w| {
                    new(w, 2, 0, 0);
                    new(w, 5, 0, 0);
                    for &dt in &dts {
                        skip(w, dt);
                    }
                    match follow {
                        0 => diff(w, 2, 1, 1),
                        1 => {
                            w.int(item::PLAYER_OLD);
                            w.int(5);
                        }
                        _ => new(w, 7, 3, 3),
                    }
                    diff(w, 2, 1, 1);
                    skip(w, 0);
                    diff(w, 2, 1, 1);
                    fin(w);
                });
            }
            let dts2 = dts.clone();
            add(2, &move |w| {
                for &dt in &dts2 {
                    skip(w, dt);
                }
                new(w, 0, 0, 0);
                diff(w, 0, 1, 1);
                fin(w);
            });
            let dts3 = dts.clone();
            add(2, &move |w| {
                new(w, 1, 0, 0);
                for &dt in &dts3 {
                    skip(w, dt);
                }
                fin(w);
            });
        }
    }
    // D11 shape: player record, explicit skip, lower cid
    add(2, &|w| {
        new(w, 2, 0, 0);
        new(w, 3, 0, 0);
        skip(w, 0);
        diff(w, 2, 1, 1);
        fin(w);
    });
    out
}

impl Domain for D {
    fn runner(&self) -> Box<dyn Runner> {
        Box::new(R)
    }
    fn gen(&self, tier: &str, seed: u64, w: &mut dyn Write) {
        let mut rng = Rng::new(seed ^ 0x7465_6568_6973_74);
        let thorough = tier == "thorough";
        let hdr2 = header(2, 0);
        let hdr1 = header(1, 0);
        // boundary streams: whole, byte by byte, every split
        for (ver, s) in boundary_streams() {
            let hdr = if ver == 1 { &hdr1 } else { &hdr2 };
            emit(w, "run", ver, hdr, &s, "w");
            emit(w, "run", ver, hdr, &s, "b");
            emit(w, "all2", ver, hdr, &s, "");
        }
        // an item boundary exactly at (and next to) the point where the buffer is full, so that
        // compaction / growth happen with offset == len, offset == len - 1, …
        let targets: &[usize] = if thorough { &[8191, 8192, 8193, 16383, 16384, 16385, 24576] } else { &[8191, 8192, 8193, 16384] };
        for &target in targets {
            for first_big in [false, true] {
                let mut s = W(vec![]);
                s.int(item::PLAYER_NEW);
                s.int(0);
                s.int(5);
                s.int(5);
                s.int(item::PLAYER_NEW);
                s.int(1);
                s.int(7);
                s.int(7);
                if first_big {
                    // one record larger than the buffer first (growth with offset == 0)
                    s.int(item::MESSAGE);
                    s.int(1);
                    s.data(&rng.bytes(8200));
                }
                let want = target.saturating_sub(hdr2.len());
                let p = s.0.len();
                let mut done = false;
                for vl in 1..=3usize {
                    if want < p + 2 + vl {
                        continue;
                    }
                    let n = want - p - 2 - vl;
                    let mut t = W(vec![]);
                    t.int(n as i32);
                    if t.0.len() == vl {
                        s.int(item::MESSAGE);
                        s.int(0);
                        s.data(&rng.bytes(n));
                        done = true;
                        break;
                    }
                }
                if !done {
                    continue;
                }
                s.int(1);
                s.int(2);
                s.int(-2);
                s.int(0);
                s.int(1);
                s.int(1);
                s.int(item::INPUT_NEW);
                s.int(1);
                for k in 0..10 {
                    s.int(k);
                }
                s.int(item::FINISH);
                emit(w, "run", 2, &hdr2, &s.0, "w");
                emit(w, "file", 2, &hdr2, &s.0, "w");
                for k in [target - 1, target, target + 1, 4096, 8192] {
                    emit(w, "hash", 2, &hdr2, &s.0, &format!("s:{}", k));
                }
                emit(w, "hash", 2, &hdr2, &s.0, "l:4096,4096,4096,4096,4096,4096");
                emit(w, "hash", 2, &hdr2, &s.0, &frag_random(&mut rng, target + 100));
            }
        }
        // the header's framing: cut at every position (no stream behind it), wrong magic, missing
        // NUL, unsupported versions; each under several fragmentations
        {
            let d11: Vec<u8> = vec![0x42, 2, 0, 0, 0x42, 3, 0, 0, 0x41, 0, 2, 1, 1, 0x40];
            let step = if thorough { 1 } else { 7 };
            for hdr in [&hdr2, &hdr1] {
                let ver = if hdr.len() == hdr1.len() && hdr[..] == hdr1[..] { 1 } else { 2 };
                let mut cut = 0;
                while cut < hdr.len() {
                    for f in ["w", "b", "l:5,0,11,3"] {
                        emit(w, "hash", ver, &hdr[..cut], &[], f);
                    }
                    cut += if cut < 20 || cut + 3 >= hdr.len() { 1 } else { step };
                }
                for k in [0usize, 7, 15] {
                    let mut bad = hdr.to_vec();
                    bad[k] ^= 0x20;
                    for f in ["w", "b", "s:16", "s:15"] {
                        emit(w, "run", ver, &bad, &d11, f);
                    }
                    emit(w, "all2", ver, &bad[..24], &[], "");
                }
                emit(w, "all2", ver, hdr, &d11, "");
            }
            // `Error::Io` through the public reader: the very first read fails
            emit(w, "file", 2, &hdr2, &d11, "x0/w");
            for v in [0u32, 3, 7] {
                let h = header(v, 0);
                for f in ["w", "b", "l:16,1,1,400"] {
                    emit(w, "run", v, &h, &d11, f);
                }
            }
        }
        // exhaustive: every stream of 0, 1 (and, thorough, 2) bytes, both format versions
        for n in 0..=1 {
            writeln!(w, "sweep 2 {} {} -", to_hex(&hdr2), n).unwrap();
            writeln!(w, "sweep 1 {} {} -", to_hex(&hdr1), n).unwrap();
        }
        if thorough {
            // all two-byte streams (split by first byte)
            for p in 0..256u32 {
                writeln!(w, "sweep 2 {} 1 {:02x}", to_hex(&hdr2), p).unwrap();
                writeln!(w, "sweep 1 {} 1 {:02x}", to_hex(&hdr1), p).unwrap();
            }
            // all three-byte streams (version 2), split by first byte
            for p in 0..256u32 {
                writeln!(w, "sweep 2 {} 2 {:02x}", to_hex(&hdr2), p).unwrap();
            }
        }
        // random server histories
        let n_hist = if thorough { 800 } else { 112 };
        for k in 0..n_hist {
            let ver = if rng.chance(1, 6) { 1 } else { 2 };
            let hv = if rng.chance(1, 5) { 1 + rng.below(2) as u32 } else { 0 };
            let hdr = header(ver, hv);
            let big = if thorough { k % 10 == 3 } else { k % 16 == 3 };
            let size = if big { if thorough { *rng.pick(&[9000usize, 17000, 30000]) } else { *rng.pick(&[8500usize, 17000]) } } else { *rng.pick(&[40usize, 150, 400, 400, 1200]) };
            let s = gen_history(&mut rng, ver, size, big);
            let total = hdr.len() + s.len();
            emit(w, "run", ver, &hdr, &s, "w");
            // the public `Reader` over a file / over a socket fed in pieces
            if k % 2 == 0 {
                emit(w, "file", ver, &hdr, &s, "w");
            } else {
                let f = frag_random(&mut rng, total);
                emit(w, "file", ver, &hdr, &s, &f);
            }
            emit(w, if total > 3000 { "hash" } else { "run" }, ver, &hdr, &s, "b");
            // a callback that fails at some invocation
            for _ in 0..2 {
                let f = frag_random(&mut rng, total);
                let calls = f.matches(',').count() + 2;
                let k = rng.below(calls as u64 + 1);
                emit(w, if total > 3000 { "hash" } else { "run" }, ver, &hdr, &s, &format!("x{}/{}", k, f));
            }
            if total <= (if thorough { 2500 } else { 800 }) {
                emit(w, "all2", ver, &hdr, &s, "");
            } else {
                for _ in 0..(if thorough { 60 } else { 6 }) {
                    let k = rng.below(total as u64 + 1);
                    emit(w, "hash", ver, &hdr, &s, &format!("s:{}", k));
                }
            }
            for _ in 0..(if thorough { 12 } else { 5 }) {
                let f = frag_random(&mut rng, total);
                emit(w, "hash", ver, &hdr, &s, &f);
            }
            // truncated
            if s.len() <= 400 && (thorough || k % 4 == 0) {
                for cut in 0..s.len() {
                    emit(w, "hash", ver, &hdr, &s[..cut], if rng.chance(1, 2) { "w" } else { "b" });
                }
            } else {
                for _ in 0..6 {
                    let cut = rng.below(s.len() as u64 + 1) as usize;
                    let f = if rng.chance(1, 2) && (thorough || s.len() < 3000) { "b".to_string() } else { frag_random(&mut rng, hdr.len() + cut) };
                    emit(w, "hash", ver, &hdr, &s[..cut], &f);
                }
            }
            // corrupted: bit flips, boundary bytes, inserted / deleted bytes
            if s.len() <= 3000 {
                for _ in 0..(if thorough { 30 } else { 10 }) {
                    let mut c = s.clone();
                    let m = 1 + rng.below(2);
                    for _ in 0..m {
                        if c.is_empty() {
                            break;
                        }
                        let p = rng.below(c.len() as u64) as usize;
                        match rng.below(5) {
                            0 => c[p] ^= 1 << rng.below(8),
                            1 => c[p] = *rng.pick(&[0u8, 0x3f, 0x40, 0x41, 0x7f, 0x80, 0xbf, 0xc0, 0xff]),
                            2 => {
                                c.insert(p, rng.next() as u8);
                            }
                            3 => {
                                c.remove(p);
                            }
                            _ => c[p] = rng.next() as u8,
                        }
                    }
                    let f = match rng.below(3) {
                        0 => "w".to_string(),
                        1 => "b".to_string(),
                        _ => frag_random(&mut rng, hdr.len() + c.len()),
                    };
                    emit(w, "hash", ver, &hdr, &c, &f);
                }
            }
        }
        // random bytes and id-biased random bytes
        for _ in 0..(if thorough { 4000 } else { 400 }) {
            let n = rng.below(60) as usize;
            let s: Vec<u8> = (0..n)
                .map(|_| if rng.chance(1, 3) { *rng.pick(&[0x40u8, 0x41, 0x42, 0x43, 0x44, 0x45, 0x46, 0x47, 0x48, 0x49, 0x4a, 0x4b, 0, 1, 2]) } else { rng.next() as u8 })
                .collect();
            let f = if rng.chance(1, 2) { "b".to_string() } else { "w".to_string() };
            emit(w, "run", 2, &hdr2, &s, &f);
        }
    }
}
