//! Domain `recv`: the sender's chunker `snapshot::snap::delta_chunks` and the receiving
//! `snapshot::receiver::DeltaReceiver`.  Property C12.
//!
//! Line protocol (see `lean/Tw/Drv/Recv.lean`): a session starts with
//! `new <tick> <base> <crc> <data>` (fresh receiver; `delta_chunks(tick, base, data, crc)` is
//! remembered), then `p <i>` feeds remembered message `i`, `e`/`s`/`m` feed raw messages, `c <i>`
//! prints a remembered message, `reset` calls `DeltaReceiver::reset`.
//!
//! The oracle evaluates C12 on the real receiver without the Lean model:
//!  * every message older than the newest tick seen so far is `Err(OldDelta)`, no warning, and the
//!    receiver behaves afterwards exactly as before (checked by completing the transfer on clones);
//!  * for the remembered transfer: a new part is `Ok(None)` until the part set is complete, the
//!    completing one is `Ok(Some((tick, base, data, crc)))`, a repeated part before completion is
//!    `Err(DuplicatePart)`, everything for the tick after completion — or after a newer tick was
//!    seen — is `Err(OldDelta)`; no warning is raised anywhere in a consistent transfer;
//!  * `delta_chunks` does not panic and cuts the data into ceil(len/900) parts that concatenate to
//!    the data.
use crate::util::*;
use libtw2_gamenet_snap::Snap;
use libtw2_gamenet_snap::SnapEmpty;
use libtw2_gamenet_snap::SnapMsg;
use libtw2_gamenet_snap::SnapSingle;
use libtw2_gamenet_snap::MAX_SNAPSHOT_PACKSIZE;
use libtw2_snapshot::receiver::DeltaReceiver;
use libtw2_snapshot::receiver::Error;
use libtw2_snapshot::receiver::Warning;
use libtw2_snapshot::snap::delta_chunks;
use std::collections::BTreeSet;
use std::io::Write;

pub struct D;

pub fn domain() -> Box<dyn Domain> {
    Box::new(D)
}

const PART: usize = 900;
const MAX_PARTS: usize = 32;

#[derive(Clone, Debug, PartialEq, Eq)]
pub enum OMsg {
    Empty { tick: i32, dt: i32 },
    Single { tick: i32, dt: i32, crc: i32, data: Vec<u8> },
    Snap { tick: i32, dt: i32, n: i32, part: i32, crc: i32, data: Vec<u8> },
}

impl OMsg {
    pub fn from(m: &SnapMsg) -> OMsg {
        match *m {
            SnapMsg::SnapEmpty(e) => OMsg::Empty { tick: e.tick, dt: e.delta_tick },
            SnapMsg::SnapSingle(s) => OMsg::Single { tick: s.tick, dt: s.delta_tick, crc: s.crc, data: s.data.to_vec() },
            SnapMsg::Snap(s) => OMsg::Snap {
                tick: s.tick,
                dt: s.delta_tick,
                n: s.num_parts,
                part: s.part,
                crc: s.crc,
                data: s.data.to_vec(),
            },
        }
    }
    pub fn tick(&self) -> i32 {
        match *self {
            OMsg::Empty { tick, .. } | OMsg::Single { tick, .. } | OMsg::Snap { tick, .. } => tick,
        }
    }
    /// passes the receiver's argument checks (so that it is "seen" when its tick is receivable)
    pub fn well_formed(&self) -> bool {
        match *self {
            OMsg::Snap { n, part, .. } => 0 <= n && n <= MAX_PARTS as i32 && 0 <= part && part < n,
            _ => true,
        }
    }
    pub fn text(&self) -> String {
        match self {
            OMsg::Empty { tick, dt } => format!("e {} {}", tick, dt),
            OMsg::Single { tick, dt, crc, data } => format!("s {} {} {} {}", tick, dt, crc, data_tok(data)),
            OMsg::Snap { tick, dt, n, part, crc, data } => {
                format!("m {} {} {} {} {} {}", tick, dt, n, part, crc, data_tok(data))
            }
        }
    }
}

pub fn gen_data(len: usize, seed: u64) -> Vec<u8> {
    (0..len as u64).map(|i| (seed.wrapping_add(7 * i).wrapping_add(13 * (i / 900)).wrapping_add(i / 256)) as u8).collect()
}

pub fn parse_data(s: &str) -> Option<Vec<u8>> {
    if let Some(rest) = s.strip_prefix('g') {
        let mut it = rest.split(':');
        let len: usize = it.next()?.parse().ok()?;
        let seed: u64 = it.next()?.parse().ok()?;
        if it.next().is_some() {
            return None;
        }
        Some(gen_data(len, seed))
    } else {
        parse_hex(s)
    }
}

pub fn data_tok(d: &[u8]) -> String {
    if d.len() <= 32 {
        to_hex(d)
    } else {
        format!("#{}:{}", d.len(), fnv_bytes(FNV_OFFSET, d))
    }
}

/// canonical result of one receiver call
#[derive(Clone, Debug, PartialEq, Eq)]
pub enum Res {
    Err(&'static str),
    None,
    /// tick, base (`ReceivedDelta::delta_tick`), data and crc
    Some(i32, i32, Option<(Vec<u8>, i32)>),
}

pub fn ename(e: &Error) -> &'static str {
    match e {
        Error::OldDelta => "OldDelta",
        Error::InvalidNumParts => "InvalidNumParts",
        Error::InvalidPart => "InvalidPart",
        Error::DuplicatePart => "DuplicatePart",
    }
}
pub fn wname(w: &Warning) -> String {
    match w {
        Warning::DuplicateSnap => "DuplicateSnap",
        Warning::DifferingAttributes => "DifferingAttributes",
    }
    .to_string()
}

pub fn feed(r: &mut DeltaReceiver, m: &OMsg) -> (Res, Vec<Warning>) {
    let mut ws: Vec<Warning> = vec![];
    let res = match m {
        OMsg::Empty { tick, dt } => r.snap_empty(&mut ws, SnapEmpty { tick: *tick, delta_tick: *dt }),
        OMsg::Single { tick, dt, crc, data } => r.snap_single(
            &mut ws,
            SnapSingle { tick: *tick, delta_tick: *dt, crc: *crc, data: data },
        ),
        OMsg::Snap { tick, dt, n, part, crc, data } => r.snap(
            &mut ws,
            Snap { tick: *tick, delta_tick: *dt, num_parts: *n, part: *part, crc: *crc, data: data },
        ),
    };
    let res = match res {
        Err(e) => Res::Err(ename(&e)),
        Ok(None) => Res::None,
        Ok(Some(d)) => Res::Some(d.tick, d.delta_tick, d.data_and_crc.map(|(b, c)| (b.to_vec(), c))),
    };
    (res, ws)
}

pub fn res_text(res: &Res, ws: &[Warning]) -> String {
    let w = list_str(ws.iter().map(wname));
    match res {
        Res::Err(e) => format!("err {} {}", e, w),
        Res::None => format!("ok none {}", w),
        Res::Some(t, b, None) => format!("ok {} {} - {}", t, b, w),
        Res::Some(t, b, Some((d, c))) => format!("ok {} {} {} {} {}", t, b, c, data_tok(d), w),
    }
}

struct Xfer {
    tick: i32,
    base: i32,
    crc: i32,
    data: Vec<u8>,
    chunks: Vec<OMsg>,
}

impl Xfer {
    fn expected(&self) -> Res {
        if self.data.is_empty() {
            Res::Some(self.tick, self.base, None)
        } else {
            Res::Some(self.tick, self.base, Some((self.data.clone(), self.crc)))
        }
    }
}

struct R {
    recv: DeltaReceiver,
    xfer: Option<Xfer>,
    // ---- oracle bookkeeping (independent of the receiver's internals)
    /// newest tick among the well-formed messages fed so far
    newest: Option<i32>,
    seen: BTreeSet<usize>,
    started: bool,
    completed: bool,
    /// a newer tick was seen before the transfer completed
    abandoned: bool,
    /// the session left the scope of the exactly-once statement (inconsistent raw message for the
    /// transfer's tick, oversize data)
    tainted: bool,
    /// the first accepted part of the multi-part transfer in progress, as seen from outside:
    /// (tick, absolute base tick, num_parts, crc)
    first: Option<(i32, i32, i32, i32)>,
}

impl R {
    fn new() -> R {
        R {
            recv: DeltaReceiver::new(),
            xfer: None,
            newest: None,
            seen: BTreeSet::new(),
            started: false,
            completed: false,
            abandoned: false,
            tainted: false,
            first: None,
        }
    }

    /// Completes the remembered transfer on a clone of `r`: what the receiver says for each
    /// missing part, and the last result.
    fn probe(&self, r: &DeltaReceiver) -> (Vec<String>, Option<Res>) {
        let mut c = r.clone();
        let x = self.xfer.as_ref().unwrap();
        let mut out = vec![];
        let mut last = None;
        for (i, m) in x.chunks.iter().enumerate() {
            if !self.seen.contains(&i) {
                let (res, ws) = feed(&mut c, m);
                out.push(res_text(&res, &ws));
                last = Some(res);
            }
        }
        (out, last)
    }

    fn in_progress(&self) -> bool {
        self.xfer.is_some() && self.started && !self.completed && !self.abandoned && !self.tainted
    }

    /// feeds one message, applying the oracle; `idx` = index in the remembered list for `p`
    fn feed_checked(&mut self, m: &OMsg, idx: Option<usize>, o: &mut Oracle) -> String {
        let before = self.recv.clone();
        let (res, ws) = feed(&mut self.recv, m);
        let text = res_text(&res, &ws);
        let tick = m.tick();
        let older = self.newest.map(|n| tick < n).unwrap_or(false);
        o.count(match res {
            Res::Err(e) => e,
            Res::None => "ok-none",
            Res::Some(..) => "ok-some",
        });
        for w in &ws {
            o.count(&wname(w));
        }
        // (O1) older than the newest tick seen: refused, silent, inert
        if older {
            o.count("older-message");
            if res != Res::Err("OldDelta") || !ws.is_empty() {
                o.fail("C12/older-message-not-refused", format!("newest={:?} msg={} -> {}", self.newest, m.text(), text));
            }
        }
        // (O3) attributes of a multi-part transfer are those of its first part: later parts that
        // differ are warned about (and only those), and the delivery carries the first part's
        // base tick and checksum — also in streams that are not consistent
        match m {
            OMsg::Snap { tick: t, dt, n, crc, .. } => {
                let attrs = (*t, t.wrapping_sub(*dt), *n, *crc);
                match res {
                    Res::Err(_) => {}
                    _ => {
                        if self.first.map(|f| f.0 != *t).unwrap_or(true) {
                            self.first = Some(attrs);
                        }
                        let f = self.first.unwrap();
                        let differs = f != attrs;
                        let warned = ws.iter().any(|w| *w == Warning::DifferingAttributes);
                        if differs != warned {
                            o.fail(
                                "C12/differing-attributes-warning-wrong",
                                format!("first part (tick, base, parts, crc)={:?}, this part {:?} -> {}", f, attrs, text),
                            );
                        }
                        if let Res::Some(rt, rb, ref dc) = res {
                            o.count("multi-part-delivery");
                            if rt != f.0 || rb != f.1 || dc.as_ref().map(|x| x.1) != Some(f.3) {
                                o.fail(
                                    "C12/delivery-attributes-not-from-first-part",
                                    format!("first part (tick, base, parts, crc)={:?} -> {}", f, text),
                                );
                            }
                            self.first = None;
                        }
                    }
                }
            }
            _ => {
                if let Res::Some(..) = res {
                    self.first = None;
                }
            }
        }
        // (O2) the remembered transfer
        if let (Some(i), Some(x)) = (idx, self.xfer.as_ref()) {
            if !self.tainted {
                let newer_seen = self.newest.map(|n| n > x.tick).unwrap_or(false);
                if newer_seen && !self.completed {
                    self.abandoned = true;
                }
                if self.abandoned || self.completed {
                    if res != Res::Err("OldDelta") || !ws.is_empty() {
                        let tag = if self.completed { "C12/delivered-again-after-completion" } else { "C12/abandoned-transfer-continued" };
                        o.fail(tag, format!("part {} of tick {} -> {}", i, x.tick, text));
                    }
                } else {
                    self.started = true;
                    if !ws.is_empty() {
                        o.fail(
                            "C12/warning-on-consistent-transfer",
                            format!("tick={} base={} part {}/{} -> {}", x.tick, x.base, i, x.chunks.len(), text),
                        );
                    }
                    if self.seen.contains(&i) {
                        o.count("duplicate-part");
                        if res != Res::Err("DuplicatePart") {
                            o.fail("C12/duplicate-part-not-refused", format!("part {} of tick {} -> {}", i, x.tick, text));
                        }
                    } else {
                        self.seen.insert(i);
                        if self.seen.len() == x.chunks.len() {
                            self.completed = true;
                            o.count("completed-transfer");
                            o.count(&format!("completed-parts-{:02}", if x.data.is_empty() { 0 } else { x.chunks.len() }));
                            if res != x.expected() {
                                o.fail(
                                    "C12/wrong-or-missing-result",
                                    format!("tick={} base={} crc={} len={} last part {} -> {}", x.tick, x.base, x.crc, x.data.len(), i, text),
                                );
                            }
                        } else if res != Res::None {
                            o.fail(
                                "C12/result-before-completion",
                                format!("part {} ({} of {} seen) of tick {} -> {}", i, self.seen.len(), x.chunks.len(), x.tick, text),
                            );
                        }
                    }
                }
            }
        } else if let Some(x) = self.xfer.as_ref() {
            // a raw message with the transfer's own tick is outside the consistent-transfer statement
            if tick == x.tick {
                self.tainted = true;
            }
        }
        // "state unchanged" for refused messages, observed through the rest of the transfer
        if let Res::Err(_) = res {
            if self.in_progress() {
                let a = self.probe(&before);
                let b = self.probe(&self.recv);
                o.count("inert-probe");
                let x = self.xfer.as_ref().unwrap();
                let good = a.0 == b.0 && b.1 == Some(x.expected());
                if !good {
                    o.fail(
                        "C12/refused-message-changed-the-transfer",
                        format!("msg={} -> {}; completion before: {:?} after: {:?}", m.text(), text, a.0.last(), b.0.last()),
                    );
                }
            }
        }
        // bookkeeping: newest tick seen
        if m.well_formed() && self.newest.map(|n| tick > n).unwrap_or(true) {
            self.newest = Some(tick);
        }
        if let Some(x) = self.xfer.as_ref() {
            if self.newest.map(|n| n > x.tick).unwrap_or(false) && !self.completed {
                self.abandoned = true;
            }
        }
        text
    }
}

impl Runner for R {
    fn run(&mut self, t: &[&str], o: &mut Oracle) -> String {
        let int = |s: &str| s.parse::<i32>().ok();
        match t {
            ["new", tick, base, crc, data] => {
                let (tick, base, crc, data) = match (int(tick), int(base), int(crc), parse_data(data)) {
                    (Some(a), Some(b), Some(c), Some(d)) => (a, b, c, d),
                    _ => return "bad-args".to_string(),
                };
                *self = R::new();
                let chunks = catch(|| delta_chunks(tick, base, &data, crc).map(|m| OMsg::from(&m)).collect::<Vec<_>>());
                match chunks {
                    Err(msg) => {
                        o.fail("C12/delta-chunks-panics", format!("tick={} base={} len={}: {}", tick, base, data.len(), msg));
                        "panic".to_string()
                    }
                    Ok(chunks) => {
                        // sender mechanism: ceil(len/900) parts, right form, parts concatenate to the data
                        let n = (data.len() + PART - 1) / PART;
                        let mut cat: Vec<u8> = vec![];
                        let mut ok = chunks.len() == n.max(1) && MAX_SNAPSHOT_PACKSIZE as usize == PART;
                        for (i, m) in chunks.iter().enumerate() {
                            let dt_ok = |dt: i32| tick.wrapping_sub(dt) == base;
                            ok &= match m {
                                OMsg::Empty { tick: t, dt } => n == 0 && *t == tick && dt_ok(*dt),
                                OMsg::Single { tick: t, dt, crc: c, data: d } => {
                                    cat.extend(d);
                                    n == 1 && *t == tick && dt_ok(*dt) && *c == crc
                                }
                                OMsg::Snap { tick: t, dt, n: np, part, crc: c, data: d } => {
                                    cat.extend(d);
                                    n >= 2
                                        && *t == tick
                                        && dt_ok(*dt)
                                        && *c == crc
                                        && *np as usize == n
                                        && *part as usize == i
                                        && !d.is_empty()
                                        && d.len() <= PART
                                        && (i + 1 == n || d.len() == PART)
                                }
                            };
                        }
                        ok &= cat == data;
                        if !ok {
                            o.fail("C12/chunking-wrong", format!("tick={} base={} len={} -> {} messages", tick, base, data.len(), chunks.len()));
                        }
                        let form = match chunks.as_slice() {
                            [OMsg::Empty { .. }] => "empty",
                            [OMsg::Single { .. }] => "single",
                            _ => "multi",
                        };
                        let mut h = FNV_OFFSET;
                        for m in &chunks {
                            h = fnv_byte(fnv_bytes(h, m.text().as_bytes()), 10);
                        }
                        let line = format!("chunks {} {} {}", chunks.len(), form, h);
                        self.tainted = n > MAX_PARTS;
                        self.xfer = Some(Xfer { tick, base, crc, data, chunks });
                        line
                    }
                }
            }
            ["p", i] => {
                let m = match (i.parse::<usize>().ok(), self.xfer.as_ref()) {
                    (Some(i), Some(x)) if i < x.chunks.len() => (i, x.chunks[i].clone()),
                    _ => return "bad-index".to_string(),
                };
                self.feed_checked(&m.1, Some(m.0), o)
            }
            // a copy of remembered message `i` whose crc / delta_tick fields were altered on the way
            ["pg", i, dcrc, ddt] => {
                let (dcrc, ddt) = match (int(dcrc), int(ddt)) {
                    (Some(a), Some(b)) => (a, b),
                    _ => return "bad-args".to_string(),
                };
                let mut m = match (i.parse::<usize>().ok(), self.xfer.as_ref()) {
                    (Some(i), Some(x)) if i < x.chunks.len() => x.chunks[i].clone(),
                    _ => return "bad-index".to_string(),
                };
                match &mut m {
                    OMsg::Empty { dt, .. } => *dt = dt.wrapping_add(ddt),
                    OMsg::Single { dt, crc, .. } | OMsg::Snap { dt, crc, .. } => {
                        *dt = dt.wrapping_add(ddt);
                        *crc = crc.wrapping_add(dcrc);
                    }
                }
                self.feed_checked(&m, None, o)
            }
            ["c", i] => match (i.parse::<usize>().ok(), self.xfer.as_ref()) {
                (Some(i), Some(x)) if i < x.chunks.len() => x.chunks[i].text(),
                _ => "bad-index".to_string(),
            },
            ["e", tick, dt] => match (int(tick), int(dt)) {
                (Some(tick), Some(dt)) => self.feed_checked(&OMsg::Empty { tick, dt }, None, o),
                _ => "bad-args".to_string(),
            },
            ["s", tick, dt, crc, data] => match (int(tick), int(dt), int(crc), parse_data(data)) {
                (Some(tick), Some(dt), Some(crc), Some(data)) => self.feed_checked(&OMsg::Single { tick, dt, crc, data }, None, o),
                _ => "bad-args".to_string(),
            },
            ["m", tick, dt, n, part, crc, data] => match (int(tick), int(dt), int(n), int(part), int(crc), parse_data(data)) {
                (Some(tick), Some(dt), Some(n), Some(part), Some(crc), Some(data)) => {
                    self.feed_checked(&OMsg::Snap { tick, dt, n, part, crc, data }, None, o)
                }
                _ => "bad-args".to_string(),
            },
            ["reset"] => {
                self.recv.reset();
                self.first = None;
                self.newest = None;
                self.seen.clear();
                self.started = false;
                self.completed = false;
                self.abandoned = false;
                "ok".to_string()
            }
            _ => "bad-op".to_string(),
        }
    }
}

// ------------------------------------------------------------------------------------------
// generator

const MAX: i64 = i32::MAX as i64;
const MIN: i64 = i32::MIN as i64;
const TICKS: &[i64] = &[0, 1, 2, 3, MAX - 1, MAX, -1, -2, MIN, MIN + 1, 4, 50, 1000];

fn pick_tick(rng: &mut Rng) -> i64 {
    if rng.chance(3, 4) {
        *rng.pick(TICKS)
    } else {
        rng.next() as i32 as i64
    }
}

/// a data length with exactly `k` parts (k = 0 → empty), boundary-biased
fn len_for_parts(rng: &mut Rng, k: usize) -> usize {
    if k == 0 {
        return 0;
    }
    let lo = (k - 1) * PART + 1;
    let hi = k * PART;
    match rng.below(4) {
        0 => lo,
        1 => hi,
        2 => hi - 1,
        _ => rng.range(lo as i64, hi as i64) as usize,
    }
}

fn data_token(rng: &mut Rng, len: usize) -> String {
    if len <= 8 && rng.chance(1, 2) {
        to_hex(&rng.bytes(len))
    } else {
        format!("g{}:{}", len, rng.below(256))
    }
}

struct G<'a> {
    rng: Rng,
    w: &'a mut dyn Write,
    /// generator-side view of the newest tick fed in the current session
    newest: Option<i64>,
}

impl<'a> G<'a> {
    fn line(&mut self, s: String) {
        writeln!(self.w, "{}", s).unwrap();
    }
    fn saw(&mut self, t: i64) {
        if self.newest.map(|n| t > n).unwrap_or(true) {
            self.newest = Some(t);
        }
    }
    fn small_data(&mut self) -> String {
        let n = *self.rng.pick(&[0usize, 1, 1, 2, 3, 5]);
        to_hex(&self.rng.bytes(n))
    }
    /// a raw well-formed message with tick `t`; `multi` forces the `Snap` form
    fn raw(&mut self, t: i64, form: u64) -> String {
        let dt = if self.rng.chance(1, 2) { self.rng.range(-3, 5) } else { pick_tick(&mut self.rng) };
        let crc = self.rng.range(-5, 5);
        match form {
            0 => format!("e {} {}", t, dt),
            1 => {
                let d = self.small_data();
                format!("s {} {} {} {}", t, dt, crc, d)
            }
            _ => {
                let n = self.rng.range(1, 4);
                let part = self.rng.range(0, n - 1);
                let d = self.small_data();
                format!("m {} {} {} {} {} {}", t, dt, n, part, crc, d)
            }
        }
    }
    /// a message older than the newest tick seen (None if impossible)
    fn older(&mut self) -> Option<String> {
        let n = self.newest?;
        if n <= MIN {
            return None;
        }
        let t = match self.rng.below(4) {
            0 => n - 1,
            1 => MIN,
            2 => (n - 1 - self.rng.below(5) as i64).max(MIN),
            _ => self.rng.range(MIN, n - 1),
        };
        let form = self.rng.below(3);
        Some(self.raw(t, form))
    }
    fn new_session(&mut self, tick: i64, base: i64, len: usize) {
        let crc = if self.rng.chance(1, 2) { self.rng.range(-2, 2) } else { pick_tick(&mut self.rng) };
        let d = data_token(&mut self.rng, len);
        self.newest = None;
        self.line(format!("new {} {} {} {}", tick, base, crc, d));
    }
    /// puts the fresh receiver into some state that can still receive `tick`
    fn prelude(&mut self, tick: i64, variant: u64) {
        if tick <= MIN + 2 {
            if tick > MIN && variant % 2 == 1 {
                let l = self.raw(MIN, 1);
                self.line(l);
                self.saw(MIN);
            }
            return;
        }
        let t1 = if self.rng.chance(1, 2) { tick - 1 } else { self.rng.range(MIN + 1, tick - 1) };
        let t0 = if t1 > MIN + 1 { self.rng.range(MIN, t1 - 1) } else { MIN };
        match variant % 7 {
            0 => {}
            1 => {
                let l = self.raw(t1, 1);
                self.line(l);
                self.saw(t1);
            }
            2 => {
                // an older multi-part transfer left unfinished
                let d = self.small_data();
                self.line(format!("m {} 1 3 1 7 {}", t1, d));
                self.saw(t1);
            }
            3 => {
                let l = self.raw(t1, 0);
                self.line(l);
                self.saw(t1);
            }
            4 => {
                let l = self.raw(t1, 2);
                self.line(l);
                self.line("reset".to_string());
                self.newest = None;
            }
            5 => {
                // last completed tick t0, transfer in progress for t1: ticks in between are stale
                let l = self.raw(t0, 1);
                self.line(l);
                self.saw(t0);
                let d = self.small_data();
                self.line(format!("m {} 2 2 0 0 {}", t1, d));
                self.saw(t1);
                if t1 - t0 >= 2 {
                    let mid = if self.rng.chance(1, 2) { t0 + 1 } else { self.rng.range(t0 + 1, t1 - 1) };
                    let form = self.rng.below(3);
                    let l = self.raw(mid, form);
                    self.line(l);
                }
                if let Some(l) = self.older() {
                    self.line(l);
                }
            }
            _ => {
                // a completed older multi-part transfer
                self.line(format!("m {} 0 2 1 9 01", t1));
                self.line(format!("m {} 0 2 0 9 02", t1));
                self.saw(t1);
            }
        }
    }
    /// feeds the parts in `order`, with optional noise, then some messages after completion
    fn deliver(&mut self, tick: i64, order: &[usize], noise: bool) {
        let mut fed: Vec<usize> = vec![];
        for &i in order {
            if noise {
                while self.rng.chance(1, 4) {
                    if !fed.is_empty() && self.rng.chance(1, 2) {
                        let j = *self.rng.pick(&fed);
                        self.line(format!("p {}", j));
                    } else if let Some(l) = self.older() {
                        self.line(l);
                    }
                }
            }
            self.line(format!("p {}", i));
            self.saw(tick);
            fed.push(i);
        }
        // after completion: everything for the tick and everything older is refused
        let k = if noise { self.rng.below(4) } else { 1 };
        for _ in 0..k {
            if !order.is_empty() && self.rng.chance(2, 3) {
                let j = *self.rng.pick(order);
                self.line(format!("p {}", j));
            } else if let Some(l) = self.older() {
                self.line(l);
            }
        }
    }
}

fn permutations(n: usize) -> Vec<Vec<usize>> {
    fn go(cur: &mut Vec<usize>, used: &mut Vec<bool>, n: usize, out: &mut Vec<Vec<usize>>) {
        if cur.len() == n {
            out.push(cur.clone());
            return;
        }
        for i in 0..n {
            if !used[i] {
                used[i] = true;
                cur.push(i);
                go(cur, used, n, out);
                cur.pop();
                used[i] = false;
            }
        }
    }
    let mut out = vec![];
    go(&mut vec![], &mut vec![false; n], n, &mut out);
    out
}

fn shuffle(rng: &mut Rng, v: &mut Vec<usize>) {
    for i in (1..v.len()).rev() {
        let j = rng.below(i as u64 + 1) as usize;
        v.swap(i, j);
    }
}

impl Domain for D {
    fn runner(&self) -> Box<dyn Runner> {
        Box::new(R::new())
    }
    fn gen(&self, tier: &str, seed: u64, w: &mut dyn Write) {
        let thorough = tier == "thorough";
        let mut g = G { rng: Rng::new(seed ^ 0x72656376), w, newest: None };

        // (a) every tick/base pair of the boundary set, small transfers delivered in order
        let bt: &[i64] = &[0, 1, 2, 3, MAX - 1, MAX, -1, MIN];
        for &tick in bt {
            for &base in bt {
                let k = g.rng.below(4) as usize;
                let len = len_for_parts(&mut g.rng, k);
                g.new_session(tick, base, len);
                let order: Vec<usize> = (0..k.max(1)).collect();
                g.deliver(tick, &order, false);
            }
        }

        // (b) all permutations of up to 5 parts (thorough: 7), rotating preludes and tick pairs
        let maxk = if thorough { 7 } else { 5 };
        let mut v = 0u64;
        for k in 0..=maxk {
            for perm in permutations(k.max(1)) {
                let tick = pick_tick(&mut g.rng);
                let base = if g.rng.chance(1, 2) { tick - 1 } else { pick_tick(&mut g.rng) };
                let base = base.max(MIN).min(MAX);
                let len = len_for_parts(&mut g.rng, k);
                g.new_session(tick, base, len);
                g.prelude(tick, v);
                v += 1;
                g.deliver(tick, &perm, false);
            }
        }

        // (c) sampled orders with duplication and older-tick noise, every part count 0..32
        let rounds = if thorough { 400 } else { 12 };
        for round in 0..rounds {
            for k in 0..=MAX_PARTS {
                let tick = pick_tick(&mut g.rng);
                let base = if g.rng.chance(1, 3) { (tick - 1).max(MIN) } else { pick_tick(&mut g.rng) };
                let len = len_for_parts(&mut g.rng, k);
                g.new_session(tick, base, len);
                let _ = round;
                let pv = g.rng.below(7);
                g.prelude(tick, pv);
                let mut order: Vec<usize> = (0..k.max(1)).collect();
                shuffle(&mut g.rng, &mut order);
                g.deliver(tick, &order, true);
            }
        }

        // (d) a newer tick arrives in the middle: the transfer is abandoned
        let n = if thorough { 4000 } else { 200 };
        for _ in 0..n {
            let k = g.rng.range(2, 8) as usize;
            let tick = loop {
                let t = pick_tick(&mut g.rng);
                if t < MAX {
                    break t;
                }
            };
            let base = pick_tick(&mut g.rng);
            let len = len_for_parts(&mut g.rng, k);
            g.new_session(tick, base, len);
            let pv = g.rng.below(7);
            g.prelude(tick, pv);
            let mut order: Vec<usize> = (0..k).collect();
            shuffle(&mut g.rng, &mut order);
            let cut = g.rng.below(k as u64) as usize; // 0..k-1 parts before the newer tick
            let (a, b) = order.split_at(cut);
            for &i in a {
                g.line(format!("p {}", i));
                g.saw(tick);
            }
            let newer = if g.rng.chance(1, 2) { tick + 1 } else { g.rng.range(tick + 1, MAX) };
            let form = g.rng.below(3);
            let l = g.raw(newer, form);
            g.line(l);
            g.saw(newer);
            for &i in b {
                g.line(format!("p {}", i));
                if g.rng.chance(1, 4) {
                    if let Some(l) = g.older() {
                        g.line(l);
                    }
                }
            }
        }

        // (d2) one part arrives with an altered checksum or base tick field (before, instead of or
        // after the true copy): the delivery carries the first part's attributes, the odd part is
        // warned about
        let n = if thorough { 3000 } else { 150 };
        for _ in 0..n {
            let k = g.rng.range(2, 6) as usize;
            let tick = pick_tick(&mut g.rng);
            let base = pick_tick(&mut g.rng);
            let len = len_for_parts(&mut g.rng, k);
            g.new_session(tick, base, len);
            let pv = g.rng.below(7);
            g.prelude(tick, pv);
            let mut order: Vec<usize> = (0..k).collect();
            shuffle(&mut g.rng, &mut order);
            let bad = g.rng.below(k as u64) as usize;
            let (dcrc, ddt) = match g.rng.below(3) {
                0 => (*g.rng.pick(&[1i64, -1, 256]), 0),
                1 => (0, *g.rng.pick(&[1i64, -1, 7])),
                _ => (1, 1),
            };
            let mode = g.rng.below(3);
            for (pos, &i) in order.iter().enumerate() {
                if pos == bad {
                    match mode {
                        0 => g.line(format!("pg {} {} {}", i, dcrc, ddt)),
                        1 => {
                            g.line(format!("pg {} {} {}", i, dcrc, ddt));
                            g.line(format!("p {}", i));
                        }
                        _ => {
                            g.line(format!("p {}", i));
                            g.line(format!("pg {} {} {}", i, dcrc, ddt));
                        }
                    }
                } else {
                    g.line(format!("p {}", i));
                }
                g.saw(tick);
            }
            g.line(format!("p {}", order[0]));
        }

        // (e) oversize data: more than 32 parts (the receiver refuses every part)
        for &len in &[MAX_PARTS * PART + 1, 33 * PART, 40 * PART + 17] {
            g.new_session(5, 4, len);
            g.line("p 0".to_string());
            g.line("p 32".to_string());
            g.line("c 32".to_string());
        }

        // (f) malformed / inconsistent streams (correspondence; the general oracle clauses still apply)
        let n = if thorough { 20000 } else { 700 };
        let odd: &[i64] = &[-1, 0, 1, 2, 3, 31, 32, 33, MAX, MIN];
        for _ in 0..n {
            let tick = pick_tick(&mut g.rng);
            let k = g.rng.below(4) as usize;
            let len = len_for_parts(&mut g.rng, k);
            let base = pick_tick(&mut g.rng);
            g.new_session(tick, base, len);
            let steps = g.rng.range(3, 25);
            for _ in 0..steps {
                let t = match g.rng.below(6) {
                    0 => (tick - 1).max(MIN),
                    1 => (tick + 1).min(MAX),
                    2 => pick_tick(&mut g.rng),
                    _ => tick,
                };
                match g.rng.below(10) {
                    0 => {
                        let l = g.raw(t, 0);
                        g.line(l);
                    }
                    1 => {
                        let l = g.raw(t, 1);
                        g.line(l);
                    }
                    2 => g.line("reset".to_string()),
                    3 | 4 => {
                        let i = g.rng.below(k.max(1) as u64);
                        g.line(format!("p {}", i));
                    }
                    _ => {
                        let n = if g.rng.chance(1, 4) { *g.rng.pick(odd) } else { g.rng.range(1, 4) };
                        let part = if g.rng.chance(1, 4) { *g.rng.pick(odd) } else { g.rng.range(0, 3) };
                        let dt = g.rng.range(0, 2);
                        let crc = g.rng.range(0, 1);
                        let d = g.small_data();
                        g.line(format!("m {} {} {} {} {} {}", t, dt, n, part, crc, d));
                    }
                }
            }
        }
    }
}
