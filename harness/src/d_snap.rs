//! Domain `snap`: `snapshot/src/{snap,format,read_int}.rs` (raw snapshots, deltas, wire forms,
//! UUID item types, builder, recycle) and the bundled C++ reference.  Properties C09, C10, C11.
//! Line protocol: see `lean/Tw/Drv/Snap.lean` (the two must print identical lines).
use crate::util::*;
use libtw2_packer::with_packer;
use libtw2_packer::IntUnpacker;
use libtw2_packer::Unpacker;
use libtw2_snapshot::format::TypeId;
use libtw2_snapshot::format::Warning;
use libtw2_snapshot::snap::Builder;
use libtw2_snapshot::snap::BuilderError;
use libtw2_snapshot::snap::Delta;
use libtw2_snapshot::snap::Error;
use libtw2_snapshot::snap::RawBuilder;
use libtw2_snapshot::snap::RawSnap;
use libtw2_snapshot::snap::Snap;
use libtw2_snapshot::Storage;
use libtw2_snapshot_reference::snap as refsnap;
use std::collections::BTreeMap;
use std::io::Write;
use uuid::Uuid;

pub struct D;

// ---------------------------------------------------------------------------------------------
// allocation accounting (C11: "never … allocates beyond a small multiple of the input").
// A counting global allocator: bytes currently allocated and their peak.  There must be exactly one
// `#[global_allocator]` in the crate; if another domain needs it, move this block to util.rs.

pub mod alloc_count {
    use std::alloc::{GlobalAlloc, Layout, System};
    use std::sync::atomic::{AtomicUsize, Ordering};

    pub struct Counting;
    static CUR: AtomicUsize = AtomicUsize::new(0);
    static PEAK: AtomicUsize = AtomicUsize::new(0);

    #[inline]
    fn add(n: usize) {
        let c = CUR.fetch_add(n, Ordering::Relaxed).wrapping_add(n);
        PEAK.fetch_max(c, Ordering::Relaxed);
    }
    #[inline]
    fn sub(n: usize) {
        CUR.fetch_sub(n, Ordering::Relaxed);
    }

    unsafe impl GlobalAlloc for Counting {
        unsafe fn alloc(&self, l: Layout) -> *mut u8 {
            // the request is recorded even if it cannot be served (a refused huge reservation
            // aborts the process; the peak of the requests before it is what the oracle reports)
            add(l.size());
            let p = System.alloc(l);
            if p.is_null() {
                sub(l.size());
            }
            p
        }
        unsafe fn alloc_zeroed(&self, l: Layout) -> *mut u8 {
            add(l.size());
            let p = System.alloc_zeroed(l);
            if p.is_null() {
                sub(l.size());
            }
            p
        }
        unsafe fn dealloc(&self, p: *mut u8, l: Layout) {
            System.dealloc(p, l);
            sub(l.size());
        }
        unsafe fn realloc(&self, p: *mut u8, l: Layout, new_size: usize) -> *mut u8 {
            if new_size > l.size() {
                add(new_size - l.size());
            }
            let q = System.realloc(p, l, new_size);
            if q.is_null() {
                if new_size > l.size() {
                    sub(new_size - l.size());
                }
            } else if new_size < l.size() {
                sub(l.size() - new_size);
            }
            q
        }
    }

    /// runs `f` and returns its result and the peak number of bytes allocated *during* the call
    /// over what was allocated when it started
    pub fn measure<T>(f: impl FnOnce() -> T) -> (T, usize) {
        let base = CUR.load(Ordering::Relaxed);
        PEAK.store(base, Ordering::Relaxed);
        let r = f();
        (r, PEAK.load(Ordering::Relaxed).saturating_sub(base))
    }
}

#[global_allocator]
static GLOBAL_ALLOC: alloc_count::Counting = alloc_count::Counting;

/// the bound of the allocation oracle: peak ≤ ALLOC_FACTOR · input bytes + ALLOC_SLACK
const ALLOC_FACTOR: usize = 32;
const ALLOC_SLACK: usize = 4096;

fn alloc_oracle(what: &str, input_bytes: usize, peak: usize, o: &mut Oracle) {
    o.add("alloc_checked", 1);
    // (calibration aid: TW_ALLOC_FACTOR / TW_ALLOC_SLACK override the bound)
    let factor = std::env::var("TW_ALLOC_FACTOR").ok().and_then(|x| x.parse().ok()).unwrap_or(ALLOC_FACTOR);
    let slack = std::env::var("TW_ALLOC_SLACK").ok().and_then(|x| x.parse().ok()).unwrap_or(ALLOC_SLACK);
    if peak > factor * input_bytes + slack {
        o.fail(
            "C11/allocation-exceeds-input-multiple",
            format!("{}: peak {} bytes allocated while parsing {} input bytes (bound {}·input + {})", what, peak, input_bytes, factor, slack),
        );
    }
}

pub fn domain() -> Box<dyn Domain> {
    Box::new(D)
}

type ObjSize = fn(u16) -> Option<u32>;
type It = (u16, u16, Vec<i32>);

fn osz_none(_: u16) -> Option<u32> {
    None
}

/// a synthetic table with pre-agreed sizes 0, 1, 2, 3 (no bundled protocol has a zero entry; the
/// property quantifies over "item lengths 0..3 with pre-agreed and explicit item sizes")
fn osz_syn(t: u16) -> Option<u32> {
    match t {
        40 => Some(0),
        41 => Some(1),
        42 => Some(2),
        43 => Some(3),
        _ => None,
    }
}

fn parse_osz(s: &str) -> Option<ObjSize> {
    Some(match s {
        "none" => osz_none,
        "syn" => osz_syn,
        "ddnet" => libtw2_gamenet_ddnet::snap_obj::obj_size,
        "tw06" => libtw2_gamenet_teeworlds_0_6::snap_obj::obj_size,
        "tw07" => libtw2_gamenet_teeworlds_0_7::snap_obj::obj_size,
        "tw05" => libtw2_gamenet_teeworlds_0_5::snap_obj::obj_size,
        _ => return None,
    })
}

// ---------------------------------------------------------------------------------------------
// formatting (mirrors Tw/Drv/Snap.lean)

fn short(s: String) -> String {
    if s.len() > 120 {
        format!("#{}/{}", fnv_bytes(FNV_OFFSET, s.as_bytes()), s.len())
    } else {
        s
    }
}

fn fmt_ints_raw(xs: &[i32]) -> String {
    let mut s = String::with_capacity(xs.len() * 4);
    for (i, x) in xs.iter().enumerate() {
        if i > 0 {
            s.push(',');
        }
        s.push_str(&x.to_string());
    }
    s
}

fn fmt_ints(xs: &[i32]) -> String {
    if xs.is_empty() {
        "-".to_string()
    } else {
        fmt_ints_raw(xs)
    }
}

fn fmt_items(its: &[It]) -> String {
    if its.is_empty() {
        return "-".to_string();
    }
    let v: Vec<String> = its.iter().map(|(t, id, d)| format!("{}.{}:{}", t, id, fmt_ints_raw(d))).collect();
    v.join(";")
}

fn wname(w: &Warning) -> String {
    match w {
        Warning::Packer(p) => format!("Packer:{:?}", p),
        other => format!("{:?}", other),
    }
}

fn fmt_ws(ws: &[Warning]) -> String {
    list_str(ws.iter().map(wname))
}

fn raw_items(s: &RawSnap) -> Vec<It> {
    s.items().map(|i| (i.raw_type_id, i.id, i.data.to_vec())).collect()
}

fn fmt_raw(s: &RawSnap) -> String {
    format!("R[{}|{}]", short(fmt_items(&raw_items(s))), s.crc())
}

fn fmt_tid(t: &TypeId) -> String {
    match t {
        TypeId::Ordinal(n) => format!("o{}", n),
        TypeId::Uuid(u) => format!("u{}", to_hex(u.as_bytes())),
    }
}

fn snap_items(s: &Snap) -> Result<Vec<(TypeId, u16, Vec<i32>)>, String> {
    catch(|| s.items().map(|i| (i.type_id, i.id, i.data.to_vec())).collect())
}

fn fmt_snap_items(s: &Snap) -> String {
    match snap_items(s) {
        Err(_) => "panic".to_string(),
        Ok(l) => {
            if l.is_empty() {
                "-".to_string()
            } else {
                let v: Vec<String> = l.iter().map(|(t, id, d)| format!("{}.{}:{}", fmt_tid(t), id, fmt_ints_raw(d))).collect();
                v.join(";")
            }
        }
    }
}

const INT_CAP: usize = 120_000;
const BYTE_CAP: usize = 600_000;

thread_local! {
    static IBUF: std::cell::RefCell<Vec<i32>> = std::cell::RefCell::new(vec![0i32; INT_CAP]);
    static BBUF: std::cell::RefCell<Vec<u8>> = std::cell::RefCell::new(vec![0u8; BYTE_CAP]);
}

/// scratch output buffers, allocated once (the callers copy the written prefix out)
fn with_ibuf<T>(f: impl FnOnce(&mut [i32]) -> T) -> T {
    IBUF.with(|b| f(&mut b.borrow_mut()[..]))
}
fn with_bbuf<T>(f: impl FnOnce(&mut [u8]) -> T) -> T {
    BBUF.with(|b| f(&mut b.borrow_mut()[..]))
}

enum Wr<T> {
    Ok(T),
    Capacity,
    Panic,
}

fn snap_write_ints(s: &Snap) -> Wr<Vec<i32>> {
    let mut keys = vec![];
    match with_ibuf(|out| catch(|| s.write_to_ints(&mut keys, out).map(|x| x.to_vec()))) {
        Err(_) => Wr::Panic,
        Ok(Err(_)) => Wr::Capacity,
        Ok(Ok(v)) => Wr::Ok(v),
    }
}

fn raw_write_ints(s: &RawSnap) -> Wr<Vec<i32>> {
    let mut keys = vec![];
    match with_ibuf(|out| catch(|| s.write_to_ints(&mut keys, out).map(|x| x.to_vec()))) {
        Err(_) => Wr::Panic,
        Ok(Err(_)) => Wr::Capacity,
        Ok(Ok(v)) => Wr::Ok(v),
    }
}

fn raw_write_bytes(s: &RawSnap) -> Wr<Vec<u8>> {
    let mut keys = vec![];
    match with_bbuf(|out| catch(|| with_packer(&mut out[..], |p| s.write(&mut keys, p).map(|x| x.to_vec())))) {
        Err(_) => Wr::Panic,
        Ok(Err(_)) => Wr::Capacity,
        Ok(Ok(v)) => Wr::Ok(v),
    }
}

fn fmt_wr_ints(w: &Wr<Vec<i32>>) -> String {
    match w {
        Wr::Ok(v) => fmt_ints(v),
        Wr::Capacity => "capacity".to_string(),
        Wr::Panic => "panic".to_string(),
    }
}

fn fmt_snap(s: &Snap) -> String {
    format!("S[{}|{}|{}]", short(fmt_wr_ints(&snap_write_ints(s))), s.crc(), short(fmt_snap_items(s)))
}

fn pack_ints(xs: &[i32]) -> Vec<u8> {
    let mut out = vec![0u8; xs.len() * 5 + 8];
    with_packer(&mut out[..], |mut p| {
        for &x in xs {
            p.write_int(x).unwrap();
        }
        p.written().to_vec()
    })
}

/// canonical delta `D[deleted|updates]` reconstructed from the explicit-size integer form
fn fmt_delta(d: &Delta) -> String {
    let xs = match with_ibuf(|out| catch(|| d.write_to_ints(osz_none, out).map(|x| x.to_vec()))) {
        Ok(Ok(v)) => v,
        _ => return "D[?]".to_string(),
    };
    let nd = xs[0] as usize;
    let del = &xs[3..3 + nd];
    let mut ups: Vec<It> = vec![];
    let mut i = 3 + nd;
    while i < xs.len() {
        let n = xs[i + 2] as usize;
        ups.push((xs[i] as u16, xs[i + 1] as u16, xs[i + 3..i + 3 + n].to_vec()));
        i += 3 + n;
    }
    format!("D[{}|{}]", fmt_ints(del), fmt_items(&ups))
}

fn delta_write_ints(d: &Delta, osz: ObjSize) -> Option<Vec<i32>> {
    match with_ibuf(|out| catch(|| d.write_to_ints(osz, out).map(|x| x.to_vec()))) {
        Ok(Ok(v)) => Some(v),
        _ => None,
    }
}

fn delta_write_bytes(d: &Delta, osz: ObjSize) -> Option<Vec<u8>> {
    match with_bbuf(|out| catch(|| with_packer(&mut out[..], |p| d.write(osz, p).map(|x| x.to_vec())))) {
        Ok(Ok(v)) => Some(v),
        _ => None,
    }
}

enum Rs<T> {
    Ok(T, Vec<Warning>),
    Err(Error),
    Panic,
}

fn read_delta_ints(osz: ObjSize, xs: &[i32]) -> Rs<Delta> {
    let mut d = Delta::new();
    let mut ws = vec![];
    match catch(|| d.read_from_ints(&mut ws, osz, &mut IntUnpacker::new(xs))) {
        Err(_) => Rs::Panic,
        Ok(Err(e)) => Rs::Err(e),
        Ok(Ok(())) => Rs::Ok(d, ws),
    }
}

fn read_delta_bytes(osz: ObjSize, bs: &[u8]) -> Rs<Delta> {
    let mut d = Delta::new();
    let mut ws = vec![];
    match catch(|| d.read(&mut ws, osz, &mut Unpacker::new(bs))) {
        Err(_) => Rs::Panic,
        Ok(Err(e)) => Rs::Err(e),
        Ok(Ok(())) => Rs::Ok(d, ws),
    }
}

fn fmt_read_delta(r: &Rs<Delta>) -> String {
    match r {
        Rs::Ok(d, ws) => format!("ok:{}:{}", short(fmt_delta(d)), fmt_ws(ws)),
        Rs::Err(e) => format!("err:{:?}", e),
        Rs::Panic => "panic".to_string(),
    }
}

fn raw_apply(a: &RawSnap, d: &Delta) -> Rs<RawSnap> {
    let mut out = RawSnap::empty();
    let mut ws = vec![];
    match catch(|| out.read_with_delta(&mut ws, a, d)) {
        Err(_) => Rs::Panic,
        Ok(Err(e)) => Rs::Err(e),
        Ok(Ok(())) => Rs::Ok(out, ws),
    }
}

fn fmt_raw_res(r: &Rs<RawSnap>) -> String {
    match r {
        Rs::Ok(s, ws) => format!("ok:{}:{}", fmt_raw(s), fmt_ws(ws)),
        Rs::Err(e) => format!("err:{:?}", e),
        Rs::Panic => "panic".to_string(),
    }
}

fn snap_apply(a: &Snap, d: &Delta) -> Rs<Snap> {
    let mut out = Snap::empty();
    let mut ws = vec![];
    match catch(|| out.read_with_delta(&mut ws, a, d)) {
        Err(_) => Rs::Panic,
        Ok(Err(e)) => Rs::Err(e),
        Ok(Ok(())) => Rs::Ok(out, ws),
    }
}

fn snap_read_ints(xs: &[i32]) -> Rs<Snap> {
    let mut out = Snap::empty();
    let mut ws = vec![];
    match catch(|| out.read_from_ints(&mut ws, xs)) {
        Err(_) => Rs::Panic,
        Ok(Err(e)) => Rs::Err(e),
        Ok(Ok(())) => Rs::Ok(out, ws),
    }
}

fn snap_read_bytes(bs: &[u8]) -> Rs<Snap> {
    let mut out = Snap::empty();
    let mut ws = vec![];
    let mut buf = vec![];
    match catch(|| out.read(&mut ws, &mut buf, bs)) {
        Err(_) => Rs::Panic,
        Ok(Err(e)) => Rs::Err(e),
        Ok(Ok(())) => Rs::Ok(out, ws),
    }
}

fn fmt_snap_res(r: &Rs<Snap>) -> String {
    match r {
        Rs::Ok(s, ws) => format!("ok:{}:{}", fmt_snap(s), fmt_ws(ws)),
        Rs::Err(e) => format!("err:{:?}", e),
        Rs::Panic => "panic".to_string(),
    }
}

// ---------------------------------------------------------------------------------------------
// parsing

fn parse_ints(s: &str) -> Option<Vec<i32>> {
    if s == "-" || s.is_empty() {
        return Some(vec![]);
    }
    s.split(',').map(|x| x.parse().ok()).collect()
}

fn parse_item(s: &str) -> Option<It> {
    let (h, v) = s.split_once(':')?;
    let (t, id) = h.split_once('.')?;
    Some((t.parse().ok()?, id.parse().ok()?, parse_ints(v)?))
}

fn parse_items(s: &str) -> Option<Vec<It>> {
    if s == "-" {
        return Some(vec![]);
    }
    s.split(';').map(parse_item).collect()
}

fn parse_uuid(s: &str) -> Option<Uuid> {
    let bs = parse_hex(s)?;
    let arr: [u8; 16] = bs.try_into().ok()?;
    Some(Uuid::from_bytes(arr))
}

fn build_raw(its: &[It]) -> Result<RawSnap, String> {
    let mut b = RawBuilder::new();
    for (i, (t, id, d)) in its.iter().enumerate() {
        if let Err(e) = b.add_item(*t, *id, d) {
            return Err(format!("{:?}@{}", e, i));
        }
    }
    Ok(b.finish())
}

/// what the documented limits (1024 items, 64 KiB, distinct keys) say `add_item` must answer
fn expected_add(n_items: usize, words: usize, dup: bool, len: usize) -> &'static str {
    if dup {
        "DuplicateKey"
    } else if n_items + 1 > 1024 {
        "TooManyItems"
    } else if 4 * (2 + 2 * (n_items + 1) + words + len) > 65536 {
        "TooLongSnap"
    } else {
        "ok"
    }
}

/// C10: the builder accepts exactly the snapshots inside the limits
fn build_raw_checked(its: &[It], o: &mut Oracle) -> Result<RawSnap, String> {
    let mut b = RawBuilder::new();
    let mut keys = std::collections::BTreeSet::new();
    let mut words = 0usize;
    for (i, (t, id, d)) in its.iter().enumerate() {
        let want = expected_add(keys.len(), words, keys.contains(&key_of(*t, *id)), d.len());
        let r = b.add_item(*t, *id, d);
        let got = match &r {
            Ok(()) => "ok".to_string(),
            Err(e) => format!("{:?}", e),
        };
        if got != want {
            o.fail("C10+C11/builder-limit-mismatch", format!("add_item #{} ({} items, {} data words so far, {} new words): {} instead of {}", i, keys.len(), words, d.len(), got, want));
        }
        if let Err(e) = r {
            return Err(format!("{:?}@{}", e, i));
        }
        keys.insert(key_of(*t, *id));
        words += d.len();
    }
    Ok(b.finish())
}

fn key_of(t: u16, id: u16) -> i32 {
    (((t as u32) << 16) | id as u32) as i32
}

fn unsigned_sorted(its: &[It]) -> Vec<It> {
    let mut v = its.to_vec();
    v.sort_by_key(|(t, id, _)| ((*t as u32) << 16) | *id as u32);
    v
}

fn sizes_agree(a: &[It], b: &[It]) -> bool {
    let m: BTreeMap<i32, usize> = a.iter().map(|(t, id, d)| (key_of(*t, *id), d.len())).collect();
    b.iter().all(|(t, id, d)| m.get(&key_of(*t, *id)).map(|&l| l == d.len()).unwrap_or(true))
}

fn sizes_ok(osz: ObjSize, b: &[It]) -> bool {
    b.iter().all(|(t, _, d)| osz(*t).map(|s| s as usize == d.len()).unwrap_or(true))
}

// ---------------------------------------------------------------------------------------------
// the runner

struct R {
    refdeltas: BTreeMap<String, refsnap::Delta>,
    refout: Vec<i32>,
    refpool: Vec<refsnap::RawBuilder>,
}

/// builds with a pooled reference builder (allocating ~130 KiB per builder for every pair makes
/// glibc trim and regrow the heap constantly)
fn ref_build(pool: &mut Vec<refsnap::RawBuilder>, its: &[It]) -> (refsnap::RawSnap, Vec<i32>) {
    let mut b = pool.pop().unwrap_or_else(refsnap::RawBuilder::new);
    for (t, id, d) in its {
        b.add_item(*t, *id, d).unwrap();
    }
    let mut s = b.finish();
    let mut buf = vec![];
    let ints = with_ibuf(|out| s.write_to_ints(&mut buf, out).map(|x| x.to_vec()).unwrap_or_default());
    (s, ints)
}

impl R {
    /// `None`: the reference's output does not fit its 16384-integer buffer (the wrapper crate
    /// then fails a slice bound; the spare room keeps the C++ write inside our allocation)
    fn ref_delta(&mut self, oszname: &str, osz: ObjSize, a: &refsnap::RawSnap, b: &refsnap::RawSnap) -> Option<Vec<i32>> {
        let d = self.refdeltas.entry(oszname.to_string()).or_insert_with(refsnap::Delta::new);
        if self.refout.is_empty() {
            self.refout = vec![0i32; 40000];
        }
        let out = &mut self.refout;
        catch(|| d.create_raw_and_write_to_ints(a, b, osz, &mut out[..]).map(|x| x.to_vec()).unwrap_or_default()).ok()
    }

    fn op_pair(&mut self, oszname: &str, osz: ObjSize, ai: &[It], bi: &[It], a: &RawSnap, b: &RawSnap, o: &mut Oracle) -> String {
        let agree = sizes_agree(ai, bi);
        let okb = sizes_ok(osz, bi);
        let b_items = raw_items(b);
        // the checksum as documented (doc/snapshot.md): wrapping sum of all data words
        let b_crc = bi.iter().flat_map(|x| x.2.iter()).fold(0i32, |s, &v| s.wrapping_add(v));
        for (name, snap, its) in [("a", a, ai), ("b", b, bi)] {
            let want = its.iter().flat_map(|x| x.2.iter()).fold(0i32, |s, &v| s.wrapping_add(v));
            if snap.crc() != want {
                o.fail("C09+C10+C11/crc-mismatch", format!("snapshot {}: crc() = {} but the data words sum to {}", name, snap.crc(), want));
            }
        }
        let mut d = Delta::new();
        let created = catch(|| d.create_raw(a, b));
        let part1 = match created {
            Err(msg) => {
                if agree {
                    o.fail("C09/create-panics", format!("sizes agree but Delta::create panics: {}", msg));
                } else {
                    o.fail("C09/create-panics-on-size-change", format!("Delta::create panics for a key present with two lengths: {}", msg));
                }
                "d:panic".to_string()
            }
            Ok(()) => {
                let wi = delta_write_ints(&d, osz);
                let wb = delta_write_bytes(&d, osz);
                if okb && (wi.is_none() || wb.is_none()) {
                    o.fail("C09/delta-write-panics", "object sizes consistent but Delta::write panics".to_string());
                }
                let ri = wi.as_ref().map(|xs| read_delta_ints(osz, xs));
                let rb = wb.as_ref().map(|bs| read_delta_bytes(osz, bs));
                let ap = raw_apply(a, &d);
                // property oracle: apply(A, create(A, B)) = B, also through both wire forms, no warning
                let check = |what: &str, r: &Rs<RawSnap>, o: &mut Oracle| match r {
                    Rs::Ok(s, ws) => {
                        if raw_items(s) != b_items || s.crc() != b_crc {
                            o.fail("C09/delta-apply-differs", format!("{}: result differs from the target snapshot", what));
                        }
                        if !ws.is_empty() {
                            o.fail("C09/delta-apply-warns", format!("{}: warnings {}", what, fmt_ws(ws)));
                        }
                    }
                    Rs::Err(e) => o.fail("C09/delta-apply-differs", format!("{}: error {:?}", what, e)),
                    Rs::Panic => o.fail("C09/delta-apply-differs", format!("{}: panic", what)),
                };
                check("direct", &ap, o);
                for (what, r) in [("ints", &ri), ("bytes", &rb)] {
                    match r {
                        Some(Rs::Ok(d2, ws)) => {
                            if !ws.is_empty() {
                                o.fail("C09/delta-wire-warns", format!("{}: warnings {}", what, fmt_ws(ws)));
                            }
                            if fmt_delta(d2) != fmt_delta(&d) {
                                o.fail("C09/delta-wire-roundtrip", format!("{}: delta read back differs", what));
                            }
                            check(what, &raw_apply(a, d2), o);
                        }
                        Some(Rs::Err(e)) => o.fail("C09/delta-wire-roundtrip", format!("{}: error {:?}", what, e)),
                        Some(Rs::Panic) => o.fail("C09/delta-wire-roundtrip", format!("{}: panic", what)),
                        None => {}
                    }
                }
                format!(
                    "d:{} wi:{} wb:{} ri:{} rb:{} ap:{}",
                    short(fmt_delta(&d)),
                    wi.as_ref().map(|x| short(fmt_ints(x))).unwrap_or("panic".to_string()),
                    wb.as_ref().map(|x| short(to_hex(x))).unwrap_or("panic".to_string()),
                    ri.as_ref().map(fmt_read_delta).unwrap_or("-".to_string()),
                    rb.as_ref().map(fmt_read_delta).unwrap_or("-".to_string()),
                    fmt_raw_res(&ap)
                )
            }
        };
        let si = raw_write_ints(b);
        if let Wr::Ok(v) = &si {
            if !wire_layout_ok(v) {
                o.fail("C10+C11/wire-layout", "written snapshot: offsets not cumulative or keys not ascending (unsigned)".to_string());
            }
        }
        let sb = match raw_write_bytes(b) {
            Wr::Ok(v) => short(to_hex(&v)),
            Wr::Capacity => "capacity".to_string(),
            Wr::Panic => "panic".to_string(),
        };
        // C10 at the raw level: what was written is read back, in both forms, to the same snapshot
        let mut srt = "0";
        if let (Wr::Ok(xs), Wr::Ok(bs)) = (&si, &raw_write_bytes(b)) {
            let back_i = {
                let mut r = RawSnap::empty();
                let mut ws: Vec<Warning> = vec![];
                catch(|| r.read_from_ints(&mut ws, xs)).map(|x| x.map(|_| (r, ws)))
            };
            let back_b = {
                let mut r = RawSnap::empty();
                let mut ws: Vec<Warning> = vec![];
                let mut buf = vec![];
                catch(|| r.read(&mut ws, &mut buf, bs)).map(|x| x.map(|_| (r, ws)))
            };
            let mut good = true;
            for (name, back) in [("ints", &back_i), ("bytes", &back_b)] {
                match back {
                    Ok(Ok((r, ws))) => {
                        if raw_items(r) != b_items || r.crc() != b_crc || !ws.is_empty() {
                            good = false;
                            o.fail("C10/roundtrip-differs", format!("raw snapshot read back from {} differs (or warns: {})", name, fmt_ws(ws)));
                        }
                    }
                    Ok(Err(e)) => {
                        good = false;
                        o.fail("C10/roundtrip-rejected", format!("raw snapshot of {} items written, but reading it back from {} is refused with {:?}", b_items.len(), name, e));
                    }
                    Err(msg) => {
                        good = false;
                        o.fail("C10/roundtrip-rejected", format!("reading back from {} panics: {}", name, msg));
                    }
                }
            }
            if good {
                srt = "1";
            }
        }
        // (a pre-agreed size of 0 means "unset" in the reference's table: outside its domain)
        let zero_sized = ai.iter().chain(bi.iter()).any(|x| osz(x.0) == Some(0));
        let in_ref = ai.iter().all(|x| x.0 < 0x8000) && bi.iter().all(|x| x.0 < 0x8000) && agree && okb && !zero_sized;
        let part2 = if in_ref {
            let ua = unsigned_sorted(ai);
            let ub = unsigned_sorted(bi);
            let (ra, _) = ref_build(&mut self.refpool, &ua);
            let (rbs, rs) = ref_build(&mut self.refpool, &ub);
            let rd = self.ref_delta(oszname, osz, &ra, &rbs);
            self.refpool.push(ra.recycle());
            self.refpool.push(rbs.recycle());
            let rd = match rd {
                Some(x) => x,
                None => return format!("{} si:{} sb:{} srt:{} ref:toolong", part1, short(fmt_wr_ints(&si)), sb, srt),
            };
            if let Wr::Ok(v) = &si {
                if *v != rs {
                    o.fail("C09/reference-snapshot-ints", "snapshot integers differ from the reference builder's".to_string());
                }
            }
            let rd2 = if rd.is_empty() { vec![0, 0, 0] } else { rd.clone() };
            let rr = read_delta_ints(osz, &rd2);
            let rap = match &rr {
                Rs::Ok(dl, _) => {
                    let r = raw_apply(a, dl);
                    match &r {
                        Rs::Ok(s, _) if raw_items(s) == b_items && s.crc() == b_crc => {}
                        _ => o.fail("C09/reference-delta-apply", "reference delta applied does not give the target".to_string()),
                    }
                    fmt_raw_res(&r)
                }
                _ => {
                    o.fail("C09/reference-delta-apply", "reference delta is not readable".to_string());
                    "-".to_string()
                }
            };
            let rm = if matches!(rr, Rs::Ok(..)) { "1" } else { "0" };
            format!("ref:{} rs:{} rr:{} rm:{} rap:{}", short(fmt_ints(&rd)), short(fmt_ints(&rs)), fmt_read_delta(&rr), rm, rap)
        } else {
            "ref:na".to_string()
        };
        format!("{} si:{} sb:{} srt:{} {}", part1, short(fmt_wr_ints(&si)), sb, srt, part2)
    }
}

fn new_uuid() -> Uuid {
    Uuid::from_bytes([0x01, 0x23, 0x45, 0x67, 0x89, 0xab, 0xcd, 0xef, 0x0f, 0xed, 0xcb, 0xa9, 0x87, 0x65, 0x43, 0x21])
}

fn fmt_add(r: &Result<Result<(), BuilderError>, String>) -> String {
    match r {
        Err(_) => "panic".to_string(),
        Ok(Ok(())) => "ok".to_string(),
        Ok(Err(e)) => format!("{:?}", e),
    }
}

/// registry entries `(id, uuid words)` of a snapshot, from its integer form
fn registry(ints: &[i32]) -> Vec<(u16, Vec<i32>)> {
    let n = ints[1] as usize;
    let mut out = vec![];
    for i in 0..n {
        let start = 2 + n + ints[2 + i] as usize / 4;
        let end = if i + 1 < n { 2 + n + ints[2 + i + 1] as usize / 4 } else { ints.len() };
        let key = ints[start];
        if (key as u32) >> 16 == 0 {
            out.push((key as u16, ints[start + 1..end].to_vec()));
        }
    }
    out
}

fn words_to_uuid(d: &[i32]) -> Option<Uuid> {
    if d.len() < 4 {
        return None;
    }
    let mut b = [0u8; 16];
    for i in 0..4 {
        b[i * 4..i * 4 + 4].copy_from_slice(&d[i].to_be_bytes());
    }
    Some(Uuid::from_bytes(b))
}

fn fmt_recycle(s: &Snap, o: &mut Oracle) -> String {
    let known = match snap_write_ints(s) {
        Wr::Ok(ints) => {
            if ints[1] > 0 && (ints[2 + ints[1] as usize] as u32) >> 16 == 0 {
                registry(&ints).first().and_then(|(_, d)| words_to_uuid(d))
            } else {
                None
            }
        }
        _ => None,
    };
    let mut b = match catch(|| s.clone().recycle()) {
        Err(msg) => {
            o.fail("C11/followup-panic", format!("recycle of an accepted snapshot panics: {}", msg));
            return "panic".to_string();
        }
        Ok(b) => b,
    };
    let r1 = catch(|| b.add_item(TypeId::Uuid(new_uuid()), 1, &[7]));
    if let Err(msg) = &r1 {
        o.fail("C11/followup-panic", format!("add_item of a new UUID type after recycle panics: {}", msg));
        return "add:panic".to_string();
    }
    match known {
        None => format!("add:{} {}", fmt_add(&r1), fmt_snap(&b.finish())),
        Some(u) => {
            let r2 = catch(|| b.add_item(TypeId::Uuid(u), 2, &[8, 9]));
            if let Err(msg) = &r2 {
                o.fail("C11/followup-panic", format!("add_item of a known UUID type after recycle panics: {}", msg));
                return format!("add:{} add2:panic", fmt_add(&r1));
            }
            format!("add:{} add2:{} {}", fmt_add(&r1), fmt_add(&r2), fmt_snap(&b.finish()))
        }
    }
}

/// `(number of items, number of data words, wrapping sum of the data words)` of a snapshot, obtained
/// without `write` (which asserts the limits): the delta from the empty snapshot lists every item
fn snap_facts(s: &Snap) -> Option<(usize, usize, i32)> {
    let mut d = Delta::new();
    catch(|| d.create(&Snap::empty(), s)).ok()?;
    let xs = delta_write_ints(&d, osz_none)?;
    let mut i = 3 + xs[0] as usize;
    let (mut n, mut words, mut sum) = (0usize, 0usize, 0i32);
    while i < xs.len() {
        let len = xs[i + 2] as usize;
        for &v in &xs[i + 3..i + 3 + len] {
            sum = sum.wrapping_add(v);
        }
        n += 1;
        words += len;
        i += 3 + len;
    }
    Some((n, words, sum))
}

/// the integers of a written snapshot are laid out as documented: header, cumulative offsets,
/// items in ascending *unsigned* key order
fn wire_layout_ok(xs: &[i32]) -> bool {
    if xs.len() < 2 || xs[1] < 0 {
        return false;
    }
    let n = xs[1] as usize;
    if xs.len() < 2 + n || xs[0] as usize != (xs.len() - 2 - n) * 4 {
        return false;
    }
    let mut prev_key: Option<u32> = None;
    for i in 0..n {
        let off = xs[2 + i];
        if off < 0 || off % 4 != 0 || (i == 0 && off != 0) || (i > 0 && off <= xs[2 + i - 1]) {
            return false;
        }
        let pos = 2 + n + off as usize / 4;
        if pos >= xs.len() {
            return false;
        }
        let key = xs[pos] as u32;
        if let Some(p) = prev_key {
            if key <= p {
                return false;
            }
        }
        prev_key = Some(key);
    }
    true
}

/// C11: every accepted snapshot obeys the limits, can be written and read back to an equal one,
/// and every other operation on it returns.
fn follow_ups(s: &Snap, o: &mut Oracle) -> String {
    match snap_facts(s) {
        Some((n_items, words, sum)) => {
            let bytes = 4 * (2 + 2 * n_items + words);
            if n_items > 1024 || bytes > 65536 {
                o.fail("C11/limits", format!("accepted snapshot with {} items, {} bytes", n_items, bytes));
            }
            if sum != s.crc() {
                o.fail("C09+C10+C11/crc-mismatch", format!("crc() = {} but the data words sum to {}", s.crc(), sum));
            }
        }
        None => o.fail("C11/followup-panic", "Delta::create from the empty snapshot fails".to_string()),
    }
    let wi = snap_write_ints(s);
    let mut n = 0;
    let mut rt = "0";
    match &wi {
        Wr::Ok(xs) => {
            n = xs[1];
            if !wire_layout_ok(xs) {
                o.fail("C10+C11/wire-layout", "written snapshot: offsets not cumulative or keys not ascending (unsigned)".to_string());
            }
            let items = fmt_snap_items(s);
            let same = |r: &Rs<Snap>| match r {
                // (warnings may repeat on the second read, e.g. ExcessUuidItemData)
                Rs::Ok(s2, _) => matches!(snap_write_ints(s2), Wr::Ok(ref ys) if ys == xs) && s2.crc() == s.crc() && fmt_snap_items(s2) == items,
                _ => false,
            };
            if same(&snap_read_ints(xs)) && same(&snap_read_bytes(&pack_ints(xs))) {
                rt = "1";
            } else {
                o.fail("C11/accepted-not-rewritable", "write + read of an accepted snapshot gives a different snapshot".to_string());
            }
            if items == "panic" {
                o.fail("C11/followup-panic", "items() panics".to_string());
            }
        }
        _ => o.fail("C11/accepted-not-rewritable", "write of an accepted snapshot fails".to_string()),
    }
    let empty = Snap::empty();
    let one = |name: &str, from: &Snap, to: &Snap, base: &Snap, with_delta: bool, o: &mut Oracle| -> String {
        let mut d = Delta::new();
        match catch(|| d.create(from, to)) {
            Err(msg) => {
                o.fail("C11/followup-panic", format!("{}: Delta::create panics: {}", name, msg));
                "panic".to_string()
            }
            Ok(()) => {
                let r = snap_apply(base, &d);
                if matches!(r, Rs::Panic) {
                    o.fail("C11/apply-panic", format!("{}: read_with_delta panics", name));
                }
                if with_delta {
                    format!("{}>{}", short(fmt_delta(&d)), fmt_snap_res(&r))
                } else {
                    fmt_snap_res(&r)
                }
            }
        }
    };
    let sd = one("self", s, s, s, true, o);
    let fe = one("from-empty", &empty, s, &empty, false, o);
    let te = one("to-empty", s, &empty, s, false, o);
    format!("n:{} rt:{} sd:{} fe:{} te:{} rec:{}", n, rt, sd, fe, te, fmt_recycle(s, o))
}

// ---- non-fresh targets (C10/C11): `read`, `read_from_ints`, `read_with_delta` write into a `&mut
// Snap` that may have held another snapshot before (`Storage` reuses its free list); the result must
// not depend on what the target held.

fn fixed_uuid(b: u8, last: u8) -> Uuid {
    let mut x = [b; 16];
    x[15] = last;
    Uuid::from_bytes(x)
}

/// a snapshot with two UUID types no generated input uses
fn dirty_disjoint() -> Snap {
    let mut b = Builder::new();
    let _ = b.add_item(TypeId::Uuid(fixed_uuid(0xdd, 1)), 1, &[1, 2, 3]);
    let _ = b.add_item(TypeId::Ordinal(5), 1, &[4]);
    let _ = b.add_item(TypeId::Uuid(fixed_uuid(0xee, 2)), 2, &[5]);
    b.finish()
}

/// the UUIDs named by the registry items of a snapshot
fn snap_uuids(s: &Snap) -> Vec<Uuid> {
    match snap_write_ints(s) {
        Wr::Ok(xs) if xs.len() >= 2 => registry(&xs).iter().filter_map(|(_, d)| words_to_uuid(d)).collect(),
        _ => vec![],
    }
}

/// everything the public API shows of a snapshot: wire form, crc, items, lookups by every UUID in
/// `uuids` (the snapshot's own and stale ones) and some ordinals, recycle + add
fn battery(s: &Snap, uuids: &[Uuid]) -> String {
    let mut out = fmt_snap(s);
    let ids: Vec<u16> = match snap_items(s) {
        Ok(l) => l.iter().map(|x| x.1).take(6).chain([0u16, 1, 2, 7]).collect(),
        Err(_) => vec![0, 1, 2, 7],
    };
    for u in uuids {
        for &id in &ids {
            let r = match catch(|| s.item(TypeId::Uuid(*u), id).map(|d| d.to_vec())) {
                Err(_) => "panic".to_string(),
                Ok(None) => "none".to_string(),
                Ok(Some(d)) => short(fmt_ints(&d)),
            };
            if r != "none" {
                out.push_str(&format!(" {}.{}={}", to_hex(u.as_bytes()), id, r));
            }
        }
    }
    for &t in &[1u16, 5, 13] {
        for &id in &ids {
            if let Ok(Some(d)) = catch(|| s.item(TypeId::Ordinal(t), id).map(|d| d.to_vec())) {
                out.push_str(&format!(" o{}.{}={}", t, id, short(fmt_ints(&d))));
            }
        }
    }
    let mut scratch = Oracle::new();
    out.push_str(" rec:");
    out.push_str(&fmt_recycle(s, &mut scratch));
    out
}

fn fmt_outcome(r: &Rs<Snap>, uuids: &[Uuid]) -> String {
    match r {
        Rs::Ok(s, ws) => format!("ok:{}:{}", fmt_ws(ws), battery(s, uuids)),
        Rs::Err(e) => format!("err:{:?}", e),
        Rs::Panic => "panic".to_string(),
    }
}

/// Repeats the read that gave `fresh` (into a fresh `Snap`) into three used targets — one that held
/// the same snapshot (same UUIDs), one with disjoint UUID types, one with a superset — and compares
/// the outcome and the whole query battery.
fn reuse_check(what: &str, fresh: &Rs<Snap>, read_into: &dyn Fn(&mut Snap, &mut Vec<Warning>) -> Result<(), Error>, o: &mut Oracle) {
    let disjoint = dirty_disjoint();
    let mut uuids = vec![fixed_uuid(0xdd, 1), fixed_uuid(0xee, 2), fixed_uuid(0xcc, 3)];
    let (same, superset) = match fresh {
        Rs::Ok(s, _) => {
            uuids.extend(snap_uuids(s));
            let sup = catch(|| {
                let mut b = s.clone().recycle();
                let _ = b.add_item(TypeId::Uuid(fixed_uuid(0xcc, 3)), 3, &[9]);
                // the items of the snapshot itself, so that it is a superset in items too
                b.finish()
            })
            .unwrap_or_else(|_| disjoint.clone());
            (s.clone(), sup)
        }
        _ => (disjoint.clone(), disjoint.clone()),
    };
    let want = fmt_outcome(fresh, &uuids);
    for (name, mut target) in [("same UUIDs", same), ("disjoint UUIDs", disjoint), ("a superset of the UUIDs", superset)] {
        let mut ws = vec![];
        let r = match catch(|| read_into(&mut target, &mut ws)) {
            Err(_) => Rs::Panic,
            Ok(Err(e)) => Rs::Err(e),
            Ok(Ok(())) => Rs::Ok(target, ws),
        };
        let got = fmt_outcome(&r, &uuids);
        o.add("reused_targets", 1);
        if got != want {
            let (a, b) = (want.chars().take(160).collect::<String>(), got.chars().take(160).collect::<String>());
            o.fail(
                "C10+C11/target-reuse-differs",
                format!("{} into a Snap that previously held a snapshot with {}: fresh target gives `{}`, used target gives `{}`", what, name, a, b),
            );
        }
    }
}

fn op_rsnap(r: Rs<Snap>, o: &mut Oracle) -> String {
    match r {
        Rs::Ok(s, ws) => format!("ok:{}:{} {}", fmt_snap(&s), fmt_ws(&ws), follow_ups(&s, o)),
        Rs::Err(e) => format!("err:{:?}", e),
        Rs::Panic => {
            o.fail("C11/parser-panic", "reading a snapshot panics".to_string());
            "panic".to_string()
        }
    }
}

/// C11 "every other snapshot operation": the client-side storage driven with an accepted base
/// snapshot and an accepted delta, then `new_builder` (which recycles whatever snapshot object is
/// in the free list, possibly one left half-built by a rejected delta) and the server-side
/// `add_snap`.  Oracle only (the model has no storage): nothing may panic.
fn storage_oracle(a: &Snap, d: &Delta, o: &mut Oracle) {
    let r = catch(|| {
        let mut st = Storage::new();
        let mut ws: Vec<libtw2_snapshot::storage::Warning> = vec![];
        let mut d0 = Delta::new();
        d0.create(&Snap::empty(), a);
        let _ = st.add_delta(&mut ws, None, -1, 1, &d0).map(|_| ());
        let _ = st.add_delta(&mut ws, None, 1, 2, d).map(|_| ());
        let mut b = st.new_builder();
        let _ = b.add_item(TypeId::Uuid(new_uuid()), 1, &[7]);
        let s = b.finish();
        let _ = st.add_snap(3, s);
        let _ = st.add_delta(&mut ws, None, 3, 4, d).map(|_| ());
        let _ = st.add_delta(&mut ws, None, -1, 5, d).map(|_| ());
        let mut b2 = st.new_builder();
        let _ = b2.add_item(TypeId::Uuid(new_uuid()), 2, &[8]);
        let _ = b2.finish();
    });
    if let Err(msg) = r {
        o.fail("C11/storage-panic", format!("Storage::add_delta / new_builder / add_snap on accepted values panics: {}", msg));
    }
}

fn op_rdelta(osz: ObjSize, r: Rs<Delta>, base: &[i32], o: &mut Oracle) -> String {
    match r {
        Rs::Err(e) => format!("err:{:?}", e),
        Rs::Panic => {
            o.fail("C11/parser-panic", "reading a delta panics".to_string());
            "panic".to_string()
        }
        Rs::Ok(d, ws) => {
            let wi = delta_write_ints(&d, osz);
            let rr = match &wi {
                None => {
                    o.fail("C11/accepted-not-rewritable", "accepted delta cannot be written".to_string());
                    "panic"
                }
                Some(xs) => {
                    let canon = fmt_delta(&d);
                    let same = |r: &Rs<Delta>| matches!(r, Rs::Ok(d2, _) if fmt_delta(d2) == canon);
                    if same(&read_delta_ints(osz, xs)) && same(&read_delta_bytes(osz, &pack_ints(xs))) {
                        "1"
                    } else {
                        o.fail("C11/accepted-not-rewritable", "write + read of an accepted delta gives a different delta".to_string());
                        "0"
                    }
                }
            };
            let ap = match snap_read_ints(base) {
                Rs::Ok(a, _) => match {
                    storage_oracle(&a, &d, o);
                    let r = snap_apply(&a, &d);
                    reuse_check("read_with_delta", &r, &|t, ws| t.read_with_delta(ws, &a, &d), o);
                    r
                } {
                    Rs::Ok(s, ws2) => format!("ok:{}:{} {}", fmt_snap(&s), fmt_ws(&ws2), follow_ups(&s, o)),
                    Rs::Err(e) => format!("err:{:?}", e),
                    Rs::Panic => {
                        o.fail("C11/apply-panic", "applying an accepted delta to an accepted snapshot panics".to_string());
                        "panic".to_string()
                    }
                },
                Rs::Err(e) => format!("base-err:{:?}", e),
                Rs::Panic => "base-panic".to_string(),
            };
            format!(
                "ok:{}:{} wi:{} rr:{} ap:{}",
                short(fmt_delta(&d)),
                fmt_ws(&ws),
                wi.as_ref().map(|x| short(fmt_ints(x))).unwrap_or("panic".to_string()),
                rr,
                ap
            )
        }
    }
}

// ---- builder op sequences (C10)

struct Vm {
    b: Option<Builder>,
    prev: Snap,
    cur: Vec<Option<Snap>>,
    out: Vec<String>,
    stop: bool,
    /// registry the recycled builder must still know: (id, uuid words)
    want: Vec<(u16, Vec<i32>)>,
    /// independent bookkeeping of what the builder holds, at the level of the public API (no type
    /// numbers): UUID types registered in this builder chain, (type, id) pairs added since the last
    /// recycle, raw item count and data words (registry items included)
    known: std::collections::BTreeSet<String>,
    added: std::collections::BTreeSet<(String, u16)>,
    n_items: usize,
    words: usize,
    recycled: bool,
}

/// what `Builder::add_item` must answer according to the documented limits, and the bookkeeping
/// update.  A new UUID type first costs its registry item (4 words).
fn vm_expect_add(vm: &mut Vm, tid: &TypeId, id: u16, len: usize) -> &'static str {
    let tkey = fmt_tid(tid);
    if let TypeId::Uuid(_) = tid {
        if !vm.known.contains(&tkey) {
            let r = expected_add(vm.n_items, vm.words, false, 4);
            if r != "ok" {
                return r;
            }
            vm.known.insert(tkey.clone());
            vm.n_items += 1;
            vm.words += 4;
        }
    }
    let r = expected_add(vm.n_items, vm.words, vm.added.contains(&(tkey.clone(), id)), len);
    if r == "ok" {
        vm.added.insert((tkey, id));
        vm.n_items += 1;
        vm.words += len;
    }
    r
}

fn parse_tid(k: &str, v: &str) -> Option<TypeId> {
    match k {
        "o" => Some(TypeId::Ordinal(v.parse().ok()?)),
        "u" => Some(TypeId::Uuid(parse_uuid(v)?)),
        _ => None,
    }
}

fn fmt_var(direct: &str, v: &Rs<Snap>) -> String {
    match v {
        Rs::Ok(s, ws) => {
            let a = fmt_snap(s);
            let base = if a == direct { "=".to_string() } else { a };
            if ws.is_empty() {
                base
            } else {
                format!("{}:{}", base, fmt_ws(ws))
            }
        }
        Rs::Err(e) => format!("err:{:?}", e),
        Rs::Panic => "panic".to_string(),
    }
}

fn res_snap(v: Rs<Snap>) -> Option<Snap> {
    match v {
        Rs::Ok(s, _) => Some(s),
        _ => None,
    }
}

fn vm_step(vm: &mut Vm, tok: &str, o: &mut Oracle) {
    if vm.stop {
        return;
    }
    let parts: Vec<&str> = tok.split('.').collect();
    let bad = |vm: &mut Vm| {
        vm.out.push("bad-op".to_string());
        vm.stop = true;
    };
    match parts.as_slice() {
        ["q", k, v, id] => {
            let (tid, id) = match (parse_tid(k, v), id.parse::<u16>()) {
                (Some(t), Ok(i)) => (t, i),
                _ => return bad(vm),
            };
            let rs: Vec<String> = vm
                .cur
                .iter()
                .map(|c| match c {
                    None => "na".to_string(),
                    Some(s) => match catch(|| s.item(tid, id).map(|d| d.to_vec())) {
                        Err(_) => "panic".to_string(),
                        Ok(None) => "none".to_string(),
                        Ok(Some(d)) => short(fmt_ints(&d)),
                    },
                })
                .collect();
            let valid = match tid {
                TypeId::Ordinal(x) => x > 0 && x < 0x4000,
                _ => true,
            };
            if valid {
                for (i, r) in rs.iter().enumerate().skip(1) {
                    if r != "na" && *r != rs[0] {
                        o.fail(
                            "C10/item-lookup-differs",
                            format!("item({}, {}) = {} on the original but {} on copy #{} (1 bytes, 2 ints, 3 delta)", fmt_tid(&tid), id, rs[0], r, i),
                        );
                    }
                }
            }
            vm.out.push(format!("q[{}]", rs.join("|")));
        }
        [k, v, id, data] => {
            let (tid, id, data) = match (parse_tid(k, v), id.parse::<u16>(), parse_ints(data)) {
                (Some(t), Ok(i), Some(d)) => (t, i, d),
                _ => return bad(vm),
            };
            let b = match vm.b.as_mut() {
                Some(b) => b,
                None => return bad(vm),
            };
            let valid = match tid {
                TypeId::Ordinal(x) => x > 0 && x < 0x4000,
                _ => true,
            };
            let r = catch(|| b.add_item(tid, id, &data));
            match r {
                Err(msg) => {
                    if valid {
                        o.fail("C10/builder-panic", format!("add_item({}, {}) panics: {}", fmt_tid(&tid), id, msg));
                    }
                    vm.out.push("panic".to_string());
                    vm.stop = true;
                }
                Ok(r) => {
                    let got = fmt_add(&Ok(r));
                    if valid {
                        let recycled = vm.recycled;
                        let want = vm_expect_add(vm, &tid, id, data.len());
                        if got != want {
                            o.fail(
                                if recycled { "C10/recycle-then-add-fails" } else { "C10/builder-add-unexpected" },
                                format!("add_item({}, {}, {} words) answers {} but the limits and the keys added so far say {}", fmt_tid(&tid), id, data.len(), got, want),
                            );
                        }
                    }
                    vm.out.push(got);
                }
            }
        }
        ["fin"] => {
            let b = match vm.b.take() {
                Some(b) => b,
                None => return bad(vm),
            };
            let s = b.finish();
            let direct = fmt_snap(&s);
            let wi = snap_write_ints(&s);
            if let Wr::Ok(xs) = &wi {
                if !wire_layout_ok(xs) {
                    o.fail("C10+C11/wire-layout", "written snapshot: offsets not cumulative or keys not ascending (unsigned)".to_string());
                }
            }
            if let Some((_, _, sum)) = snap_facts(&s) {
                if sum != s.crc() {
                    o.fail("C09+C10+C11/crc-mismatch", format!("crc() = {} but the data words sum to {}", s.crc(), sum));
                }
            }
            let (vb, vi) = match &wi {
                Wr::Ok(xs) => (snap_read_bytes(&pack_ints(xs)), snap_read_ints(xs)),
                _ => (Rs::Panic, Rs::Panic),
            };
            let mut d = Delta::new();
            let mut d15 = false;
            let vx = match catch(|| d.create(&vm.prev, &s)) {
                Err(_) => {
                    d15 = true;
                    Rs::Panic
                }
                Ok(()) => match delta_write_ints(&d, osz_none) {
                    None => Rs::Panic,
                    Some(xs) => match read_delta_ints(osz_none, &xs) {
                        Rs::Ok(d2, ws) => {
                            if ws.is_empty() {
                                snap_apply(&vm.prev, &d2)
                            } else {
                                Rs::Panic
                            }
                        }
                        Rs::Err(e) => Rs::Err(e),
                        Rs::Panic => Rs::Panic,
                    },
                },
            };
            if let Wr::Ok(xs) = &wi {
                let bs = pack_ints(xs);
                reuse_check("read", &vb, &|t, ws| t.read(ws, &mut vec![], &bs), o);
                reuse_check("read_from_ints", &vi, &|t, ws| t.read_from_ints(ws, xs), o);
            }
            if !d15 {
                if let Some(xs) = delta_write_ints(&d, osz_none) {
                    if let Rs::Ok(d2, _) = read_delta_ints(osz_none, &xs) {
                        let prev = vm.prev.clone();
                        reuse_check("read_with_delta", &vx, &|t, ws| t.read_with_delta(ws, &prev, &d2), o);
                    }
                }
            }
            // C10 oracle: each copy is indistinguishable from the original
            for (name, v, skip) in [("bytes", &vb, false), ("ints", &vi, false), ("delta", &vx, d15)] {
                if skip {
                    continue;
                }
                match v {
                    Rs::Ok(s2, ws) => {
                        if fmt_snap(s2) != direct {
                            o.fail("C10/roundtrip-differs", format!("{}: items / checksum / integers differ from the original", name));
                        }
                        if !ws.is_empty() {
                            o.fail("C10/roundtrip-warns", format!("{}: {}", name, fmt_ws(ws)));
                        }
                    }
                    Rs::Err(e) => o.fail("C10/roundtrip-rejected", format!("{}: a snapshot the builder accepted is refused with {:?}", name, e)),
                    Rs::Panic => o.fail("C10/roundtrip-rejected", format!("{}: panic", name)),
                }
            }
            // recycled builder still knows its UUID types
            if let Wr::Ok(xs) = &wi {
                let reg = registry(xs);
                for w in &vm.want {
                    if !reg.contains(w) {
                        o.fail("C10/recycle-loses-uuid-type", format!("type number {} is no longer bound to its UUID after recycle", w.0));
                    }
                }
            }
            vm.want.clear();
            vm.out.push(format!("fin[{}|b:{}|i:{}|x:{}]", direct, fmt_var(&direct, &vb), fmt_var(&direct, &vi), fmt_var(&direct, &vx)));
            vm.cur = vec![Some(s), res_snap(vb), res_snap(vi), res_snap(vx)];
        }
        ["rec", w] => {
            let idx = match *w {
                "d" => 0,
                "b" => 1,
                "i" => 2,
                _ => 3,
            };
            let (s, direct) = match (vm.cur.get(idx).cloned().flatten(), vm.cur.get(0).cloned().flatten()) {
                (Some(s), Some(d)) => (s, d),
                _ => {
                    vm.out.push("rec:na".to_string());
                    vm.stop = true;
                    return;
                }
            };
            if let Wr::Ok(xs) = snap_write_ints(&direct) {
                vm.want = registry(&xs).into_iter().map(|(id, d)| (id, d[..4.min(d.len())].to_vec())).collect();
            }
            match catch(|| s.recycle()) {
                Err(msg) => {
                    o.fail("C10/recycle-panic", format!("recycle of a copy (#{}) panics: {}", idx, msg));
                    vm.out.push("rec:panic".to_string());
                    vm.stop = true;
                }
                Ok(b) => {
                    vm.b = Some(b);
                    vm.prev = direct;
                    vm.cur = vec![];
                    vm.added.clear();
                    vm.n_items = vm.known.len();
                    vm.words = 4 * vm.known.len();
                    vm.recycled = true;
                    vm.out.push("rec:ok".to_string());
                }
            }
        }
        _ => bad(vm),
    }
}

// ---- the small universe of the exhaustive sweeps (mirrors uniKeys / uniItem / uniSnap)

const UNI_KEYS: [(u16, u16); 6] = [(13, 1), (32769, 7), (0, 16384), (16384, 2), (40, 3), (42, 9)];
const UNI_VALS: [i32; 5] = [0, 1, -1, i32::MIN, i32::MAX];

fn uni_item(c: usize) -> Option<Vec<i32>> {
    if c == 0 {
        None
    } else if c == 1 {
        Some(vec![])
    } else if c < 7 {
        Some(vec![UNI_VALS[(c - 2) % 5]])
    } else if c < 32 {
        Some(vec![UNI_VALS[(c - 7) % 5], UNI_VALS[(c - 7) / 5 % 5]])
    } else {
        Some(vec![UNI_VALS[(c - 32) % 5], UNI_VALS[(c - 32) / 5 % 5], UNI_VALS[(c - 32) / 25 % 5]])
    }
}

fn uni_items(ks: &[(u16, u16)], radix: usize, mut code: usize) -> Vec<It> {
    let mut out = vec![];
    for &(t, id) in ks {
        if let Some(d) = uni_item(code % radix) {
            out.push((t, id, d));
        }
        code /= radix;
    }
    out
}

impl Runner for R {
    fn run(&mut self, t: &[&str], o: &mut Oracle) -> String {
        match t {
            ["pair", oszname, a, b] => {
                let (osz, ai, bi) = match (parse_osz(oszname), parse_items(a), parse_items(b)) {
                    (Some(x), Some(y), Some(z)) => (x, y, z),
                    _ => return "bad-op".to_string(),
                };
                let a = match build_raw_checked(&ai, o) {
                    Ok(s) => s,
                    Err(e) => return format!("builderr:a:{}", e),
                };
                let b = match build_raw_checked(&bi, o) {
                    Ok(s) => s,
                    Err(e) => return format!("builderr:b:{}", e),
                };
                self.op_pair(oszname, osz, &ai, &bi, &a, &b, o)
            }
            ["sweep", oszname, mask, radix, lo, hi] => {
                let osz = match parse_osz(oszname) {
                    Some(x) => x,
                    None => return "bad-op".to_string(),
                };
                let mask: usize = mask.parse().unwrap();
                let radix: usize = radix.parse().unwrap();
                let lo: usize = lo.parse().unwrap();
                let hi: usize = hi.parse().unwrap();
                let ks: Vec<(u16, u16)> = UNI_KEYS.iter().enumerate().filter(|(i, _)| (mask >> i) & 1 == 1).map(|(_, k)| *k).collect();
                let total = radix.pow(ks.len() as u32);
                let mut h = FNV_OFFSET;
                for idx in lo..hi {
                    let ai = uni_items(&ks, radix, idx / total);
                    let bi = uni_items(&ks, radix, idx % total);
                    let a = build_raw(&ai).unwrap();
                    let b = build_raw(&bi).unwrap();
                    let line = self.op_pair(oszname, osz, &ai, &bi, &a, &b, o);
                    h = fnv_bytes(h, line.as_bytes());
                    h = fnv_byte(h, 10);
                }
                o.add("pairs_swept", (hi.max(lo) - lo) as u64);
                format!("h {}", h)
            }
            ["rsnap", "i", d] => match parse_ints(d) {
                Some(xs) => {
                    let (r, peak) = alloc_count::measure(|| snap_read_ints(&xs));
                    alloc_oracle("Snap::read_from_ints", xs.len() * 4, peak, o);
                    reuse_check("read_from_ints", &r, &|t, ws| t.read_from_ints(ws, &xs), o);
                    op_rsnap(r, o)
                }
                None => "bad-op".to_string(),
            },
            ["rsnap", "b", d] => match parse_hex(d) {
                Some(bs) => {
                    let (r, peak) = alloc_count::measure(|| snap_read_bytes(&bs));
                    alloc_oracle("Snap::read", bs.len(), peak, o);
                    reuse_check("read", &r, &|t, ws| t.read(ws, &mut vec![], &bs), o);
                    op_rsnap(r, o)
                }
                None => "bad-op".to_string(),
            },
            ["rdelta", oszname, "i", d, base] => match (parse_osz(oszname), parse_ints(d), parse_ints(base)) {
                (Some(osz), Some(xs), Some(base)) => {
                    let (r, peak) = alloc_count::measure(|| read_delta_ints(osz, &xs));
                    alloc_oracle("Delta::read_from_ints", xs.len() * 4, peak, o);
                    op_rdelta(osz, r, &base, o)
                }
                _ => "bad-op".to_string(),
            },
            ["rdelta", oszname, "b", d, base] => match (parse_osz(oszname), parse_hex(d), parse_ints(base)) {
                (Some(osz), Some(bs), Some(base)) => {
                    let (r, peak) = alloc_count::measure(|| read_delta_bytes(osz, &bs));
                    alloc_oracle("Delta::read", bs.len(), peak, o);
                    op_rdelta(osz, r, &base, o)
                }
                _ => "bad-op".to_string(),
            },
            ["build", rest @ ..] => {
                let mut vm = Vm {
                    b: Some(Builder::new()),
                    prev: Snap::empty(),
                    cur: vec![],
                    out: vec![],
                    stop: false,
                    want: vec![],
                    known: Default::default(),
                    added: Default::default(),
                    n_items: 0,
                    words: 0,
                    recycled: false,
                };
                for tok in rest {
                    vm_step(&mut vm, tok, o);
                }
                vm.out.join(" ")
            }
            _ => "bad-op".to_string(),
        }
    }
}

// ---------------------------------------------------------------------------------------------
// generators

const TYPES: [u16; 26] = [1, 2, 5, 12, 13, 14, 20, 23, 24, 40, 40, 41, 42, 63, 64, 100, 0x3fff, 0x4000, 0x4001, 0x7fff, 0x8000, 0x8001, 0xfffe, 0xffff, 0, 0];
const IDS: [u16; 8] = [0, 1, 2, 7, 0x3fff, 0x4000, 0x7fff, 0xffff];
const VALS: [i32; 9] = [0, 1, -1, i32::MIN, i32::MAX, 2, -2, i32::MIN + 1, i32::MAX - 1];

fn gen_val(rng: &mut Rng) -> i32 {
    if rng.chance(2, 3) {
        *rng.pick(&VALS)
    } else {
        rng.next() as i32
    }
}

fn gen_len(rng: &mut Rng, osz: ObjSize, t: u16) -> usize {
    match osz(t) {
        Some(s) if !rng.chance(1, 40) => s as usize,
        _ => {
            if t == 0 && rng.chance(3, 4) {
                4
            } else {
                *rng.pick(&[0usize, 0, 1, 1, 2, 3, 4, 5, 8])
            }
        }
    }
}

fn gen_key(rng: &mut Rng, low_only: bool) -> (u16, u16) {
    let t = loop {
        let t = if rng.chance(9, 10) { *rng.pick(&TYPES) } else { rng.next() as u16 };
        if !low_only || t < 0x8000 {
            break t;
        }
    };
    let id = if rng.chance(9, 10) { *rng.pick(&IDS) } else { rng.next() as u16 };
    (t, id)
}

fn gen_items(rng: &mut Rng, osz: ObjSize, n: usize, low_only: bool) -> Vec<It> {
    let mut seen = std::collections::BTreeSet::new();
    let mut out = vec![];
    for _ in 0..n {
        let (t, id) = gen_key(rng, low_only);
        if !seen.insert((t, id)) {
            continue;
        }
        let len = gen_len(rng, osz, t);
        out.push((t, id, (0..len).map(|_| gen_val(rng)).collect()));
    }
    out
}

/// give most extended types (>= 0x4000) their registry item, so that `build_from_raw` accepts
fn add_registry(rng: &mut Rng, items: &mut Vec<It>) {
    let types: Vec<u16> = items.iter().map(|x| x.0).filter(|t| *t >= 0x4000).collect();
    for t in types {
        if rng.chance(9, 10) && !items.iter().any(|x| x.0 == 0 && x.1 == t) {
            let data: Vec<i32> = (0..4).map(|_| rng.next() as i32).collect();
            items.push((0, t, data));
        }
    }
    // registry items of the wrong length make the whole snapshot unreadable: keep them rare here
    if rng.chance(4, 5) {
        for it in items.iter_mut() {
            if it.0 == 0 && it.2.len() < 4 {
                it.2 = (0..4).map(|_| rng.next() as i32).collect();
            }
        }
    }
}

/// derive a target snapshot from `a`: items untouched, changed (same length), removed, added,
/// rarely with a changed length (D15)
fn gen_target(rng: &mut Rng, osz: ObjSize, a: &[It], low_only: bool, allow_resize: bool) -> Vec<It> {
    let mut out: Vec<It> = vec![];
    for (t, id, d) in a {
        match rng.below(8) {
            0 | 1 => {}
            2 | 3 | 4 => out.push((*t, *id, d.clone())),
            5 | 6 => {
                let mut d2 = d.clone();
                for x in d2.iter_mut() {
                    if rng.chance(1, 2) {
                        *x = gen_val(rng);
                    }
                }
                out.push((*t, *id, d2));
            }
            _ => {
                if allow_resize && rng.chance(1, 6) {
                    let len = gen_len(rng, osz, *t);
                    out.push((*t, *id, (0..len).map(|_| gen_val(rng)).collect()));
                } else {
                    out.push((*t, *id, d.clone()));
                }
            }
        }
    }
    let nx = rng.below(4) as usize;
    let extra = gen_items(rng, osz, nx, low_only);
    for it in extra {
        if !out.iter().any(|x| x.0 == it.0 && x.1 == it.1) && !a.iter().any(|x| x.0 == it.0 && x.1 == it.1) {
            out.push(it);
        }
    }
    // shuffle the insertion order a little
    for i in (1..out.len()).rev() {
        if rng.chance(1, 2) {
            let j = rng.below(i as u64 + 1) as usize;
            out.swap(i, j);
        }
    }
    out
}

fn gen_big_items(rng: &mut Rng, n: usize, total_data: usize, low_only: bool) -> Vec<It> {
    // n distinct keys with data lengths summing to total_data
    let mut out: Vec<It> = vec![];
    let mut left = total_data;
    for i in 0..n {
        let t: u16 = if low_only { 64 + (i / 256) as u16 } else { [64u16, 0x4000, 0x8000, 0xffff][i % 4] + (i / 1024) as u16 };
        let id = (i % 65536) as u16;
        let len = if i + 1 == n { left } else { (left / (n - i)).min(left) };
        left -= len;
        out.push((t, id, (0..len).map(|_| if rng.chance(1, 2) { gen_val(rng) } else { 0 }).collect()));
    }
    out
}

fn ints_of(its: &[It]) -> Option<Vec<i32>> {
    match build_raw(its) {
        Ok(s) => match raw_write_ints(&s) {
            Wr::Ok(v) => Some(v),
            _ => None,
        },
        Err(_) => None,
    }
}

const BOUNDS: [i32; 14] = [0, 1, -1, 2, 3, 4, 5, 8, i32::MIN, i32::MAX, 65536, 65535, 1024, 1025];

fn mutate_ints(rng: &mut Rng, xs: &[i32]) -> Vec<i32> {
    let mut v = xs.to_vec();
    match rng.below(10) {
        0 | 1 | 2 | 3 => {
            if !v.is_empty() {
                let i = rng.below(v.len() as u64) as usize;
                v[i] = match rng.below(4) {
                    0 => *rng.pick(&BOUNDS),
                    1 => v[i].wrapping_add(*rng.pick(&[1, -1, 4, -4, 65536, -65536])),
                    2 => rng.next() as i32,
                    _ => v[i].wrapping_neg(),
                };
            }
        }
        4 => {
            let k = rng.below(v.len() as u64 + 1) as usize;
            v.truncate(k);
        }
        5 => {
            let n = 1 + rng.below(3) as usize;
            for _ in 0..n {
                v.push(gen_val(rng));
            }
        }
        6 => {
            if v.len() > 1 {
                let i = rng.below(v.len() as u64) as usize;
                v.remove(i);
            }
        }
        7 => {
            let i = rng.below(v.len() as u64 + 1) as usize;
            v.insert(i, gen_val(rng));
        }
        8 => {
            if v.len() > 2 {
                let i = rng.below(v.len() as u64) as usize;
                let j = rng.below(v.len() as u64) as usize;
                v[i] = v[j];
            }
        }
        _ => {
            // two fields at once
            for _ in 0..2 {
                if !v.is_empty() {
                    let i = rng.below(v.len() as u64) as usize;
                    v[i] = *rng.pick(&BOUNDS);
                }
            }
        }
    }
    v
}

fn uuid_hex(rng: &mut Rng, pool: usize) -> String {
    // a small pool of UUIDs so that types repeat
    let k = rng.below(pool as u64);
    let mut r = Rng::new(0x5eed_0000 + k);
    let mut b = r.bytes(16);
    if k == 0 {
        b = vec![0; 16];
    }
    if k == 1 {
        b = vec![0xff; 16];
    }
    to_hex(&b)
}

fn gen_build_line(rng: &mut Rng, w: &mut dyn Write, big: bool) {
    let mut toks: Vec<String> = vec![];
    let phases = 1 + rng.below(3) as usize;
    let pool = *rng.pick(&[1usize, 2, 3, 8, 40]);
    let mut prev_keys: Vec<(String, String, u16, usize)> = vec![];
    for ph in 0..phases {
        let n = if big { *rng.pick(&[200usize, 1000, 1030]) } else { rng.below(8) as usize };
        let mut keys: Vec<(String, String, u16, usize)> = vec![];
        for i in 0..n {
            // mostly reuse the keys (and lengths) of the previous phase so that the delta has updates
            let (k, v, id, len) = if !prev_keys.is_empty() && rng.chance(1, 2) {
                rng.pick(&prev_keys).clone()
            } else {
                let id = if big { (i % 65536) as u16 } else if rng.chance(4, 5) { *rng.pick(&IDS) } else { rng.next() as u16 };
                let len = if big {
                    *rng.pick(&[0usize, 1, 12, 60])
                } else if rng.chance(1, 60) {
                    *rng.pick(&[4000usize, 16000, 16376, 16377]) // up to (and one past) the 64 KiB limit
                } else {
                    *rng.pick(&[0usize, 1, 2, 3, 4, 5])
                };
                if rng.chance(1, 2) {
                    let t = if rng.chance(1, 30) { *rng.pick(&[0u16, 0x4000, 0xffff]) } else { *rng.pick(&[1u16, 2, 5, 13, 64, 0x3ffe, 0x3fff]) };
                    ("o".to_string(), t.to_string(), id, len)
                } else {
                    ("u".to_string(), uuid_hex(rng, pool), id, len)
                }
            };
            let data: Vec<i32> = (0..len).map(|_| gen_val(rng)).collect();
            toks.push(format!("{}.{}.{}.{}", k, v, id, fmt_ints(&data)));
            keys.push((k, v, id, len));
        }
        toks.push("fin".to_string());
        // queries: every key added, plus absent ones
        let mut qs: Vec<String> = keys.iter().map(|(k, v, id, _)| format!("q.{}.{}.{}", k, v, id)).collect();
        if big {
            qs.truncate(24);
        }
        for _ in 0..6 {
            let id = if rng.chance(1, 2) { *rng.pick(&IDS) } else { rng.next() as u16 };
            if rng.chance(1, 2) {
                qs.push(format!("q.o.{}.{}", *rng.pick(&[1u16, 2, 5, 13, 64, 0x3fff]), id));
            } else {
                qs.push(format!("q.u.{}.{}", uuid_hex(rng, pool + 2), id));
            }
        }
        if rng.chance(1, 50) {
            qs.push(format!("q.o.{}.1", *rng.pick(&[0u16, 0x4000, 0x8000])));
        }
        toks.extend(qs);
        if ph + 1 < phases {
            toks.push(format!("rec.{}", *rng.pick(&["d", "b", "i", "x", "i", "b"])));
        }
        prev_keys = keys;
    }
    writeln!(w, "build {}", toks.join(" ")).unwrap();
}

impl Domain for D {
    fn runner(&self) -> Box<dyn Runner> {
        Box::new(R { refdeltas: BTreeMap::new(), refout: vec![], refpool: vec![] })
    }
    fn gen(&self, tier: &str, seed: u64, w: &mut dyn Write) {
        let mut buf: Vec<u8> = vec![];
        if let Err(msg) = catch(|| gen_all(tier, seed, &mut buf)) {
            eprintln!("generator panic: {}", msg);
            std::process::exit(101);
        }
        // the requests are independent: emit them in a strided order so that the expensive
        // sweep lines are spread over all shards
        let text = String::from_utf8(buf).unwrap();
        let lines: Vec<&str> = text.lines().collect();
        let n = lines.len();
        let mut stride = 7919 % n.max(1);
        if n < 2 || stride == 0 || gcd(stride, n) != 1 {
            stride = 1;
        }
        let mut j = 0usize;
        for _ in 0..n {
            writeln!(w, "{}", lines[j]).unwrap();
            j = (j + stride) % n;
        }
    }
}

fn gcd(a: usize, b: usize) -> usize {
    if b == 0 {
        a
    } else {
        gcd(b, a % b)
    }
}

fn gen_all(tier: &str, seed: u64, w: &mut dyn Write) {
    {
        let mut rng = Rng::new(seed ^ 0x736e_6170);
        let thorough = tier == "thorough";
        let tables: [(&str, ObjSize); 5] = [
            ("syn", osz_syn),
            ("none", osz_none),
            ("ddnet", libtw2_gamenet_ddnet::snap_obj::obj_size),
            ("tw07", libtw2_gamenet_teeworlds_0_7::snap_obj::obj_size),
            ("tw05", libtw2_gamenet_teeworlds_0_5::snap_obj::obj_size),
        ];

        // 1. exhaustive sweeps over the small universe (hash form)
        //    (mask, radix): which of the four keys, how many states per key
        let mut sweeps: Vec<(&str, usize, usize)> = vec![
            ("none", 0b0001, 157), // one key, all lengths 0..3 over the five values: 157^2 pairs
            ("ddnet", 0b0001, 157),
            ("none", 0b0111, 4),  // three keys (incl. type >= 0x8000 and a registry item), absent / [] / [0] / [1]
            ("ddnet", 0b1101, 4), // three keys inside the reference's domain
            ("none", 0b1111, 3),
            // pre-agreed sizes 0 and 2 (table `syn`): a zero-size type alone (absent / empty / one
            // value), and with a sized and an unsized neighbour
            ("syn", 0b010000, 7),
            ("syn", 0b110001, 4),
            ("syn", 0b100000, 32),
        ];
        if thorough {
            sweeps.push(("none", 0b0111, 7));
            sweeps.push(("ddnet", 0b1101, 7));
            sweeps.push(("none", 0b0011, 32));
            sweeps.push(("ddnet", 0b1001, 32));
            sweeps.push(("none", 0b1111, 4));
            sweeps.push(("ddnet", 0b1111, 4));
            sweeps.push(("none", 0b1111, 7)); // 2401² = 5.76 M pairs
        }
        for (name, mask, radix) in sweeps {
            let nk = (mask as u32).count_ones();
            let total = radix.pow(nk);
            let pairs = total * total;
            let chunk = if pairs > 2_000_000 { 20000 } else { 3000 };
            let mut lo = 0;
            while lo < pairs {
                let hi = (lo + chunk).min(pairs);
                writeln!(w, "sweep {} {} {} {} {}", name, mask, radix, lo, hi).unwrap();
                lo = hi;
            }
        }

        // 2. random pairs
        let n = if thorough { 60000 } else { 4000 };
        for i in 0..n {
            let (name, osz) = tables[i % 5];
            let low_only = rng.chance(1, 2);
            let na = *rng.pick(&[0usize, 1, 2, 3, 5, 8, 20]);
            let a = gen_items(&mut rng, osz, na, low_only);
            let b = if rng.chance(1, 10) {
                let nb = rng.below(6) as usize;
                gen_items(&mut rng, osz, nb, low_only)
            } else {
                gen_target(&mut rng, osz, &a, low_only, true)
            };
            writeln!(w, "pair {} {} {}", name, fmt_items(&a), fmt_items(&b)).unwrap();
        }
        // pairs at the limits
        let nbig = if thorough { 60 } else { 6 };
        for i in 0..nbig {
            let (name, osz) = tables[1 + i % 2];
            let low_only = i % 3 != 0;
            let (n_items, total) = match i % 6 {
                0 => (1024, 0),
                1 => (1024, 16384 - 2 - 2048),     // exactly 64 KiB
                2 => (1, 16384 - 2 - 2),           // one huge item, exactly 64 KiB
                3 => (1025, 0),                    // too many
                4 => (10, 16384 - 2 - 20 + 1),     // one integer too long
                _ => (500 + rng.below(524) as usize, rng.below(14000) as usize),
            };
            let a = gen_big_items(&mut rng, n_items, total, low_only);
            let b = gen_target(&mut rng, osz, &a, low_only, false);
            writeln!(w, "pair {} {} {}", name, fmt_items(&a), fmt_items(&b)).unwrap();
            writeln!(w, "pair {} {} {}", name, fmt_items(&b), fmt_items(&a)).unwrap();
        }

        // empty items of a type with pre-agreed size 0 (table `syn`): new, unchanged, deleted, between
        // other items, several ids
        for (a, b) in [
            ("-", "40.1:"),
            ("40.1:", "40.1:"),
            ("40.1:", "-"),
            ("40.1:;41.1:5", "40.1:;40.2:;41.1:6"),
            ("5.1:1,2;40.7:", "5.1:1,3;40.7:;40.8:;42.1:1,2;43.1:1,2,3"),
            ("40.1:;40.2:;40.3:", "40.2:;40.4:"),
            ("32769.1:4;40.65535:", "32769.1:5;40.65535:;40.0:"),
        ] {
            writeln!(w, "pair syn {} {}", a, b).unwrap();
            writeln!(w, "pair syn {} {}", b, a).unwrap();
        }

        // exact limit snapshots, written and read back (raw level): 1023 / 1024 items, 65532 / 65536 bytes
        for &(n_items, total) in &[(1023usize, 0usize), (1024, 0), (1024, 16384 - 2 - 2048), (1023, 16384 - 2 - 2046 - 1), (1, 16384 - 2 - 2), (1, 16384 - 2 - 2 - 1), (3, 16384 - 2 - 6)] {
            let a = gen_big_items(&mut rng, n_items, total, false);
            writeln!(w, "pair none {} {}", fmt_items(&a), fmt_items(&a)).unwrap();
        }

        // 3a. UUID types registered in descending / shuffled UUID order, interleaved with ordinals;
        //     direct + wire + delta copies, recycle of a copy, then a fresh UUID type and every
        //     known one again (twice): the numbering after recycle must not collide
        let n = if thorough { 400 } else { 40 };
        for r in 0..n {
            let m = 2 + rng.below(4) as usize;
            // distinct first bytes give a known UUID order
            let mut firsts: Vec<u8> = vec![0xf0, 0xc0, 0x90, 0x60, 0x30, 0x08];
            firsts.truncate(m);
            match r % 3 {
                0 => {} // descending
                1 => firsts.reverse(),
                _ => {
                    for i in (1..firsts.len()).rev() {
                        let j = rng.below(i as u64 + 1) as usize;
                        firsts.swap(i, j);
                    }
                }
            }
            let uu = |first: u8, salt: u8| -> String {
                let mut b = [0x11u8; 16];
                b[0] = first;
                b[15] = salt;
                to_hex(&b)
            };
            let mut toks: Vec<String> = vec![];
            let mut qs: Vec<String> = vec![];
            for (i, f) in firsts.iter().enumerate() {
                if rng.chance(1, 2) {
                    toks.push(format!("o.{}.{}.{}", 1 + rng.below(20), i, gen_val(&mut rng)));
                }
                toks.push(format!("u.{}.{}.{}", uu(*f, 0), i, fmt_ints(&[gen_val(&mut rng), i as i32])));
                qs.push(format!("q.u.{}.{}", uu(*f, 0), i));
            }
            toks.push("fin".to_string());
            toks.extend(qs.iter().cloned());
            for round in 0..2u8 {
                toks.push(format!("rec.{}", *rng.pick(&["d", "b", "i", "x"])));
                // a fresh type whose UUID sorts before / between / after the known ones
                let fresh_first = *rng.pick(&[0x00u8, 0x50, 0xa0, 0xff]);
                toks.push(format!("u.{}.{}.{}", uu(fresh_first, 1 + round), 100 + round as u16, gen_val(&mut rng)));
                qs.push(format!("q.u.{}.{}", uu(fresh_first, 1 + round), 100 + round as u16));
                for (i, f) in firsts.iter().enumerate() {
                    toks.push(format!("u.{}.{}.{}", uu(*f, 0), i, fmt_ints(&[gen_val(&mut rng), 7])));
                }
                if rng.chance(1, 2) {
                    toks.push(format!("o.{}.{}.{}", 1 + rng.below(20), 50, gen_val(&mut rng)));
                }
                toks.push("fin".to_string());
                toks.extend(qs.iter().cloned());
            }
            writeln!(w, "build {}", toks.join(" ")).unwrap();
        }
        // 3b. builder snapshots of exactly 1023 / 1024 raw items (UUID registry items counted in) and
        //     of exactly 65532 / 65536 bytes, with 0, 1 and several UUID types
        for &total in &[1023usize, 1024] {
            for &k in &[0usize, 1, 5] {
                let mut toks: Vec<String> = vec![];
                for j in 0..k {
                    toks.push(format!("u.{:02x}{}.{}.-", 0xe0 - 0x20 * j, "22".repeat(15), j));
                }
                for i in 0..total - 2 * k {
                    toks.push(format!("o.{}.{}.-", 7 + i / 65536, i % 65536));
                }
                toks.push("fin".to_string());
                toks.push("q.o.7.0".to_string());
                toks.push(format!("q.o.7.{}", total - 2 * k - 1));
                if k > 0 {
                    toks.push(format!("q.u.e0{}.0", "22".repeat(15)));
                }
                writeln!(w, "build {}", toks.join(" ")).unwrap();
            }
        }
        for &bytes in &[65532usize, 65536] {
            for &k in &[0usize, 1, 3] {
                let n_items = 2 * k + 1;
                let words = bytes / 4 - 2 - 2 * n_items - 4 * k;
                let mut toks: Vec<String> = vec![];
                for j in 0..k {
                    toks.push(format!("u.{:02x}{}.{}.-", 0xe0 - 0x20 * j, "33".repeat(15), j));
                }
                let data: Vec<i32> = (0..words).map(|i| (i % 7) as i32 - 3).collect();
                toks.push(format!("o.9.1.{}", fmt_ints(&data)));
                toks.push("fin".to_string());
                toks.push("q.o.9.1".to_string());
                // one more empty item does not fit any more when the snapshot is full
                toks.push("rec.i".to_string());
                toks.push(format!("o.9.1.{}", fmt_ints(&data)));
                toks.push("o.9.2.-".to_string());
                toks.push("fin".to_string());
                writeln!(w, "build {}", toks.join(" ")).unwrap();
            }
        }

        // 3. builder op sequences
        let n = if thorough { 20000 } else { 1500 };
        for _ in 0..n {
            gen_build_line(&mut rng, w, false);
        }
        for _ in 0..(if thorough { 40 } else { 4 }) {
            gen_build_line(&mut rng, w, true);
        }

        // 4. parser streams: valid snapshots / deltas, corrupted, truncated, random
        let n = if thorough { 30000 } else { 2500 };
        for i in 0..n {
            let (name, osz) = tables[i % 5];
            let na = *rng.pick(&[0usize, 1, 2, 3, 4, 6]);
            let mut a = gen_items(&mut rng, osz, na, false);
            add_registry(&mut rng, &mut a);
            let mut b = gen_target(&mut rng, osz, &a, false, false);
            add_registry(&mut rng, &mut b);
            let (ai, bi) = match (ints_of(&a), ints_of(&b)) {
                (Some(x), Some(y)) => (x, y),
                _ => continue,
            };
            // snapshots
            let v = if rng.chance(1, 4) { bi.clone() } else { mutate_ints(&mut rng, &bi) };
            if rng.chance(1, 2) {
                writeln!(w, "rsnap i {}", fmt_ints(&v)).unwrap();
            } else {
                let mut bs = pack_ints(&v);
                match rng.below(6) {
                    0 => {
                        let k = rng.below(bs.len() as u64 + 1) as usize;
                        bs.truncate(k);
                    }
                    1 => {
                        if !bs.is_empty() {
                            let k = rng.below(bs.len() as u64) as usize;
                            bs[k] ^= 1 << rng.below(8);
                        }
                    }
                    2 => {
                        let k = 1 + rng.below(3) as usize;
                        bs.extend(rng.bytes(k));
                    }
                    _ => {}
                }
                writeln!(w, "rsnap b {}", to_hex(&bs)).unwrap();
            }
            // deltas
            let (sa, sb) = (build_raw(&a).unwrap(), build_raw(&b).unwrap());
            let mut d = Delta::new();
            if catch(|| d.create_raw(&sa, &sb)).is_err() {
                continue; // a key with two lengths (D15)
            }
            let di = match delta_write_ints(&d, osz) {
                Some(x) => x,
                None => continue,
            };
            let dv = if rng.chance(1, 4) { di.clone() } else { mutate_ints(&mut rng, &di) };
            let base = if rng.chance(5, 6) { &ai } else { &bi };
            if rng.chance(1, 2) {
                writeln!(w, "rdelta {} i {} {}", name, fmt_ints(&dv), fmt_ints(base)).unwrap();
            } else {
                let mut bs = pack_ints(&dv);
                match rng.below(6) {
                    0 => {
                        let k = rng.below(bs.len() as u64 + 1) as usize;
                        bs.truncate(k);
                    }
                    1 => {
                        if !bs.is_empty() {
                            let k = rng.below(bs.len() as u64) as usize;
                            bs[k] ^= 1 << rng.below(8);
                        }
                    }
                    _ => {}
                }
                writeln!(w, "rdelta {} b {} {}", name, to_hex(&bs), fmt_ints(base)).unwrap();
            }
        }
        // every single-field corruption with every boundary value, and every truncation, of a few
        // small snapshots and deltas
        let reps = if thorough { 12 } else { 2 };
        for r in 0..reps {
            let (name, osz) = tables[r % 5];
            let mut a = gen_items(&mut rng, osz, 3, false);
            add_registry(&mut rng, &mut a);
            let mut b = gen_target(&mut rng, osz, &a, false, false);
            add_registry(&mut rng, &mut b);
            let (ai, bi) = match (ints_of(&a), ints_of(&b)) {
                (Some(x), Some(y)) => (x, y),
                _ => continue,
            };
            for i in 0..bi.len() {
                for &v in BOUNDS.iter().chain([bi[i].wrapping_add(1), bi[i].wrapping_sub(1), bi[i].wrapping_add(4), bi[i].wrapping_sub(4)].iter()) {
                    let mut x = bi.clone();
                    x[i] = v;
                    writeln!(w, "rsnap i {}", fmt_ints(&x)).unwrap();
                }
            }
            for k in 0..=bi.len() {
                writeln!(w, "rsnap i {}", fmt_ints(&bi[..k])).unwrap();
            }
            let bs = pack_ints(&bi);
            for k in 0..=bs.len() {
                writeln!(w, "rsnap b {}", to_hex(&bs[..k])).unwrap();
            }
            let (sa, sb) = (build_raw(&a).unwrap(), build_raw(&b).unwrap());
            let mut d = Delta::new();
            if catch(|| d.create_raw(&sa, &sb)).is_err() {
                continue;
            }
            if let Some(di) = delta_write_ints(&d, osz) {
                for i in 0..di.len() {
                    for &v in BOUNDS.iter().chain([di[i].wrapping_add(1), di[i].wrapping_sub(1)].iter()) {
                        let mut x = di.clone();
                        x[i] = v;
                        writeln!(w, "rdelta {} i {} {}", name, fmt_ints(&x), fmt_ints(&ai)).unwrap();
                    }
                }
                for k in 0..=di.len() {
                    writeln!(w, "rdelta {} i {} {}", name, fmt_ints(&di[..k]), fmt_ints(&ai)).unwrap();
                }
                let bs = pack_ints(&di);
                for k in 0..=bs.len() {
                    writeln!(w, "rdelta {} b {} {}", name, to_hex(&bs[..k]), fmt_ints(&ai)).unwrap();
                }
            }
        }
        // random words / bytes
        let n = if thorough { 20000 } else { 1500 };
        for _ in 0..n {
            let k = rng.below(12) as usize;
            let xs: Vec<i32> = (0..k).map(|_| if rng.chance(2, 3) { *rng.pick(&BOUNDS) } else { gen_val(&mut rng) }).collect();
            match rng.below(4) {
                0 => writeln!(w, "rsnap i {}", fmt_ints(&xs)).unwrap(),
                1 => writeln!(w, "rsnap b {}", to_hex(&rng.bytes(k))).unwrap(),
                2 => writeln!(w, "rdelta none i {} 0,0", fmt_ints(&xs)).unwrap(),
                _ => writeln!(w, "rdelta ddnet b {} 0,0", to_hex(&rng.bytes(k))).unwrap(),
            }
        }
        // structured hostile snapshots: duplicate keys, oversized counts, registry items of wrong
        // length, type ids across the 16-bit range, registry id chains (recycle arithmetic)
        let n = if thorough { 4000 } else { 400 };
        for _ in 0..n {
            let k = 1 + rng.below(5) as usize;
            let mut items: Vec<(i32, Vec<i32>)> = vec![];
            for _ in 0..k {
                let t: u16 = match rng.below(6) {
                    0 => 0,
                    1 => *rng.pick(&[0x4000u16, 0x4001, 0x7fff, 0x8000, 0xffff]),
                    2 => rng.next() as u16,
                    _ => *rng.pick(&TYPES),
                };
                let id: u16 = if t == 0 { *rng.pick(&[0u16, 5, 0x3fff, 0x4000, 0x4001, 0x7ffe, 0x7fff, 0x8000, 0xfeff, 0xff00, 0xffff]) } else { *rng.pick(&IDS) };
                let len = if t == 0 { *rng.pick(&[0usize, 3, 4, 4, 4, 5]) } else { rng.below(4) as usize };
                items.push((key_of(t, id), (0..len).map(|_| gen_val(&mut rng)).collect()));
            }
            if rng.chance(1, 5) {
                let dup = items[0].clone();
                items.push(dup);
            }
            if rng.chance(1, 6) {
                // two registry items naming the same UUID
                let d: Vec<i32> = (0..4).map(|_| gen_val(&mut rng)).collect();
                items.push((key_of(0, 0x4005), d.clone()));
                items.push((key_of(0, 0x4006), d));
            }
            // make some extended types resolvable
            if rng.chance(1, 2) {
                let regs: Vec<u16> = items.iter().map(|(k, _)| ((*k as u32) >> 16) as u16).filter(|t| *t >= 0x4000).collect();
                for t in regs {
                    if rng.chance(3, 4) && !items.iter().any(|(k, _)| *k == key_of(0, t)) {
                        items.insert(0, (key_of(0, t), (0..4).map(|_| gen_val(&mut rng)).collect()));
                    }
                }
            }
            let mut xs = vec![0, items.len() as i32];
            let mut off = 0;
            for (_, d) in &items {
                xs.push(off);
                off += 4 * (d.len() as i32 + 1);
            }
            xs[0] = off;
            for (k, d) in &items {
                xs.push(*k);
                xs.extend(d);
            }
            if rng.chance(1, 6) {
                xs[1] = *rng.pick(&[1024, 1025, 65536, i32::MAX]);
            }
            if rng.chance(1, 2) {
                writeln!(w, "rsnap i {}", fmt_ints(&xs)).unwrap();
            } else {
                writeln!(w, "rsnap b {}", to_hex(&pack_ints(&xs))).unwrap();
            }
        }
        // structured hostile deltas: duplicate deletes, unknown deletes, duplicate updates, keys both
        // deleted and updated, sizes different from the base item, wrong counts, non-zero padding
        let n = if thorough { 6000 } else { 600 };
        for i in 0..n {
            let (name, osz) = tables[i % 5];
            let na = rng.below(5) as usize;
            let mut a = gen_items(&mut rng, osz, na, false);
            add_registry(&mut rng, &mut a);
            let ai = match ints_of(&a) {
                Some(x) => x,
                None => continue,
            };
            let mut pool: Vec<(u16, u16, usize)> = a.iter().map(|(t, id, d)| (*t, *id, d.len())).collect();
            for _ in 0..3 {
                let (t, id) = gen_key(&mut rng, false);
                let len = gen_len(&mut rng, osz, t);
                pool.push((t, id, len));
            }
            let nd = rng.below(4) as usize;
            let mut dels: Vec<i32> = vec![];
            for _ in 0..nd {
                let (t, id, _) = *rng.pick(&pool);
                dels.push(key_of(t, id));
                if rng.chance(1, 4) {
                    dels.push(key_of(t, id));
                }
            }
            let nu = rng.below(5) as usize;
            let mut ups: Vec<i32> = vec![];
            let mut count = 0;
            for _ in 0..nu {
                let (t, id, len0) = *rng.pick(&pool);
                let reps = if rng.chance(1, 4) { 2 } else { 1 };
                for _ in 0..reps {
                    ups.push(t as i32);
                    ups.push(id as i32);
                    let len = match osz(t) {
                        Some(sz) => sz as usize,
                        None => {
                            let l = if rng.chance(1, 5) { rng.below(5) as usize } else { len0 };
                            ups.push(l as i32);
                            l
                        }
                    };
                    for _ in 0..len {
                        ups.push(gen_val(&mut rng));
                    }
                    count += 1;
                }
            }
            let mut xs = vec![dels.len() as i32, if rng.chance(1, 6) { count + 1 } else { count }, if rng.chance(1, 8) { 1 } else { 0 }];
            xs.extend(&dels);
            xs.extend(&ups);
            if rng.chance(1, 2) {
                writeln!(w, "rdelta {} i {} {}", name, fmt_ints(&xs), fmt_ints(&ai)).unwrap();
            } else {
                writeln!(w, "rdelta {} b {} {}", name, to_hex(&pack_ints(&xs)), fmt_ints(&ai)).unwrap();
            }
        }
        // registry id chains: 0x4000, +255, ... up to the u16 / 0x8000 boundaries
        for &(count, step) in &[(10usize, 255u32), (64, 255), (65, 255), (130, 255), (191, 255), (192, 255), (193, 255), (194, 255), (195, 255), (64, 256), (300, 100)] {
            let mut xs = vec![0, count as i32];
            for i in 0..count {
                xs.push((i * 20) as i32);
            }
            xs[0] = (count * 20) as i32;
            for i in 0..count {
                let id = (0x4000 + i as u32 * step).min(0xffff) as u16;
                xs.push(key_of(0, id));
                xs.extend([i as i32, 1, 2, 3]);
            }
            writeln!(w, "rsnap i {}", fmt_ints(&xs)).unwrap();
        }
        // limits: 1024 / 1025 items, 65536 / 65540 bytes
        for &(count, len) in &[(1024usize, 0usize), (1025, 0), (1023, 0), (1024, 14), (1024, 15), (1, 16380), (1, 16381), (1, 16379), (1, 16378), (2, 8189), (2, 8190)] {
            let mut xs = vec![0, count as i32];
            for i in 0..count {
                xs.push((i * 4 * (len + 1)) as i32);
            }
            xs[0] = (count * 4 * (len + 1)) as i32;
            for i in 0..count {
                xs.push(key_of(64, i as u16));
                xs.extend((0..len).map(|j| (i + j) as i32));
            }
            writeln!(w, "rsnap i {}", fmt_ints(&xs)).unwrap();
            // a delta that grows a full snapshot past the limits
            let d = [0, 1, 0, 65, 7, 2, 1, 2];
            writeln!(w, "rdelta none i {} {}", fmt_ints(&d), fmt_ints(&xs)).unwrap();
            // … and one that adds an empty item (8 bytes): 65528 -> 65536 fits, 65532 -> 65540 does not
            let d = [0, 1, 0, 65, 7, 0];
            writeln!(w, "rdelta none i {} {}", fmt_ints(&d), fmt_ints(&xs)).unwrap();
            writeln!(w, "rdelta none b {} {}", to_hex(&pack_ints(&d)), fmt_ints(&xs)).unwrap();
        }
    }
}
