//! Domain `datafile`: the low-level datafile reader `datafile/src/raw.rs` + `format.rs`, driven
//! from memory through the public `raw::CallbackNew` / `raw::CallbackReadData` traits.
//! Property C16.
//!
//! Requests (see `lean/Tw/Drv/Datafile.lean` for the model side):
//!   open <hex>                     Reader::new, then everything the reader exposes
//!   openx <hex> <items> <datas>    same; the oracle also compares with what was stored
//!   rt <3|4> <items> <datas>       build the file with this harness's own writer (stored-block
//!                                  deflate), print its hash, then as `open`; oracle: round trip
//!   sweep <hex>                    item_type_indices/find_item for every u16 (hash form)
//!   inflate <destLen> <hex>        zlib `uncompress` (ties the driver's zlib stand-in)
#![allow(dead_code)]
use crate::util::*;
use libtw2_datafile::format;
use libtw2_datafile::raw;
use std::io::Write;

pub struct D;

pub fn domain() -> Box<dyn Domain> {
    Box::new(D)
}

extern "C" {
    fn mallopt(param: i32, value: i32) -> i32;
}

/// zlib allocates and frees a few hundred KiB per call; on the harness's worker thread (a
/// non-main malloc arena) every such free trims the heap with an `madvise` system call, which
/// dominated the run time (20 000 calls, ~2 ms each under load).  Raising glibc's trim threshold
/// (M_TRIM_THRESHOLD = -1) keeps the memory in the arena.
pub fn tune_malloc() {
    unsafe {
        mallopt(-1, 1 << 30);
    }
}

// ------------------------------------------------------------------------------------------
// in-memory callbacks

pub struct MemNew<'a> {
    pub bytes: &'a [u8],
    pub pos: usize,
    pub seek_base: Option<usize>,
    /// number of callback calls so far, and the call that fails (if any)
    pub calls: usize,
    pub fail_at: Option<usize>,
}

impl<'a> MemNew<'a> {
    fn call(&mut self) -> Result<(), raw::CallbackError> {
        let k = self.calls;
        self.calls += 1;
        if Some(k) == self.fail_at {
            Err(raw::CallbackError)
        } else {
            Ok(())
        }
    }
}

impl<'a> raw::CallbackNew for MemNew<'a> {
    fn read(&mut self, buffer: &mut [u8]) -> Result<usize, raw::CallbackError> {
        self.call()?;
        let n = buffer.len().min(self.bytes.len() - self.pos);
        buffer[..n].copy_from_slice(&self.bytes[self.pos..self.pos + n]);
        self.pos += n;
        Ok(n)
    }
    fn set_seek_base(&mut self) -> Result<(), raw::CallbackError> {
        self.call()?;
        self.seek_base = Some(self.pos);
        Ok(())
    }
    fn ensure_filesize(&mut self, filesize: u32) -> Result<Result<(), ()>, raw::CallbackError> {
        self.call()?;
        Ok(if self.bytes.len() as u64 >= filesize as u64 {
            Ok(())
        } else {
            Err(())
        })
    }
}

pub struct MemData<'a> {
    pub bytes: &'a [u8],
    pub seek_base: usize,
    pub buffer: Vec<u8>,
    /// (start, requested length) of every seek_read
    pub reads: Vec<(u32, usize)>,
    pub fail_seek: bool,
    pub fail_alloc: bool,
}

impl<'a> raw::CallbackReadData for MemData<'a> {
    fn seek_read(&mut self, start: u32, buffer: &mut [u8]) -> Result<usize, raw::CallbackError> {
        if self.fail_seek {
            return Err(raw::CallbackError);
        }
        self.reads.push((start, buffer.len()));
        let off = self.seek_base + start as usize;
        let avail = self.bytes.len().saturating_sub(off);
        let n = buffer.len().min(avail);
        if n > 0 {
            buffer[..n].copy_from_slice(&self.bytes[off..off + n]);
        }
        Ok(n)
    }
    fn alloc_data_buffer(&mut self, length: usize) -> Result<(), raw::CallbackError> {
        if self.fail_alloc {
            return Err(raw::CallbackError);
        }
        // calloc: untouched pages of a huge claimed size cost nothing
        self.buffer = vec![0u8; length];
        Ok(())
    }
    fn data_buffer(&mut self) -> &mut [u8] {
        &mut self.buffer
    }
}

pub fn df_err_name(e: &format::Error) -> &'static str {
    match e {
        format::Error::WrongMagic(_) => "WrongMagic",
        format::Error::UnsupportedVersion(_) => "UnsupportedVersion",
        format::Error::MalformedHeader => "MalformedHeader",
        format::Error::Malformed => "Malformed",
        format::Error::CompressionWrongSize => "CompressionWrongSize",
        format::Error::CompressionError(_) => "CompressionError",
        format::Error::TooShort => "TooShort",
        format::Error::TooShortHeaderVersion => "TooShortHeaderVersion",
        format::Error::TooShortHeader => "TooShortHeader",
    }
}

fn raw_err_name(e: &raw::Error) -> &'static str {
    match e {
        raw::Error::Df(e) => df_err_name(e),
        raw::Error::Callback => "Callback",
    }
}

// ------------------------------------------------------------------------------------------
// independent writer

#[derive(Clone, Debug, PartialEq)]
pub struct Item {
    pub type_id: u16,
    pub id: u16,
    pub data: Vec<i32>,
}

pub fn adler32(bs: &[u8]) -> u32 {
    let (mut a, mut b) = (1u32, 0u32);
    for &x in bs {
        a = (a + x as u32) % 65521;
        b = (b + a) % 65521;
    }
    (b << 16) | a
}

/// zlib stream consisting of stored blocks only
pub fn deflate_stored(bs: &[u8]) -> Vec<u8> {
    let mut out = vec![0x78, 0x01];
    let mut rest = bs;
    loop {
        let n = rest.len().min(65535);
        let (chunk, r) = rest.split_at(n);
        rest = r;
        out.push(if rest.is_empty() { 1 } else { 0 });
        out.extend_from_slice(&(n as u16).to_le_bytes());
        out.extend_from_slice(&(!(n as u16)).to_le_bytes());
        out.extend_from_slice(chunk);
        if rest.is_empty() {
            break;
        }
    }
    out.extend_from_slice(&adler32(bs).to_be_bytes());
    out
}

struct BitW {
    out: Vec<u8>,
    acc: u32,
    n: u32,
}
impl BitW {
    fn bits(&mut self, v: u32, n: u32) {
        // least significant bit first
        for k in 0..n {
            self.acc |= ((v >> k) & 1) << self.n;
            self.n += 1;
            if self.n == 8 {
                self.out.push(self.acc as u8);
                self.acc = 0;
                self.n = 0;
            }
        }
    }
    fn code(&mut self, c: u32, n: u32) {
        // Huffman codes are packed most significant bit first
        for k in (0..n).rev() {
            self.bits((c >> k) & 1, 1);
        }
    }
    fn finish(mut self) -> Vec<u8> {
        if self.n > 0 {
            self.out.push(self.acc as u8);
        }
        self.out
    }
}

const LBASE: [u32; 29] = [3, 4, 5, 6, 7, 8, 9, 10, 11, 13, 15, 17, 19, 23, 27, 31, 35, 43, 51, 59, 67, 83, 99, 115, 131, 163, 195, 227, 258];
const LEXT: [u32; 29] = [0, 0, 0, 0, 0, 0, 0, 0, 1, 1, 1, 1, 2, 2, 2, 2, 3, 3, 3, 3, 4, 4, 4, 4, 5, 5, 5, 5, 0];
const DBASE: [u32; 30] = [1, 2, 3, 4, 5, 7, 9, 13, 17, 25, 33, 49, 65, 97, 129, 193, 257, 385, 513, 769, 1025, 1537, 2049, 3073, 4097, 6145, 8193, 12289, 16385, 24577];
const DEXT: [u32; 30] = [0, 0, 0, 0, 1, 1, 2, 2, 3, 3, 4, 4, 5, 5, 6, 6, 7, 7, 8, 8, 9, 9, 10, 10, 11, 11, 12, 12, 13, 13];

fn fixed_sym(w: &mut BitW, sym: u32) {
    match sym {
        0..=143 => w.code(0x30 + sym, 8),
        144..=255 => w.code(0x190 + sym - 144, 9),
        256..=279 => w.code(sym - 256, 7),
        _ => w.code(0xc0 + sym - 280, 8),
    }
}

/// zlib stream with one fixed-Huffman block: literals and greedy matches (own encoder)
pub fn deflate_fixed(bs: &[u8]) -> Vec<u8> {
    let mut w = BitW { out: vec![0x78, 0x9c], acc: 0, n: 0 };
    w.bits(1, 1);
    w.bits(1, 2);
    let mut i = 0;
    while i < bs.len() {
        // longest match in a small window
        let mut best = (0usize, 0usize);
        let lo = i.saturating_sub(300);
        for j in lo..i {
            let mut l = 0;
            while i + l < bs.len() && l < 258 && bs[j + l] == bs[i + l] {
                l += 1;
            }
            if l > best.0 {
                best = (l, i - j);
            }
        }
        if best.0 >= 3 {
            let (len, dist) = (best.0 as u32, best.1 as u32);
            let lk = (0..29).rev().find(|&k| LBASE[k] <= len).unwrap();
            // length 258 has its own code
            let lk = if len == 258 { 28 } else { lk };
            fixed_sym(&mut w, 257 + lk as u32);
            w.bits(len - LBASE[lk], LEXT[lk]);
            let dk = (0..30).rev().find(|&k| DBASE[k] <= dist).unwrap();
            w.code(dk as u32, 5);
            w.bits(dist - DBASE[dk], DEXT[dk]);
            i += best.0;
        } else {
            fixed_sym(&mut w, bs[i] as u32);
            i += 1;
        }
    }
    fixed_sym(&mut w, 256);
    let mut out = w.finish();
    out.extend_from_slice(&adler32(bs).to_be_bytes());
    out
}

pub fn deflate_zlib(bs: &[u8]) -> Vec<u8> {
    libtw2_zlib_minimal::compress_vec(bs).expect("zlib compress")
}

#[derive(Clone, Copy, Debug, PartialEq)]
pub enum Comp {
    Stored,
    Fixed,
    Zlib,
}

pub fn compress(c: Comp, bs: &[u8]) -> Vec<u8> {
    match c {
        Comp::Stored => deflate_stored(bs),
        Comp::Fixed => deflate_fixed(bs),
        Comp::Zlib => deflate_zlib(bs),
    }
}

/// All parts of a datafile as separately mutable fields.
#[derive(Clone, Debug)]
pub struct Image {
    pub magic: [u8; 4],
    pub version: i32,
    pub size: i32,
    pub swaplen: i32,
    pub num_item_types: i32,
    pub num_items: i32,
    pub num_data: i32,
    pub size_items: i32,
    pub size_data: i32,
    pub types: Vec<[i32; 3]>,
    pub item_offsets: Vec<i32>,
    pub data_offsets: Vec<i32>,
    pub data_sizes: Option<Vec<i32>>,
    /// (type_id_and_id, size field, payload bytes)
    pub items: Vec<(i32, i32, Vec<u8>)>,
    pub data: Vec<Vec<u8>>,
}

impl Image {
    /// Lays out `items` (equal type ids adjacent) and `datas`; version 3 or 4.
    pub fn build(version: i32, items: &[Item], datas: &[Vec<u8>], comp: &dyn Fn(usize, &[u8]) -> Vec<u8>) -> Image {
        let mut types: Vec<[i32; 3]> = vec![];
        for (idx, it) in items.iter().enumerate() {
            match types.last_mut() {
                Some(t) if t[0] == it.type_id as i32 => t[2] += 1,
                _ => types.push([it.type_id as i32, idx as i32, 1]),
            }
        }
        let stored: Vec<Vec<u8>> = if version == 3 {
            datas.to_vec()
        } else {
            datas.iter().enumerate().map(|(i, d)| comp(i, d)).collect()
        };
        let mut img = Image {
            magic: *b"DATA",
            version,
            size: 0,
            swaplen: 0,
            num_item_types: 0,
            num_items: 0,
            num_data: 0,
            size_items: 0,
            size_data: 0,
            types,
            item_offsets: vec![],
            data_offsets: vec![],
            data_sizes: if version == 3 { None } else { Some(datas.iter().map(|d| d.len() as i32).collect()) },
            items: items
                .iter()
                .map(|it| {
                    let mut p = vec![];
                    for w in &it.data {
                        p.extend_from_slice(&w.to_le_bytes());
                    }
                    ((((it.type_id as u32) << 16) | it.id as u32) as i32, p.len() as i32, p)
                })
                .collect(),
            data: stored,
        };
        img.fix_offsets();
        img.fix_header();
        img
    }
    /// recomputes the offset tables from the actual payload lengths
    pub fn fix_offsets(&mut self) {
        let mut o = 0i64;
        self.item_offsets.clear();
        for it in &self.items {
            self.item_offsets.push(o as i32);
            o += 8 + it.2.len() as i64;
        }
        let mut o = 0i64;
        self.data_offsets.clear();
        for d in &self.data {
            self.data_offsets.push(o as i32);
            o += d.len() as i64;
        }
    }
    /// recomputes counts and sizes from the actual table lengths, then `size`/`swaplen`
    pub fn fix_header(&mut self) {
        self.num_item_types = self.types.len() as i32;
        self.num_items = self.item_offsets.len() as i32;
        self.num_data = self.data_offsets.len() as i32;
        self.size_items = self.items.iter().map(|it| 8 + it.2.len() as i32).sum();
        self.size_data = self.data.iter().map(|d| d.len() as i32).sum();
        self.fix_size();
    }
    /// recomputes `size`/`swaplen` from the header's own counts (wrapping)
    pub fn fix_size(&mut self) {
        let total: i64 = 36
            + 12 * self.num_item_types as i64
            + 4 * self.num_items as i64
            + 4 * self.num_data as i64
            + if self.version >= 4 { 4 * self.num_data as i64 } else { 0 }
            + self.size_items as i64
            + self.size_data as i64;
        self.size = (total - 16) as i32;
        self.swaplen = (total - 16 - self.size_data as i64) as i32;
    }
    pub fn header_words(&self) -> [i32; 8] {
        [self.version, self.size, self.swaplen, self.num_item_types, self.num_items, self.num_data, self.size_items, self.size_data]
    }
    pub fn set_header_word(&mut self, k: usize, v: i32) {
        match k {
            0 => self.version = v,
            1 => self.size = v,
            2 => self.swaplen = v,
            3 => self.num_item_types = v,
            4 => self.num_items = v,
            5 => self.num_data = v,
            6 => self.size_items = v,
            _ => self.size_data = v,
        }
    }
    pub fn serialize(&self) -> Vec<u8> {
        let mut out = self.magic.to_vec();
        let w = |out: &mut Vec<u8>, v: i32| out.extend_from_slice(&v.to_le_bytes());
        for v in self.header_words() {
            w(&mut out, v);
        }
        for t in &self.types {
            for &v in t {
                w(&mut out, v);
            }
        }
        for &v in &self.item_offsets {
            w(&mut out, v);
        }
        for &v in &self.data_offsets {
            w(&mut out, v);
        }
        if let Some(ds) = &self.data_sizes {
            for &v in ds {
                w(&mut out, v);
            }
        }
        for it in &self.items {
            w(&mut out, it.0);
            w(&mut out, it.1);
            out.extend_from_slice(&it.2);
        }
        for d in &self.data {
            out.extend_from_slice(d);
        }
        out
    }
    /// byte offset where the data section starts
    pub fn data_start(&self) -> usize {
        self.serialize().len() - self.data.iter().map(|d| d.len()).sum::<usize>()
    }
}

// ------------------------------------------------------------------------------------------
// spec syntax

pub fn words_hex(ws: &[i32]) -> String {
    let mut b = vec![];
    for w in ws {
        b.extend_from_slice(&w.to_le_bytes());
    }
    to_hex(&b)
}

pub fn items_str(items: &[Item]) -> String {
    if items.is_empty() {
        return "_".to_string();
    }
    items.iter().map(|it| format!("{}.{}.{}", it.type_id, it.id, words_hex(&it.data))).collect::<Vec<_>>().join(",")
}

pub fn datas_str(datas: &[Vec<u8>]) -> String {
    if datas.is_empty() {
        return "_".to_string();
    }
    datas.iter().map(|d| to_hex(d)).collect::<Vec<_>>().join(",")
}

pub fn parse_items(s: &str) -> Option<Vec<Item>> {
    if s == "_" {
        return Some(vec![]);
    }
    s.split(',')
        .map(|e| {
            let p: Vec<&str> = e.split('.').collect();
            if p.len() != 3 {
                return None;
            }
            let b = parse_hex(p[2])?;
            Some(Item {
                type_id: p[0].parse().ok()?,
                id: p[1].parse().ok()?,
                data: b.chunks_exact(4).map(|c| i32::from_le_bytes([c[0], c[1], c[2], c[3]])).collect(),
            })
        })
        .collect()
}

pub fn parse_datas(s: &str) -> Option<Vec<Vec<u8>>> {
    if s == "_" {
        return Some(vec![]);
    }
    s.split(',').map(parse_hex).collect()
}

/// is the item list something a reader has to accept: type ids strictly ascending by group
pub fn well_formed(items: &[Item]) -> bool {
    items.windows(2).all(|w| w[0].type_id <= w[1].type_id)
}

// ------------------------------------------------------------------------------------------
// runner

struct R;

fn hash_view(mut h: u64, v: &format::ItemView) -> u64 {
    h = fnv_bytes(h, &v.type_id.to_le_bytes());
    h = fnv_bytes(h, &v.id.to_le_bytes());
    for w in v.data {
        h = fnv_bytes(h, &w.to_le_bytes());
    }
    h
}

fn hash_find(r: &raw::Reader, mut h: u64, t: u16, id: u16) -> u64 {
    match r.find_item(t, id) {
        None => fnv_byte(h, 0),
        Some(v) => {
            h = fnv_byte(h, 1);
            h = fnv_bytes(h, &id.to_le_bytes());
            hash_view(h, &v)
        }
    }
}

struct Opened {
    line: String,
    /// (items, data results) for the oracle
    items: Vec<Item>,
    datas: Vec<Result<Vec<u8>, &'static str>>,
}

/// Everything the raw reader exposes, with structural oracle checks.
fn describe(bytes: &[u8], r: &raw::Reader, seek_base: usize, o: &mut Oracle) -> Opened {
    let ver = match r.version() {
        raw::Version::V3 => "v3",
        raw::Version::V4Crude => "v4c",
        raw::Version::V4 => "v4",
    };
    let (nt, ni, nd) = (r.num_item_types(), r.num_items(), r.num_data());
    let mut ts = vec![];
    for i in 0..nt {
        let t = r.item_type(i);
        let rg = r.item_type_indices(t);
        if rg.end > ni || rg.start > rg.end {
            o.fail("C16/type-range-outside-items", format!("type {} range {:?} num_items {}", t, rg, ni));
        }
        ts.push(format!("{}:{}:{}", t, rg.start, rg.end));
    }
    // iterator forms agree with the indexed forms
    let tv: Vec<u16> = r.item_types().collect();
    if tv.len() != nt || tv.iter().enumerate().any(|(i, &t)| t != r.item_type(i)) {
        o.fail("C16/item-types-iterator-differs", format!("{:?}", tv));
    }
    let mut is = vec![];
    let mut items = vec![];
    // the item area of the file, located independently from the header counts
    let word = |k: usize| -> i32 {
        match bytes.get(k..k.wrapping_add(4)) {
            Some(c) if c.len() == 4 => i32::from_le_bytes([c[0], c[1], c[2], c[3]]),
            _ => 0,
        }
    };
    let size_items = word(28) as usize;
    let size_data = word(32) as usize;
    let items_start = seek_base.wrapping_sub(size_items);
    let mut base: Option<usize> = None;
    for i in 0..ni {
        let v = r.item(i);
        let p = v.data.as_ptr() as usize;
        if i == 0 {
            base = Some(p.wrapping_sub(8));
        }
        let b = base.unwrap();
        // the returned slice lies inside items_raw and shows the file's bytes at that place
        if p < b + 8 || p + 4 * v.data.len() > b + size_items {
            o.fail("C16/item-slice-outside-items-raw", format!("item {} at +{} len {} size_items {}", i, p as i64 - b as i64, v.data.len(), size_items));
        } else {
            let at = items_start.wrapping_add(p - b);
            let mut same = true;
            for (k, w) in v.data.iter().enumerate() {
                if word(at.wrapping_add(4 * k)) != *w {
                    same = false;
                }
            }
            let hdr = word(at.wrapping_sub(8)) as u32;
            if !same || (hdr >> 16) as u16 != v.type_id || hdr as u16 != v.id || word(at.wrapping_sub(4)) as usize != 4 * v.data.len() {
                o.fail("C16/item-differs-from-file", format!("item {}", i));
            }
        }
        is.push(format!("{}.{}.{}", v.type_id, v.id, words_hex(v.data)));
        items.push(Item { type_id: v.type_id, id: v.id, data: v.data.to_vec() });
    }
    let iv: Vec<format::ItemView> = r.items().collect();
    if iv.len() != ni || iv.iter().enumerate().any(|(i, v)| *v != r.item(i)) {
        o.fail("C16/items-iterator-differs", String::new());
    }
    // every item is covered by exactly the type entry of its type id
    for (i, it) in items.iter().enumerate() {
        let rg = r.item_type_indices(it.type_id);
        if !(rg.start <= i && i < rg.end) {
            o.fail("C16/item-not-in-its-type-range", format!("item {} type {} range {:?}", i, it.type_id, rg));
        }
    }
    let mut probes: Vec<u16> = vec![];
    for i in 0..nt {
        let u = r.item_type(i);
        probes.extend_from_slice(&[u.wrapping_sub(1), u, u.wrapping_add(1)]);
    }
    probes.extend_from_slice(&[0, 1, 2, 3, 4, 5, 6, 7, 8, 32767, 32768, 65535]);
    let mut h = FNV_OFFSET;
    for &t in &probes {
        let rg = r.item_type_indices(t);
        h = fnv_bytes(h, &(rg.start as u32).to_le_bytes());
        h = fnv_bytes(h, &(rg.end as u32).to_le_bytes());
        let mut ids: Vec<u16> = vec![0, 1, 65535];
        let via_iter: Vec<format::ItemView> = r.item_type_items(t).collect();
        if via_iter.len() != rg.len() {
            o.fail("C16/item-type-items-iterator-differs", format!("type {}", t));
        }
        for k in rg.clone() {
            let v = r.item(k);
            h = hash_view(h, &v);
            ids.push(v.id);
            if v.type_id != t {
                o.fail("C16/item-type-items-wrong-type", format!("type {} item {} has {}", t, k, v.type_id));
            }
        }
        for id in ids {
            h = hash_find(r, h, t, id);
            if let Some(v) = r.find_item(t, id) {
                if v.type_id != t || v.id != id {
                    o.fail("C16/find-item-wrong-item", format!("asked {}.{} got {}.{}", t, id, v.type_id, v.id));
                }
            }
        }
    }
    let mut ds = vec![];
    let mut datas = vec![];
    for i in 0..nd {
        let mut cb = MemData { bytes, seek_base, buffer: vec![], reads: vec![], fail_seek: false, fail_alloc: false };
        let res = r.read_data(&mut cb, i);
        for &(start, len) in &cb.reads {
            if start as usize + len > size_data {
                o.fail("C16/data-read-outside-data-section", format!("data {} start {} len {} size_data {}", i, start, len, size_data));
            }
        }
        // callbacks that fail: the callback's error (or the error detected before that call) comes
        // back, and a later call without failure returns what the first one returned
        let first: Result<Vec<u8>, &'static str> = match &res {
            Ok(()) => Ok(cb.buffer.clone()),
            Err(e) => Err(raw_err_name(e)),
        };
        let mut cb2 = MemData { bytes, seek_base, buffer: vec![], reads: vec![], fail_seek: true, fail_alloc: false };
        match r.read_data(&mut cb2, i) {
            Err(raw::Error::Callback) => {}
            other => o.fail("C16/callback-error-not-returned", format!("data {} seek_read failed, read_data returned {:?}", i, other.map_err(|e| raw_err_name(&e)))),
        }
        let mut cb3 = MemData { bytes, seek_base, buffer: vec![], reads: vec![], fail_seek: false, fail_alloc: true };
        match r.read_data(&mut cb3, i) {
            Err(raw::Error::Callback) => {}
            Err(e) if Err(raw_err_name(&e)) == first => {}
            other => o.fail("C16/callback-error-not-returned", format!("data {} alloc_data_buffer failed, read_data returned {:?}", i, other.map_err(|e| raw_err_name(&e)))),
        }
        let mut cb4 = MemData { bytes, seek_base, buffer: vec![], reads: vec![], fail_seek: false, fail_alloc: false };
        let again: Result<Vec<u8>, &'static str> = match r.read_data(&mut cb4, i) {
            Ok(()) => Ok(cb4.buffer),
            Err(e) => Err(raw_err_name(&e)),
        };
        if again != first {
            o.fail("C16/state-changed-by-failed-callback", format!("data {}", i));
        }
        match res {
            Ok(()) => {
                ds.push(to_hex(&cb.buffer));
                datas.push(Ok(cb.buffer));
            }
            Err(e) => {
                ds.push(format!("e:{}", raw_err_name(&e)));
                datas.push(Err(raw_err_name(&e)));
            }
        }
    }
    let line = format!("ok {} {},{},{} T={} I={} P={} D={}", ver, nt, ni, nd, list_str(ts), list_str(is), h, list_str(ds));
    Opened { line, items, datas }
}

fn open(bytes: &[u8], o: &mut Oracle, expect: Option<(&[Item], &[Vec<u8>])>) -> String {
    open_cb(bytes, o, expect, None)
}

/// `fail_at`: the callback call of `Reader::new` that returns `Err(CallbackError)`
fn open_cb(bytes: &[u8], o: &mut Oracle, expect: Option<(&[Item], &[Vec<u8>])>, fail_at: Option<usize>) -> String {
    let mut cb = MemNew { bytes, pos: 0, seek_base: None, calls: 0, fail_at };
    let res = match catch(|| raw::Reader::new(&mut cb)) {
        Ok(r) => r,
        Err(msg) => {
            o.fail("C16/reader-new-panics", format!("{} file={}", msg, to_hex(bytes)));
            o.count("new_panic");
            return "panic-new".to_string();
        }
    };
    if let Some(k) = fail_at {
        // the failing call was reached: the result must be the callback's error
        if cb.calls > k && !matches!(res, Err(raw::Error::Callback)) {
            o.fail("C16/callback-error-not-returned", format!("call {} of Reader::new failed file={}", k, to_hex(bytes)));
        }
    }
    match res {
        Err(e) => {
            o.count(&format!("new_err_{}", raw_err_name(&e)));
            if let Some((items, _)) = expect {
                if well_formed(items) {
                    o.fail("C16/well-formed-file-rejected", format!("{} file={}", raw_err_name(&e), to_hex(bytes)));
                }
            }
            format!("err {}", raw_err_name(&e))
        }
        Ok(r) => {
            o.count("new_ok");
            let seek_base = cb.seek_base.unwrap_or(0);
            match catch(|| {
                let mut o2 = Oracle::new();
                let d = describe(bytes, &r, seek_base, &mut o2);
                (d, o2)
            }) {
                Err(msg) => {
                    o.fail("C16/accessor-panics", format!("{} file={}", msg, to_hex(bytes)));
                    "panic-acc".to_string()
                }
                Ok((d, o2)) => {
                    for (_, tag, msg) in o2.fails {
                        o.fail(&tag, format!("{} file={}", msg, to_hex(bytes)));
                    }
                    for e in &d.datas {
                        match e {
                            Ok(_) => o.count("data_ok"),
                            Err(n) => o.count(&format!("data_err_{}", n)),
                        }
                    }
                    if let Some((items, datas)) = expect {
                        if d.items != items {
                            o.fail("C16/roundtrip-items-differ", format!("file={}", to_hex(bytes)));
                        }
                        let got: Vec<Option<&Vec<u8>>> = d.datas.iter().map(|x| x.as_ref().ok()).collect();
                        let want: Vec<Option<&Vec<u8>>> = datas.iter().map(Some).collect();
                        if got != want {
                            o.fail("C16/roundtrip-data-differs", format!("file={}", to_hex(bytes)));
                        }
                    }
                    d.line
                }
            }
        }
    }
}

fn sweep(bytes: &[u8], o: &mut Oracle) -> String {
    let mut cb = MemNew { bytes, pos: 0, seek_base: None, calls: 0, fail_at: None };
    let res = match catch(|| raw::Reader::new(&mut cb)) {
        Ok(r) => r,
        Err(msg) => {
            o.fail("C16/reader-new-panics", format!("{} file={}", msg, to_hex(bytes)));
            return "panic-new".to_string();
        }
    };
    match res {
        Err(e) => format!("err {}", raw_err_name(&e)),
        Ok(r) => match catch(|| {
            let mut h = FNV_OFFSET;
            for t in 0..=65535u16 {
                let rg = r.item_type_indices(t);
                h = fnv_bytes(h, &(rg.start as u32).to_le_bytes());
                h = fnv_bytes(h, &(rg.end as u32).to_le_bytes());
                h = hash_find(&r, h, t, 0);
            }
            h
        }) {
            Ok(h) => {
                o.add("type_ids_swept", 65536);
                format!("h {}", h)
            }
            Err(msg) => {
                o.fail("C16/accessor-panics", format!("{} file={}", msg, to_hex(bytes)));
                "panic-acc".to_string()
            }
        },
    }
}

impl Runner for R {
    fn run(&mut self, toks: &[&str], o: &mut Oracle) -> String {
        match toks {
            ["open", h] => match parse_hex(h) {
                Some(bs) => open(&bs, o, None),
                None => "bad-op".to_string(),
            },
            ["openx", h, items, datas] => match (parse_hex(h), parse_items(items), parse_datas(datas)) {
                (Some(bs), Some(items), Some(datas)) => open(&bs, o, Some((&items, &datas))),
                _ => "bad-op".to_string(),
            },
            ["hsweep", fix, k1, k2, vals, h] => {
                let vals: Option<Vec<i32>> = vals.split(',').map(|v| v.parse().ok()).collect();
                match (k1.parse::<usize>(), k2.parse::<usize>(), vals, parse_hex(h)) {
                    (Ok(k1), Ok(k2), Some(vals), Some(bs)) if k1 < 8 && k2 < 8 => {
                        let set = |b: &mut Vec<u8>, k: usize, v: i32| {
                            if b.len() >= 36 {
                                b[4 + 4 * k..8 + 4 * k].copy_from_slice(&v.to_le_bytes());
                            }
                        };
                        let word = |b: &[u8], k: usize| -> i64 {
                            if b.len() >= 36 {
                                i32::from_le_bytes([b[4 + 4 * k], b[5 + 4 * k], b[6 + 4 * k], b[7 + 4 * k]]) as i64
                            } else {
                                0
                            }
                        };
                        let mut h = FNV_OFFSET;
                        for &v1 in &vals {
                            for &v2 in &vals {
                                let mut m = bs.clone();
                                set(&mut m, k1, v1);
                                set(&mut m, k2, v2);
                                if *fix == "1" {
                                    let total = 36 + 12 * word(&m, 3) + 4 * word(&m, 4) + 4 * word(&m, 5) + if word(&m, 0) >= 4 { 4 * word(&m, 5) } else { 0 } + word(&m, 6) + word(&m, 7);
                                    let sd = word(&m, 7);
                                    set(&mut m, 1, (total - 16) as i32);
                                    set(&mut m, 2, (total - 16 - sd) as i32);
                                }
                                h = fnv_byte(fnv_bytes(h, open(&m, o, None).as_bytes()), 0xff);
                            }
                        }
                        o.add("header_pairs_swept", (vals.len() * vals.len()) as u64);
                        format!("h {}", h)
                    }
                    _ => "bad-op".to_string(),
                }
            }
            ["opencb", k, h] => match (k.parse::<usize>(), parse_hex(h)) {
                (Ok(k), Some(bs)) => open_cb(&bs, o, None, Some(k)),
                _ => "bad-op".to_string(),
            },
            ["sweep", h] => match parse_hex(h) {
                Some(bs) => sweep(&bs, o),
                None => "bad-op".to_string(),
            },
            ["rt", v, items, datas] => match (v.parse::<i32>(), parse_items(items), parse_datas(datas)) {
                (Ok(v), Some(items), Some(datas)) => {
                    let file = Image::build(v, &items, &datas, &|_, d| deflate_stored(d)).serialize();
                    let exp = if well_formed(&items) && (v == 3 || v == 4) { Some((&items[..], &datas[..])) } else { None };
                    format!("f={} {}", fnv_bytes(FNV_OFFSET, &file), open(&file, o, exp))
                }
                _ => "bad-op".to_string(),
            },
            ["inflate", n, h] => match (n.parse::<usize>(), parse_hex(h)) {
                (Ok(n), Some(bs)) => {
                    let mut dest = vec![0u8; n];
                    match libtw2_zlib_minimal::uncompress(&mut dest, &bs) {
                        Ok(len) => {
                            if len > n {
                                o.fail("C16/zlib-wrote-past-destination", format!("destLen {} reported {}", n, len));
                                return "panic".to_string();
                            }
                            format!("ok {}", to_hex(&dest[..len]))
                        }
                        Err(_) => "err".to_string(),
                    }
                }
                _ => "bad-op".to_string(),
            },
            _ => "bad-op".to_string(),
        }
    }
}

// ------------------------------------------------------------------------------------------
// generator

pub fn rand_items(rng: &mut Rng, max_items: u64, max_words: u64) -> Vec<Item> {
    let n = rng.below(max_items + 1);
    let ntypes = 1 + rng.below(4);
    let pool: Vec<u16> = (0..ntypes)
        .map(|_| match rng.below(6) {
            0 => 0,
            1 => 65535,
            2 => 32768,
            _ => rng.below(10) as u16,
        })
        .collect();
    let mut items: Vec<Item> = (0..n)
        .map(|k| {
            let words = rng.below(max_words + 1);
            Item {
                type_id: *rng.pick(&pool),
                id: match rng.below(5) {
                    0 => 0,
                    1 => 65535,
                    _ => k as u16,
                },
                data: (0..words)
                    .map(|_| match rng.below(5) {
                        0 => 0,
                        1 => -1,
                        2 => i32::MIN,
                        3 => i32::MAX,
                        _ => rng.next() as i32,
                    })
                    .collect(),
            }
        })
        .collect();
    items.sort_by_key(|it| it.type_id);
    items
}

fn rand_block(rng: &mut Rng, max: u64) -> Vec<u8> {
    let n = rng.below(max + 1) as usize;
    match rng.below(4) {
        0 => vec![rng.next() as u8; n],
        1 => (0..n).map(|k| (k % 7) as u8).collect(),
        2 => {
            // text-like: compressible, ends with NUL
            let mut v: Vec<u8> = (0..n).map(|k| b"abcabcabd"[k % 9]).collect();
            v.push(0);
            v
        }
        _ => rng.bytes(n),
    }
}

pub fn rand_datas(rng: &mut Rng, max_blocks: u64, max_len: u64) -> Vec<Vec<u8>> {
    (0..rng.below(max_blocks + 1)).map(|_| rand_block(rng, max_len)).collect()
}

const BOUNDARY: [i32; 14] = [0, 1, -1, 2, 3, 4, 5, 7, 8, 12, i32::MIN, i32::MAX, i32::MIN + 1, i32::MAX - 3];

fn boundary_values(orig: i32, img: &Image) -> Vec<i32> {
    let mut v = BOUNDARY.to_vec();
    for d in [-4i32, -2, -1, 1, 2, 4] {
        v.push(orig.wrapping_add(d));
    }
    // just past the end of the things an index or offset can point into
    for e in [img.num_items, img.num_data, img.num_item_types, img.size_items, img.size_data] {
        for d in [-1i32, 0, 1] {
            v.push(e.wrapping_add(d));
        }
    }
    v.push(0x10000);
    v.push(0x10001);
    v.push(0xffff);
    v.sort();
    v.dedup();
    v.retain(|&x| x != orig);
    v
}

fn emit(out: &mut dyn Write, s: String) {
    writeln!(out, "{}", s).unwrap();
}

fn gen_bases(rng: &mut Rng, n: usize, max_items: u64, max_len: u64) -> Vec<(Image, Vec<Item>, Vec<Vec<u8>>)> {
    let mut bases = vec![];
    for k in 0..n {
        let version = if k % 2 == 0 { 4 } else { 3 };
        let mut items = rand_items(rng, max_items, 4);
        if k < 2 && items.len() < 3 {
            items = vec![
                Item { type_id: 0, id: 0, data: vec![1] },
                Item { type_id: 4, id: 0, data: vec![1, 2, 3] },
                Item { type_id: 4, id: 1, data: vec![] },
                Item { type_id: 5, id: 7, data: vec![-1, i32::MIN] },
            ];
        }
        let mut datas = rand_datas(rng, 3, max_len);
        if k < 2 && datas.is_empty() {
            datas = vec![b"hello\0".to_vec(), vec![], vec![9; 20]];
        }
        if k == 2 || k == 3 {
            // a file whose only type is 0 (the type id that 0x10000 aliases as u16)
            items = vec![Item { type_id: 0, id: 0, data: vec![1] }, Item { type_id: 0, id: 1, data: vec![] }];
        }
        let comp = *rng.pick(&[Comp::Stored, Comp::Fixed, Comp::Zlib]);
        let img = Image::build(version, &items, &datas, &|_, d| compress(comp, d));
        bases.push((img, items, datas));
    }
    bases
}

/// field-by-field corruption of one base image
fn gen_field_corruptions(out: &mut dyn Write, img: &Image, rng: &mut Rng, dense: bool) {
    let pick = |vals: Vec<i32>, rng: &mut Rng| -> Vec<i32> {
        if dense {
            vals
        } else {
            // the fixed boundary set always, the relative ones sampled
            vals.into_iter().filter(|v| BOUNDARY[..8].contains(v) || *v == i32::MIN || *v == i32::MAX || rng.chance(1, 3)).collect()
        }
    };
    // header words: raw and with size/swaplen recomputed (so the header check still passes)
    for k in 0..8 {
        let orig = img.header_words()[k];
        for v in pick(boundary_values(orig, img), rng) {
            let mut m = img.clone();
            m.set_header_word(k, v);
            emit(out, format!("open {}", to_hex(&m.serialize())));
            if k >= 3 {
                m.fix_size();
                emit(out, format!("open {}", to_hex(&m.serialize())));
            }
        }
    }
    for b in 0..4 {
        for v in [0u8, b'A', b'D', b'T', 0xff] {
            let mut m = img.clone();
            m.magic[b] = v;
            emit(out, format!("open {}", to_hex(&m.serialize())));
        }
    }
    {
        let mut m = img.clone();
        m.magic = *b"ATAD";
        emit(out, format!("open {}", to_hex(&m.serialize())));
    }
    // crude size field (version 4 files written by an old reference implementation), also on v3
    {
        let mut m = img.clone();
        m.size -= 4 * m.num_data;
        emit(out, format!("open {}", to_hex(&m.serialize())));
        m.swaplen -= 4 * m.num_data;
        emit(out, format!("open {}", to_hex(&m.serialize())));
        let mut m = img.clone();
        m.swaplen -= 4 * m.num_data;
        emit(out, format!("open {}", to_hex(&m.serialize())));
    }
    for i in 0..img.types.len() {
        for f in 0..3 {
            for v in pick(boundary_values(img.types[i][f], img), rng) {
                let mut m = img.clone();
                m.types[i][f] = v;
                emit(out, format!("open {}", to_hex(&m.serialize())));
            }
        }
    }
    // every field that `check` compares against a limit: the exact limit and limit +-1, in a
    // context in which the rest of the file still passes (always emitted, never sampled)
    {
        let le = |out: &mut dyn Write, m: &Image| emit(out, format!("open {}", to_hex(&m.serialize())));
        // an empty type entry inserted at every position, with type ids around both ends of the
        // id range and around its neighbours
        for pos in 0..=img.types.len() {
            let start = if pos < img.types.len() { img.types[pos][1] } else { img.num_items };
            let mut ids = vec![-1, 0, 1, 0xfffe, 0xffff, 0x10000, 0x10001, 0x1ffff, 0x20000, i32::MAX, i32::MIN];
            if pos > 0 {
                let p = img.types[pos - 1][0];
                ids.extend_from_slice(&[p - 1, p, p + 1]);
            }
            if pos < img.types.len() {
                let n = img.types[pos][0];
                ids.extend_from_slice(&[n - 1, n, n + 1]);
            }
            for id in ids {
                for num in [0, -1] {
                    let mut m = img.clone();
                    m.types.insert(pos, [id, start, num]);
                    m.fix_header();
                    le(out, &m);
                }
            }
        }
        for i in 0..img.types.len() {
            let [tid, start, num] = img.types[i];
            // type ids that agree with the items' type id modulo 2^16, and the neighbours' ids
            let mut ids = vec![tid.wrapping_add(0x10000), tid.wrapping_sub(0x10000), tid | 0x10000, tid.wrapping_add(0x20000), 0x10000, 0x10001, 0xffff];
            if i > 0 {
                let p = img.types[i - 1][0];
                ids.extend_from_slice(&[p - 1, p, p + 1]);
            }
            if i + 1 < img.types.len() {
                let n = img.types[i + 1][0];
                ids.extend_from_slice(&[n - 1, n, n + 1]);
            }
            for id in ids {
                let mut m = img.clone();
                m.types[i][0] = id;
                le(out, &m);
            }
            // num against num_items - start, start against the expected start
            for d in [-1, 0, 1] {
                let mut m = img.clone();
                m.types[i][2] = (img.num_items - start).wrapping_add(d);
                le(out, &m);
                let mut m = img.clone();
                m.types[i][1] = (start + num).wrapping_add(d);
                le(out, &m);
            }
        }
        // item sizes against the end of the item area, offsets against their neighbours
        for i in 0..img.items.len() {
            let remaining = img.size_items - img.item_offsets[i] - 8;
            for d in [-8, -4, -1, 0, 1, 4, 8] {
                let mut m = img.clone();
                m.items[i].1 = remaining.wrapping_add(d);
                le(out, &m);
            }
            for d in [-8, -4, 0, 4, 8] {
                let mut m = img.clone();
                m.item_offsets[i] = (img.size_items).wrapping_add(d);
                le(out, &m);
            }
        }
        // data offsets against their neighbours and the end of the data section
        for i in 0..img.data_offsets.len() {
            let mut vals = vec![img.size_data - 1, img.size_data, img.size_data + 1];
            if i > 0 {
                let p = img.data_offsets[i - 1];
                vals.extend_from_slice(&[p - 1, p, p + 1]);
            }
            if i + 1 < img.data_offsets.len() {
                let n = img.data_offsets[i + 1];
                vals.extend_from_slice(&[n - 1, n, n + 1]);
            }
            for v in vals {
                let mut m = img.clone();
                m.data_offsets[i] = v;
                le(out, &m);
            }
        }
        // the 2 GiB rule: each count/size set so that the total is exactly i32::MAX - 1, i32::MAX,
        // i32::MAX + 1 (size/swaplen recomputed)
        let total: i64 = img.serialize().len() as i64;
        for (k, unit) in [(3usize, 12i64), (4, 4), (5, if img.version >= 4 { 8 } else { 4 }), (6, 1), (7, 1)] {
            let orig = img.header_words()[k] as i64;
            for target in [i32::MAX as i64 - 1, i32::MAX as i64, i32::MAX as i64 + 1] {
                let v = orig + (target - total) / unit;
                for d in [-1i64, 0, 1] {
                    let mut m = img.clone();
                    m.set_header_word(k, (v + d) as i32);
                    m.fix_size();
                    le(out, &m);
                }
            }
        }
    }
    for i in 0..img.item_offsets.len() {
        for v in pick(boundary_values(img.item_offsets[i], img), rng) {
            let mut m = img.clone();
            m.item_offsets[i] = v;
            emit(out, format!("open {}", to_hex(&m.serialize())));
        }
    }
    for i in 0..img.data_offsets.len() {
        for v in pick(boundary_values(img.data_offsets[i], img), rng) {
            let mut m = img.clone();
            m.data_offsets[i] = v;
            emit(out, format!("open {}", to_hex(&m.serialize())));
        }
    }
    if let Some(ds) = &img.data_sizes {
        for i in 0..ds.len() {
            for v in pick(boundary_values(ds[i], img), rng) {
                let mut m = img.clone();
                m.data_sizes.as_mut().unwrap()[i] = v;
                emit(out, format!("open {}", to_hex(&m.serialize())));
            }
        }
    }
    for i in 0..img.items.len() {
        for v in pick(boundary_values(img.items[i].0, img), rng) {
            let mut m = img.clone();
            m.items[i].0 = v;
            emit(out, format!("open {}", to_hex(&m.serialize())));
        }
        for v in pick(boundary_values(img.items[i].1, img), rng) {
            // the size field alone
            let mut m = img.clone();
            m.items[i].1 = v;
            emit(out, format!("open {}", to_hex(&m.serialize())));
            // the size field together with an actual payload of that size and consistent
            // offsets / header (a file that really contains an item of `v` bytes)
            if (0..=64).contains(&v) {
                let mut m = img.clone();
                m.items[i].1 = v;
                m.items[i].2 = (0..v).map(|k| k as u8).collect();
                m.fix_offsets();
                m.fix_header();
                emit(out, format!("open {}", to_hex(&m.serialize())));
                // and a second item changed by the complementary amount so that the item
                // area stays a multiple of four
                for j in 0..img.items.len() {
                    if j != i {
                        let mut m2 = m.clone();
                        let pad = (4 - (v as usize % 4)) % 4;
                        let l = img.items[j].2.len() + pad;
                        m2.items[j].1 = l as i32;
                        m2.items[j].2 = vec![0x55; l];
                        m2.fix_offsets();
                        m2.fix_header();
                        emit(out, format!("open {}", to_hex(&m2.serialize())));
                    }
                }
            }
        }
    }
}

fn gen_inflate_cases(out: &mut dyn Write, rng: &mut Rng, n: usize, max_len: u64) {
    for _ in 0..n {
        let d = rand_block(rng, max_len);
        let comp = *rng.pick(&[Comp::Stored, Comp::Fixed, Comp::Zlib, Comp::Zlib]);
        let z = compress(comp, &d);
        for dl in [d.len(), d.len() + 1, d.len().saturating_sub(1), 0, 1, d.len() + 1000] {
            emit(out, format!("inflate {} {}", dl, to_hex(&z)));
        }
        // truncation and single-byte corruption
        if z.len() <= 80 {
            for cut in 0..z.len() {
                emit(out, format!("inflate {} {}", d.len(), to_hex(&z[..cut])));
            }
        }
        for _ in 0..12 {
            let mut m = z.clone();
            let p = rng.below(m.len() as u64) as usize;
            m[p] = match rng.below(4) {
                0 => m[p] ^ (1 << rng.below(8)),
                1 => 0,
                2 => 0xff,
                _ => rng.next() as u8,
            };
            emit(out, format!("inflate {} {}", d.len() + rng.below(3) as usize, to_hex(&m)));
        }
        let mut m = z.clone();
        m.extend_from_slice(&rng.bytes(3));
        emit(out, format!("inflate {} {}", d.len(), to_hex(&m)));
    }
    // every header byte pair class, the three block types on nearly empty input
    for cmf in [0x78u8, 0x08, 0x88, 0x79, 0x68, 0x00] {
        for flg in [0x01u8, 0x9c, 0xda, 0x5e, 0x20, 0x3d, 0xbb] {
            for tail in [&[0x01u8, 0, 0, 0xff, 0xff, 0, 0, 0, 1][..], &[0x03, 0x00, 0, 0, 0, 1][..], &[0x05][..], &[0x07][..], &[][..]] {
                let mut z = vec![cmf, flg];
                z.extend_from_slice(tail);
                emit(out, format!("inflate 4 {}", to_hex(&z)));
                emit(out, format!("inflate 0 {}", to_hex(&z)));
            }
        }
    }
}

impl Domain for D {
    fn gen(&self, tier: &str, seed: u64, out: &mut dyn Write) {
        tune_malloc();
        let mut rng = Rng::new(seed ^ 0xdf16);
        let thorough = tier != "quick";
        let (n_rt, n_openx, n_bases, n_rand, n_infl) = if thorough { (4000, 2000, 40, 6000, 400) } else { (300, 150, 8, 600, 40) };
        let max_len: u64 = if thorough { 400 } else { 48 };

        // 1. well-formed files: both writers (this one and the Lean model's) and the reader
        emit(out, "rt 3 _ _".to_string());
        emit(out, "rt 4 _ _".to_string());
        for k in 0..n_rt {
            let v = 3 + (k % 2);
            let items = rand_items(&mut rng, 6, 5);
            let datas = rand_datas(&mut rng, 4, max_len);
            emit(out, format!("rt {} {} {}", v, items_str(&items), datas_str(&datas)));
        }
        if thorough {
            // stored blocks longer than 65535 bytes, many items
            let big: Vec<u8> = (0..70000u32).map(|k| (k * 7 >> 3) as u8).collect();
            emit(out, format!("rt 4 {} {}", items_str(&rand_items(&mut rng, 200, 3)), datas_str(&[big.clone(), vec![], big])));
        }
        // unsorted item lists: the writers still agree, the reader must reject or accept without panic
        for _ in 0..(n_rt / 10) {
            let mut items = rand_items(&mut rng, 5, 2);
            items.reverse();
            emit(out, format!("rt {} {} _", 3 + rng.below(2), items_str(&items)));
        }

        // 2. well-formed files with real zlib / fixed-Huffman compression
        for k in 0..n_openx {
            let v = if k % 4 == 0 { 3 } else { 4 };
            let items = rand_items(&mut rng, 6, 5);
            let datas = rand_datas(&mut rng, 4, if k % 5 == 0 { 3000 } else { max_len });
            let comp = *rng.pick(&[Comp::Fixed, Comp::Zlib]);
            let img = Image::build(v, &items, &datas, &|_, d| compress(comp, d));
            emit(out, format!("openx {} {} {}", to_hex(&img.serialize()), items_str(&items), datas_str(&datas)));
        }

        // 3. single-field corruption with boundary values
        let bases = gen_bases(&mut rng, n_bases, 5, 24);
        for (k, (img, _, _)) in bases.iter().enumerate() {
            gen_field_corruptions(out, img, &mut rng, thorough || k < 2);
        }

        // 4. truncation at every position, trailing bytes
        for (img, _, _) in bases.iter().take(if thorough { 12 } else { 3 }) {
            let f = img.serialize();
            for cut in 0..f.len() {
                emit(out, format!("open {}", to_hex(&f[..cut])));
            }
            let mut g = f.clone();
            g.extend_from_slice(&[0xee; 5]);
            emit(out, format!("open {}", to_hex(&g)));
        }

        // 5. corrupt and oversized compressed blocks
        for (img, items, datas) in bases.iter().filter(|b| b.0.version == 4) {
            let f = img.serialize();
            let ds = img.data_start();
            for p in ds..f.len() {
                for _ in 0..(if thorough { 4 } else { 2 }) {
                    let mut g = f.clone();
                    g[p] = match rng.below(4) {
                        0 => g[p] ^ (1 << rng.below(8)),
                        1 => 0,
                        2 => 0xff,
                        _ => rng.next() as u8,
                    };
                    emit(out, format!("open {}", to_hex(&g)));
                }
            }
            // a block that inflates to more / less than the size table says
            for i in 0..datas.len() {
                for delta in [-1i64, 1, 7, 1000] {
                    let l = (datas[i].len() as i64 + delta).max(0) as usize;
                    let other: Vec<u8> = (0..l).map(|k| (k * 3) as u8).collect();
                    let sizes: Vec<i32> = datas.iter().map(|d| d.len() as i32).collect();
                    let mut m = Image::build(4, items, datas, &|j, d| if j == i { deflate_zlib(&other) } else { deflate_stored(d) });
                    m.data_sizes = Some(sizes);
                    emit(out, format!("open {}", to_hex(&m.serialize())));
                }
            }
        }

        // 6. random bytes: raw, behind a valid magic/version, behind a self-consistent header
        for k in 0..n_rand {
            let n = rng.below(120) as usize;
            let mut f = rng.bytes(n);
            match k % 3 {
                0 => {}
                1 => {
                    let mut g = b"DATA".to_vec();
                    g.extend_from_slice(&(3 + rng.below(2) as i32).to_le_bytes());
                    g.extend_from_slice(&f);
                    f = g;
                }
                _ => {
                    let mut m = Image::build(3 + rng.below(2) as i32, &[], &[], &|_, d| deflate_stored(d));
                    let small = |rng: &mut Rng| -> i32 {
                        match rng.below(8) {
                            0 => -1,
                            1 => i32::MAX,
                            _ => rng.below(5) as i32,
                        }
                    };
                    m.num_item_types = small(&mut rng);
                    m.num_items = small(&mut rng);
                    m.num_data = small(&mut rng);
                    m.size_items = small(&mut rng).wrapping_mul(if rng.chance(1, 8) { 4 } else { 8 }) / if rng.chance(1, 10) { 3 } else { 1 };
                    m.size_data = small(&mut rng);
                    m.fix_size();
                    let mut g = m.serialize();
                    g.extend_from_slice(&f);
                    // small values make the tables plausible
                    for b in g.iter_mut().skip(36) {
                        if rng.chance(2, 3) {
                            *b = if rng.chance(1, 2) { 0 } else { rng.below(9) as u8 };
                        }
                    }
                    f = g;
                }
            }
            emit(out, format!("open {}", to_hex(&f)));
        }

        // 7. the zlib stand-in of the driver against zlib
        gen_inflate_cases(out, &mut rng, n_infl, if thorough { 3000 } else { 120 });

        // 7b. exhaustive: every pair of header words x every pair of boundary values (hash form),
        //     raw and with size/swaplen recomputed
        for (img, _, _) in bases.iter().take(if thorough { 4 } else { 1 }) {
            let mut vals: Vec<i32> = if thorough {
                vec![0, 1, -1, 2, 3, 4, 5, 7, 8, 12, 16, 36, 48, 0x10000, 0xffff, i32::MIN, i32::MIN + 1, i32::MAX, i32::MAX - 3, i32::MAX - 35, 0x20000000, 0x15555555, 0x0aaaaaaa, 0x7ffffff0]
            } else {
                vec![0, 1, -1, 3, 4, 8, i32::MIN, i32::MAX, i32::MAX - 3, 0x20000000]
            };
            vals.extend_from_slice(&img.header_words());
            vals.sort();
            vals.dedup();
            let vs = vals.iter().map(|v| v.to_string()).collect::<Vec<_>>().join(",");
            let hex = to_hex(&img.serialize());
            for k1 in 0..8 {
                for k2 in (k1 + 1)..8 {
                    for fix in [0, 1] {
                        emit(out, format!("hsweep {} {} {} {} {}", fix, k1, k2, vs, hex));
                    }
                }
            }
        }

        // 7c. callbacks that fail: every callback call of Reader::new on valid and on broken files
        for (img, _, _) in bases.iter().take(if thorough { 12 } else { 4 }) {
            let f = img.serialize();
            for k in 0..9 {
                emit(out, format!("opencb {} {}", k, to_hex(&f)));
                // a file that is too short / malformed: the earlier error wins
                emit(out, format!("opencb {} {}", k, to_hex(&f[..f.len() / 2])));
                let mut g = f.clone();
                if g.len() > 40 {
                    g[38] ^= 0x40;
                }
                emit(out, format!("opencb {} {}", k, to_hex(&g)));
            }
        }

        // 8. all 65536 type ids
        for (img, _, _) in bases.iter().take(if thorough { 10 } else { 1 }) {
            emit(out, format!("sweep {}", to_hex(&img.serialize())));
        }
    }
    fn runner(&self) -> Box<dyn Runner> {
        tune_malloc();
        Box::new(R)
    }
}
