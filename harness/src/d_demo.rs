//! Domain `demo`: the low-level `libtw2_demo::Writer` writing into memory and
//! `libtw2_demo::Reader` reading the same bytes back.  Property C15 (low level).
//!
//! Line protocol: see `lean/Tw/Drv/Demo.lean`.
//!
//! The oracle evaluates C15 on the real code without the Lean model: on every `read` the reader
//! must return the header fields given to `Writer::new` and exactly the chunks whose `write_*` call
//! returned `Ok` (messages zero-padded to a multiple of four), reach the end of the file without
//! an error and raise no warning.  A panic of the writer is reported unless it is one of the
//! writer's own assertions (its in-code preconditions).
use crate::util::*;
use libtw2_common::digest::Sha256;
use libtw2_demo::DemoKind;
use libtw2_demo::RawChunk;
use libtw2_demo::ReadError;
use libtw2_demo::Reader;
use libtw2_demo::Version;
use libtw2_demo::Warning;
use libtw2_demo::Writer;
use libtw2_huffman::instances::TEEWORLDS as HUFFMAN;
use std::cell::RefCell;
use std::io;
use std::io::Write;
use std::rc::Rc;

pub struct D;

pub fn domain() -> Box<dyn Domain> {
    Box::new(D)
}

// ------------------------------------------------------------------------------------------
// data tokens

pub fn gen_data(len: usize, seed: u64) -> Vec<u8> {
    (0..len as u64).map(|i| (seed.wrapping_add(7 * i).wrapping_add(13 * (i / 900)).wrapping_add(i / 256)) as u8).collect()
}

pub fn lcg_data(len: usize, seed: u64) -> Vec<u8> {
    let mut x = seed;
    let mut out = Vec::with_capacity(len);
    for _ in 0..len {
        x = (1103515245u64.wrapping_mul(x).wrapping_add(12345)) % 2147483648;
        out.push((x / 65536) as u8);
    }
    out
}

fn parse_two(rest: &str) -> Option<(usize, u64)> {
    let mut it = rest.split(':');
    let a: usize = it.next()?.parse().ok()?;
    let b: u64 = it.next()?.parse().ok()?;
    if it.next().is_some() {
        return None;
    }
    Some((a, b))
}

fn parse_part(s: &str) -> Option<Vec<u8>> {
    if let Some(rest) = s.strip_prefix('g') {
        let (l, sd) = parse_two(rest)?;
        Some(gen_data(l, sd))
    } else if let Some(rest) = s.strip_prefix('x') {
        let (l, sd) = parse_two(rest)?;
        Some(lcg_data(l, sd))
    } else if let Some(rest) = s.strip_prefix('n') {
        // non-zero bytes
        let (l, sd) = parse_two(rest)?;
        Some(lcg_data(l, sd).into_iter().map(|b| 1 + b % 255).collect())
    } else if let Some(rest) = s.strip_prefix('z') {
        let l: usize = rest.parse().ok()?;
        Some(vec![0; l])
    } else {
        parse_hex(s)
    }
}

pub fn parse_data(s: &str) -> Option<Vec<u8>> {
    let mut out = vec![];
    for p in s.split('+') {
        out.extend(parse_part(p)?);
    }
    Some(out)
}

pub fn data_tok(d: &[u8]) -> String {
    if d.len() <= 32 {
        to_hex(d)
    } else {
        format!("#{}:{}", d.len(), fnv_bytes(FNV_OFFSET, d))
    }
}

// ------------------------------------------------------------------------------------------
// in-memory file shared between the writer and the harness

#[derive(Clone)]
pub struct Shared(pub Rc<RefCell<io::Cursor<Vec<u8>>>>);

impl Shared {
    pub fn new() -> Shared {
        Shared(Rc::new(RefCell::new(io::Cursor::new(vec![]))))
    }
    pub fn bytes(&self) -> Vec<u8> {
        self.0.borrow().get_ref().clone()
    }
    pub fn len(&self) -> usize {
        self.0.borrow().get_ref().len()
    }
}

impl io::Write for Shared {
    fn write(&mut self, buf: &[u8]) -> io::Result<usize> {
        self.0.borrow_mut().write(buf)
    }
    fn flush(&mut self) -> io::Result<()> {
        self.0.borrow_mut().flush()
    }
}

impl io::Seek for Shared {
    fn seek(&mut self, pos: io::SeekFrom) -> io::Result<u64> {
        self.0.borrow_mut().seek(pos)
    }
}

// ------------------------------------------------------------------------------------------
// reading side

#[derive(Clone, Debug, PartialEq, Eq)]
pub enum OChunk {
    Tick(i32, bool),
    Snapshot(Vec<u8>),
    Delta(Vec<u8>),
    Message(Vec<u8>),
    Unknown,
}

impl OChunk {
    fn text(&self) -> String {
        match self {
            OChunk::Tick(t, kf) => format!("{}{}", if *kf { "K" } else { "T" }, t),
            OChunk::Snapshot(d) => format!("S:{}", data_tok(d)),
            OChunk::Delta(d) => format!("D:{}", data_tok(d)),
            OChunk::Message(d) => format!("M:{}", data_tok(d)),
            OChunk::Unknown => "U".to_string(),
        }
    }
}

#[derive(Clone, Debug, PartialEq, Eq)]
pub struct OHeader {
    pub version: u8,
    pub net_version: Vec<u8>,
    pub map_name: Vec<u8>,
    pub map_size: u32,
    pub crc: u32,
    pub server: bool,
    pub length: i32,
    pub timestamp: Vec<u8>,
    pub markers: Vec<i32>,
    pub sha: Option<Vec<u8>>,
    pub map: Vec<u8>,
}

pub struct ReadOut {
    pub header: OHeader,
    pub chunks: Vec<OChunk>,
    pub error: Option<String>,
    pub warnings: Vec<String>,
}

pub fn version_num(v: Version) -> u8 {
    match v {
        Version::V3 => 3,
        Version::V4 => 4,
        Version::V5 => 5,
        Version::V6Ddnet => 6,
    }
}

pub fn read_error_name(e: &ReadError) -> String {
    match e {
        ReadError::Io(e) => {
            if e.kind() == io::ErrorKind::UnexpectedEof {
                "UnexpectedEof".to_string()
            } else {
                "Io".to_string()
            }
        }
        ReadError::Binrw(e) => {
            if e.is_eof() {
                "UnexpectedEof".to_string()
            } else {
                "Binrw".to_string()
            }
        }
        ReadError::Huffman(libtw2_huffman::DecompressionError::Capacity(_)) => "HuffmanCapacity".to_string(),
        ReadError::Huffman(libtw2_huffman::DecompressionError::InvalidInput) => "HuffmanInvalidInput".to_string(),
        ReadError::MessageVarIntUnexpectedEnd => "MessageVarIntUnexpectedEnd".to_string(),
        ReadError::MessageVarIntTooLong => "MessageVarIntTooLong".to_string(),
        ReadError::NotIncreasingTick => "NotIncreasingTick".to_string(),
        ReadError::StartingDeltaSnapshot => "StartingDeltaSnapshot".to_string(),
        ReadError::TickOverflow => "TickOverflow".to_string(),
    }
}

/// `Reader::new`, the header accessors, `read_chunk` until the end or the first error.
pub fn read_file(bytes: Vec<u8>) -> Option<ReadOut> {
    let mut ws: Vec<Warning> = vec![];
    let mut reader = match Reader::new(io::Cursor::new(bytes), &mut ws) {
        Ok(r) => r,
        Err(_) => return None,
    };
    let header = OHeader {
        version: version_num(reader.version()),
        net_version: reader.net_version().to_vec(),
        map_name: reader.map_name().to_vec(),
        map_size: reader.map_size(),
        crc: reader.map_crc(),
        server: match reader.kind() {
            DemoKind::Client => false,
            DemoKind::Server => true,
        },
        length: reader.length(),
        timestamp: reader.timestamp().to_vec(),
        markers: reader.timeline_markers().to_vec(),
        sha: reader.map_sha256().map(|s| s.0.to_vec()),
        map: reader.map_data().to_vec(),
    };
    let mut chunks = vec![];
    let mut error = None;
    loop {
        match reader.read_chunk(&mut ws) {
            Ok(None) => break,
            Ok(Some(c)) => chunks.push(match c {
                RawChunk::Tick { tick, keyframe } => OChunk::Tick(tick, keyframe),
                RawChunk::Snapshot(d) => OChunk::Snapshot(d.to_vec()),
                RawChunk::SnapshotDelta(d) => OChunk::Delta(d.to_vec()),
                RawChunk::Message(d) => OChunk::Message(d.to_vec()),
                RawChunk::Unknown => OChunk::Unknown,
            }),
            Err(e) => {
                error = Some(read_error_name(&e));
                break;
            }
        }
    }
    Some(ReadOut { header, chunks, error, warnings: ws.iter().map(|w| format!("{:?}", w)).collect() })
}

pub fn read_text(r: &Option<ReadOut>) -> String {
    let r = match r {
        None => return "hdr-err".to_string(),
        Some(r) => r,
    };
    let h = &r.header;
    let strs: Vec<String> = r.chunks.iter().map(|c| c.text()).collect();
    let cs = if strs.len() <= 48 {
        list_str(strs)
    } else {
        format!("#{}:{}", strs.len(), fnv_bytes(FNV_OFFSET, strs.join(",").as_bytes()))
    };
    format!(
        "v{} nv={} mn={} ms={} crc={} k={} len={} ts={} tm={} sha={} map={} | {} | {} | w={}",
        h.version,
        to_hex(&h.net_version),
        to_hex(&h.map_name),
        h.map_size,
        h.crc,
        if h.server { "s" } else { "c" },
        h.length,
        to_hex(&h.timestamp),
        list_str(h.markers.iter().map(|m| m.to_string())),
        match &h.sha {
            None => "none".to_string(),
            Some(s) => to_hex(s),
        },
        data_tok(&h.map),
        cs,
        match &r.error {
            None => "end".to_string(),
            Some(e) => format!("err:{}", e),
        },
        list_str(r.warnings.iter().cloned()),
    )
}

// ------------------------------------------------------------------------------------------
// runner

struct Args {
    net_version: Vec<u8>,
    map_name: Vec<u8>,
    sha: Option<Vec<u8>>,
    crc: u32,
    server: bool,
    length: i32,
    timestamp: Vec<u8>,
    map: Vec<u8>,
}

struct R {
    file: Shared,
    writer: Option<Writer<'static>>,
    args: Option<Args>,
    /// chunks whose write call returned `Ok` (oracle bookkeeping)
    accepted: Vec<OChunk>,
    /// tick of the last accepted tick marker (oracle bookkeeping)
    prev_tick: Option<i32>,
}

fn pad4(d: &[u8]) -> Vec<u8> {
    let mut v = d.to_vec();
    while v.len() % 4 != 0 {
        v.push(0);
    }
    v
}

/// the writer's own assertions (its in-code preconditions)
fn known_writer_panic(msg: &str) -> Option<&'static str> {
    if msg.contains("tick > p") {
        Some("tick-not-increasing")
    } else if msg.contains("overlong message") {
        Some("overlong-message")
    } else if msg.contains("negative demo length") {
        Some("negative-length")
    } else if msg.contains("too long chunk") {
        Some("too-long-chunk")
    } else if msg.contains("too long compression") {
        Some("too-long-compression")
    } else if msg.contains("raw.len() < N") {
        Some("string-capacity")
    } else if msg.contains("explicit panic") {
        Some("unknown-chunk")
    } else if msg.contains("Overflow casting") && msg.contains("`u16`") {
        Some("chunk-size-u16")
    } else {
        None
    }
}

impl R {
    fn new() -> R {
        R { file: Shared::new(), writer: None, args: None, accepted: vec![], prev_tick: None }
    }

    fn write(&mut self, c: OChunk, o: &mut Oracle) -> String {
        let w = match self.writer.as_mut() {
            None => return "no-writer".to_string(),
            Some(w) => w,
        };
        let before = self.file.len();
        let res = catch(|| match &c {
            OChunk::Tick(t, kf) => w.write_tick(*kf, *t),
            OChunk::Snapshot(d) => w.write_snapshot(d),
            OChunk::Delta(d) => w.write_snapshot_delta(d),
            OChunk::Message(d) => w.write_message(d),
            OChunk::Unknown => w.write_chunk(RawChunk::Unknown),
        });
        match res {
            Ok(Ok(())) => {
                o.count(match c {
                    OChunk::Tick(..) => "ok-tick",
                    OChunk::Snapshot(..) => "ok-snapshot",
                    OChunk::Delta(..) => "ok-delta",
                    OChunk::Message(..) => "ok-message",
                    OChunk::Unknown => "ok-unknown",
                });
                // distribution of the size-encoding branch actually taken
                let n = self.file.len() - before;
                // the documented mechanisms, checked on the appended bytes: the tick marker is inline
                // exactly when a previous tick exists, no key frame is flagged and the gap is 1..=31;
                // the size is encoded in the shortest of the three forms
                let appended = self.file.bytes()[before..].to_vec();
                match &c {
                    OChunk::Tick(t, kf) => {
                        let inline = match self.prev_tick {
                            Some(p) => !*kf && (*t as i64 - p as i64) <= 31,
                            None => false,
                        };
                        if appended.len() != if inline { 1 } else { 5 } {
                            o.fail("C15/tick-marker-form", format!("tick {} (key frame {}) after {:?}: {} marker bytes", t, kf, self.prev_tick, appended.len()));
                        }
                        self.prev_tick = Some(*t);
                    }
                    _ => {
                        let s = (appended[0] & 0x1f) as usize;
                        let (hdr, size) = if s < 30 {
                            (1, s)
                        } else if s == 30 {
                            (2, appended.get(1).cloned().unwrap_or(0) as usize)
                        } else {
                            (3, appended.get(1).cloned().unwrap_or(0) as usize + 256 * appended.get(2).cloned().unwrap_or(0) as usize)
                        };
                        let canonical = if size < 30 { 1 } else if size <= 255 { 2 } else { 3 };
                        if hdr + size != appended.len() || hdr != canonical {
                            o.fail("C15/size-encoding-form", format!("{}: {} bytes appended, size field {} in a {}-byte header", c.text(), appended.len(), size, hdr));
                        }
                    }
                }
                if !matches!(c, OChunk::Tick(..)) {
                    o.count(if n < 1 + 30 { "size-inline" } else if n <= 2 + 255 { "size-one-byte" } else { "size-two-bytes" });
                } else {
                    o.count(if n == 1 { "tick-inline" } else { "tick-absolute" });
                }
                self.accepted.push(c);
                format!("ok {}", self.file.len())
            }
            Ok(Err(e)) => {
                o.fail("C15/writer-io-error", format!("{:?} -> {}", c.text(), e));
                "err".to_string()
            }
            Err(msg) => {
                match known_writer_panic(&msg) {
                    Some(k) => o.count(&format!("writer-assert-{}", k)),
                    None => o.fail("C15/unexpected-writer-panic", format!("{} -> {}", c.text(), msg)),
                }
                if self.file.len() != before {
                    o.fail("C15/panic-after-partial-write", format!("{} -> {} (file grew by {})", c.text(), msg, self.file.len() - before));
                }
                "panic".to_string()
            }
        }
    }

    /// the C15 statement on the real reader
    fn check_roundtrip(&self, out: &Option<ReadOut>, o: &mut Oracle) {
        let a = match &self.args {
            None => return,
            Some(a) => a,
        };
        o.count("roundtrip-checked");
        let r = match out {
            None => {
                o.fail("C15/reader-refuses-written-header", format!("length={} map_len={}", a.length, a.map.len()));
                return;
            }
            Some(r) => r,
        };
        // header strings with an embedded NUL are outside the documented format ("null-terminated strings")
        let nul_free = |s: &[u8]| !s.contains(&0);
        let strings_ok = nul_free(&a.net_version) && nul_free(&a.map_name) && nul_free(&a.timestamp);
        let h = &r.header;
        let want = OHeader {
            version: if a.sha.is_some() { 6 } else { 5 },
            net_version: a.net_version.clone(),
            map_name: a.map_name.clone(),
            map_size: a.map.len() as u32,
            crc: a.crc,
            server: a.server,
            length: a.length,
            timestamp: a.timestamp.clone(),
            markers: vec![],
            sha: a.sha.clone(),
            map: a.map.clone(),
        };
        if strings_ok {
            if *h != want {
                o.fail("C15/header-fields-differ", format!("written {:?} read {:?}", want, h).chars().take(600).collect());
            }
        } else {
            o.count("header-string-with-nul");
        }
        let want_chunks: Vec<OChunk> = self
            .accepted
            .iter()
            .map(|c| match c {
                OChunk::Message(d) => OChunk::Message(pad4(d)),
                c => c.clone(),
            })
            .collect();
        if let Some(e) = &r.error {
            o.fail(
                "C15/reader-error-on-written-file",
                format!("{} after {} of {} chunks; next chunk: {}", e, r.chunks.len(), want_chunks.len(), want_chunks.get(r.chunks.len()).map(|c| c.text()).unwrap_or_default()),
            );
        } else if r.chunks != want_chunks {
            let i = r.chunks.iter().zip(want_chunks.iter()).position(|(a, b)| a != b).unwrap_or(r.chunks.len().min(want_chunks.len()));
            o.fail(
                "C15/chunks-differ",
                format!(
                    "{} written, {} read; first difference at {}: written {} read {}",
                    want_chunks.len(),
                    r.chunks.len(),
                    i,
                    want_chunks.get(i).map(|c| c.text()).unwrap_or_default(),
                    r.chunks.get(i).map(|c| c.text()).unwrap_or_default()
                ),
            );
        }
        if !r.warnings.is_empty() && strings_ok {
            o.fail("C15/warning-on-written-file", r.warnings.join(","));
        }
    }
}

impl Runner for R {
    fn run(&mut self, t: &[&str], o: &mut Oracle) -> String {
        match t {
            ["new", nv, mn, sha, crc, k, len, ts, map] => {
                *self = R::new();
                let sha = if *sha == "none" {
                    Some(None)
                } else {
                    match parse_data(sha) {
                        Some(b) if b.len() == 32 => Some(Some(b)),
                        _ => None,
                    }
                };
                let server = match *k {
                    "c" => Some(false),
                    "s" => Some(true),
                    _ => None,
                };
                let (nv, mn, sha, crc, server, len, ts, map) =
                    match (parse_data(nv), parse_data(mn), sha, crc.parse::<u32>().ok(), server, len.parse::<i32>().ok(), parse_data(ts), parse_data(map)) {
                        (Some(a), Some(b), Some(c), Some(d), Some(e), Some(f), Some(g), Some(h)) => (a, b, c, d, e, f, g, h),
                        _ => return "bad-args".to_string(),
                    };
                let file = self.file.clone();
                let res = catch(|| {
                    Writer::new(
                        file,
                        &nv,
                        &mn,
                        sha.as_ref().map(|s| Sha256::from_slice(s).unwrap()),
                        crc,
                        if server { DemoKind::Server } else { DemoKind::Client },
                        len,
                        &ts,
                        &map,
                    )
                });
                match res {
                    Ok(Ok(w)) => {
                        self.writer = Some(w);
                        let b = self.file.bytes();
                        if b != doc_header(&nv, &mn, sha.as_deref(), crc, server, len, &ts, &map) {
                            o.fail("C15/header-layout", format!("the {} bytes written by Writer::new are not the documented layout of these fields", b.len()));
                        }
                        self.args = Some(Args { net_version: nv, map_name: mn, sha, crc, server, length: len, timestamp: ts, map });
                        o.count("new-ok");
                        format!("ok {} {}", b.len(), fnv_bytes(FNV_OFFSET, &b))
                    }
                    Ok(Err(e)) => {
                        o.fail("C15/writer-io-error", format!("Writer::new -> {}", e));
                        "err".to_string()
                    }
                    Err(msg) => {
                        match known_writer_panic(&msg) {
                            Some(k) => o.count(&format!("writer-assert-{}", k)),
                            None => o.fail("C15/unexpected-writer-panic", format!("Writer::new -> {}", msg)),
                        }
                        "panic".to_string()
                    }
                }
            }
            ["sweep", ver, pre, lo, hi] => match (ver.parse::<usize>().ok(), pre.parse::<usize>().ok(), lo.parse::<usize>().ok(), hi.parse::<usize>().ok()) {
                (Some(ver), Some(pre), Some(lo), Some(hi)) => {
                    if ver > 255 || pre > 1 || hi > 65536 || lo > hi {
                        return "bad-args".to_string();
                    }
                    let mut h = FNV_OFFSET;
                    for x in lo..hi {
                        let out = read_file(sweep_file(ver as u8, pre == 1, x));
                        h = fnv_byte(fnv_bytes(h, read_text(&out).as_bytes()), 10);
                    }
                    o.add("chunk_headers_swept", (hi - lo) as u64);
                    format!("h {}", h)
                }
                _ => "bad-args".to_string(),
            },
            ["raw", d] => match parse_data(d) {
                Some(d) => {
                    let out = read_file(d);
                    count_read(&out, o);
                    read_text(&out)
                }
                None => "bad-args".to_string(),
            },
            ["t", kf, tick] => match (kf.parse::<u8>().ok(), tick.parse::<i32>().ok()) {
                (Some(kf), Some(tick)) if kf <= 1 => {
                    if self.writer.is_none() {
                        return "no-writer".to_string();
                    }
                    self.write(OChunk::Tick(tick, kf == 1), o)
                }
                _ => {
                    if self.writer.is_none() {
                        "no-writer".to_string()
                    } else {
                        "bad-args".to_string()
                    }
                }
            },
            [op @ ("s" | "d" | "m"), d] => {
                if self.writer.is_none() {
                    return "no-writer".to_string();
                }
                match parse_data(d) {
                    Some(d) => self.write(
                        match *op {
                            "s" => OChunk::Snapshot(d),
                            "d" => OChunk::Delta(d),
                            _ => OChunk::Message(d),
                        },
                        o,
                    ),
                    None => "bad-args".to_string(),
                }
            }
            ["u"] => self.write(OChunk::Unknown, o),
            ["file"] => {
                if self.writer.is_none() {
                    return "no-writer".to_string();
                }
                data_tok(&self.file.bytes())
            }
            ["read"] => {
                if self.writer.is_none() {
                    return "no-writer".to_string();
                }
                let out = read_file(self.file.bytes());
                count_read(&out, o);
                self.check_roundtrip(&out, o);
                read_text(&out)
            }
            ["readmut", off, x] => {
                if self.writer.is_none() {
                    return "no-writer".to_string();
                }
                match (off.parse::<usize>().ok(), x.parse::<usize>().ok()) {
                    (Some(off), Some(x)) => {
                        let mut b = self.file.bytes();
                        if b.is_empty() {
                            return "bad-args".to_string();
                        }
                        let i = off % b.len();
                        b[i] ^= x as u8;
                        let out = read_file(b);
                        count_read(&out, o);
                        read_text(&out)
                    }
                    _ => "bad-args".to_string(),
                }
            }
            ["mutall"] => {
                if self.writer.is_none() {
                    return "no-writer".to_string();
                }
                let f = self.file.bytes();
                let mut h = FNV_OFFSET;
                let mut fold = |b: Vec<u8>, what: String, o: &mut Oracle| {
                    let text = match catch(|| read_text(&read_file(b))) {
                        Ok(t) => t,
                        Err(msg) => {
                            // the writer produced the undamaged file: a reader panic on a damaged copy is reported
                            o.fail("C15/reader-panics-on-damaged-file", format!("{}: {}", what, msg));
                            "panic".to_string()
                        }
                    };
                    h = fnv_byte(fnv_bytes(h, text.as_bytes()), 10);
                };
                for i in 0..f.len() {
                    for x in [0x01u8, 0x80, 0xff] {
                        let mut b = f.clone();
                        b[i] ^= x;
                        fold(b, format!("byte {} xor {:#x}", i, x), o);
                    }
                    fold(f[..i].to_vec(), format!("truncated to {} bytes", i), o);
                }
                o.add("damaged_files_swept", 4 * f.len() as u64);
                format!("h {}", h)
            }
            ["readtrunc", n] => {
                if self.writer.is_none() {
                    return "no-writer".to_string();
                }
                match n.parse::<usize>().ok() {
                    Some(n) => {
                        let mut b = self.file.bytes();
                        let l = n % (b.len() + 1);
                        b.truncate(l);
                        let out = read_file(b);
                        count_read(&out, o);
                        read_text(&out)
                    }
                    None => "bad-args".to_string(),
                }
            }
            [_op, ..] => {
                if self.writer.is_none() {
                    "no-writer".to_string()
                } else {
                    "bad-op".to_string()
                }
            }
            _ => "bad-op".to_string(),
        }
    }
}

/// the file start `doc/demo.md` prescribes for these header fields (version 5, or 6 with the
/// DDNet SHA-256 extension block): written independently of the crate's `binrw` declarations
pub fn doc_header(nv: &[u8], mn: &[u8], sha: Option<&[u8]>, crc: u32, server: bool, length: i32, ts: &[u8], map: &[u8]) -> Vec<u8> {
    fn padded(s: &[u8], n: usize) -> Vec<u8> {
        let mut v = s.to_vec();
        v.resize(n, 0);
        v
    }
    let mut f: Vec<u8> = b"TWDEMO\0".to_vec();
    f.push(if sha.is_some() { 6 } else { 5 });
    f.extend(padded(nv, 64));
    f.extend(padded(mn, 64));
    let ms = map.len() as u32;
    f.extend([(ms >> 24) as u8, (ms >> 16) as u8, (ms >> 8) as u8, ms as u8]);
    f.extend([(crc >> 24) as u8, (crc >> 16) as u8, (crc >> 8) as u8, crc as u8]);
    f.extend(if server { b"server\0\0" } else { b"client\0\0" });
    let l = length as u32;
    f.extend([(l >> 24) as u8, (l >> 16) as u8, (l >> 8) as u8, l as u8]);
    f.extend(padded(ts, 20));
    f.extend(vec![0u8; 4 + 256]);
    if let Some(s) = sha {
        f.extend([0x6b, 0xe6, 0xda, 0x4a, 0xce, 0xbd, 0x38, 0x0c, 0x9b, 0x5b, 0x12, 0x89, 0xc8, 0x42, 0xd7, 0x80]);
        f.extend(s);
    }
    f.extend(map);
    f
}

/// the file of case `x` of the exhaustive chunk-header sweep (see `sweepFile` in `Drv/Demo.lean`)
fn sweep_file(ver: u8, pre: bool, x: usize) -> Vec<u8> {
    let mut f: Vec<u8> = b"TWDEMO\0".to_vec();
    f.push(ver);
    f.extend(vec![0u8; 64 + 64 + 4 + 4]);
    f.extend(b"client\0\0");
    f.extend(vec![0u8; 4 + 20]);
    if ver != 3 {
        f.extend(vec![0u8; 4 + 256]);
    }
    if ver == 6 {
        f.extend([0x6b, 0xe6, 0xda, 0x4a, 0xce, 0xbd, 0x38, 0x0c, 0x9b, 0x5b, 0x12, 0x89, 0xc8, 0x42, 0xd7, 0x80]);
        f.extend(vec![0u8; 32]);
    }
    if pre {
        f.extend([0x80, 0x7f, 0xff, 0xff, 0xf6]);
    }
    f.push((x / 256) as u8);
    f.push(x as u8);
    f.extend([0x05, 0x01, 0x02, 0x03, 0x04, 0x05, 0x06, 0x07, 0x08, 0x09, 0x0a, 0x0b, 0x0c, 0x0d, 0x0e, 0x0f, 0x81, 0x00, 0x00, 0x00, 0x07, 0xa3, 0x22, 0x51]);
    f
}

fn count_read(out: &Option<ReadOut>, o: &mut Oracle) {
    match out {
        None => o.count("read-hdr-err"),
        Some(r) => {
            o.count(&format!("read-v{}", r.header.version));
            match &r.error {
                None => o.count("read-end"),
                Some(e) => o.count(&format!("read-err-{}", e)),
            }
            for w in &r.warnings {
                o.count(&format!("warn-{}", w));
            }
        }
    }
}

impl Domain for D {
    fn gen(&self, tier: &str, seed: u64, out: &mut dyn Write) {
        let mut g = G { rng: Rng::new(seed ^ 0xde30), w: out };
        g.run(tier);
    }
    fn runner(&self) -> Box<dyn Runner> {
        Box::new(R::new())
    }
}

// ------------------------------------------------------------------------------------------
// generator

const MAX: i64 = i32::MAX as i64;
const MIN: i64 = i32::MIN as i64;

struct G<'a> {
    rng: Rng,
    w: &'a mut dyn Write,
}

/// data whose Huffman-compressed length is exactly `target` bytes: LCG bytes, then zero bytes (one
/// bit each in the Teeworlds table) up to the byte boundary
fn data_with_compressed_len(rng: &mut Rng, target: usize) -> String {
    let seed = rng.below(1000);
    if target == 0 {
        return "-".to_string();
    }
    // largest n with compressed_len(lcg(n)) <= target
    let full = lcg_data(target + 8, seed);
    let (mut lo, mut hi) = (0usize, full.len());
    while lo < hi {
        let mid = (lo + hi + 1) / 2;
        if HUFFMAN.compressed_len(&full[..mid]) <= target {
            lo = mid;
        } else {
            hi = mid - 1;
        }
    }
    let mut data = full[..lo].to_vec();
    let mut z = 0;
    loop {
        data.push(0);
        if HUFFMAN.compressed_len(&data) > target {
            data.pop();
            break;
        }
        z += 1;
    }
    if HUFFMAN.compressed_len(&data) != target {
        // (an empty input compresses to one byte: targets below that are unreachable)
        return format!("x{}:{}", lo, seed);
    }
    if z == 0 {
        format!("x{}:{}", lo, seed)
    } else {
        format!("x{}:{}+z{}", lo, seed, z)
    }
}

const SIZES: &[usize] = &[1, 2, 28, 29, 30, 31, 32, 254, 255, 256, 257, 258, 1000];
const BIG_SIZES: &[usize] = &[65534, 65535, 65536, 65537, 40000];
const GAPS: &[i64] = &[1, 1, 2, 30, 31, 32, 33, 63, 64, 1000000, 250, 251];

impl<'a> G<'a> {
    fn line(&mut self, s: String) {
        writeln!(self.w, "{}", s).unwrap();
    }

    fn string(&mut self, cap: usize) -> String {
        // lengths up to the capacity (cap - 1 is the longest accepted, cap panics)
        let n = match self.rng.below(12) {
            0 => 0,
            1 => 1,
            2 => cap - 1,
            3 => cap - 2,
            4 => {
                if self.rng.chance(1, 4) {
                    cap
                } else {
                    cap - 1
                }
            }
            _ => self.rng.below(cap as u64) as usize,
        };
        let mut b: Vec<u8> = (0..n).map(|_| 1 + self.rng.below(255) as u8).collect();
        if n > 0 && self.rng.chance(1, 25) {
            // outside the documented format: embedded NUL
            let i = self.rng.below(n as u64) as usize;
            b[i] = 0;
        }
        to_hex(&b)
    }

    fn header(&mut self, big_map: bool) {
        let nv = self.string(64);
        let mn = self.string(64);
        let ts = self.string(20);
        let sha = if self.rng.chance(1, 2) { "none".to_string() } else { format!("x32:{}", self.rng.below(100000)) };
        let crc = match self.rng.below(4) {
            0 => 0,
            1 => u32::MAX as u64,
            2 => 0x80000000,
            _ => self.rng.below(1 << 32),
        };
        let k = if self.rng.chance(1, 2) { "c" } else { "s" };
        let len = match self.rng.below(6) {
            0 => 0,
            1 => MAX,
            2 => 1,
            _ => self.rng.range(0, MAX),
        };
        let map = if big_map {
            format!("g{}:{}", 66000 + self.rng.below(100), self.rng.below(256))
        } else {
            match self.rng.below(5) {
                0 => "-".to_string(),
                1 => {
                    let n = 1 + self.rng.below(8) as usize;
                    to_hex(&self.rng.bytes(n))
                }
                2 => format!("g{}:{}", 1 + self.rng.below(2000), self.rng.below(256)),
                3 => format!("z{}", 1 + self.rng.below(300)),
                _ => format!("x{}:{}", self.rng.below(600), self.rng.below(1000)),
            }
        };
        self.line(format!("new {} {} {} {} {} {} {} {}", nv, mn, sha, crc, k, len, ts, map));
    }

    fn small_payload(&mut self) -> String {
        match self.rng.below(6) {
            0 => "-".to_string(),
            1 => {
                let n = 1 + self.rng.below(12) as usize;
                to_hex(&self.rng.bytes(n))
            }
            2 => format!("z{}", 1 + self.rng.below(500)),
            3 => format!("g{}:{}", 1 + self.rng.below(400), self.rng.below(256)),
            _ => {
                let t = *self.rng.pick(SIZES);
                data_with_compressed_len(&mut self.rng, t)
            }
        }
    }

    fn message(&mut self) -> String {
        // lengths ≡ 0..3 (mod 4), small and large integers
        let n = match self.rng.below(8) {
            0 => self.rng.below(9) as usize,
            1 => 4 * self.rng.below(40) as usize + self.rng.below(4) as usize,
            2 => 100 + self.rng.below(4) as usize,
            _ => self.rng.below(300) as usize,
        };
        match self.rng.below(4) {
            0 => to_hex(&self.rng.bytes(n.min(24))),
            1 => format!("x{}:{}", n, self.rng.below(1000)),
            2 => {
                let k = self.rng.below(4) as usize;
                format!("z{}+{}", n, to_hex(&self.rng.bytes(k)))
            }
            _ => {
                // small values: mostly zero bytes in the upper positions
                let b: Vec<u8> = (0..n.min(64)).map(|i| if i % 4 == 0 { self.rng.next() as u8 } else if self.rng.chance(1, 6) { 0xff } else { 0 }).collect();
                to_hex(&b)
            }
        }
    }

    /// one recording session: header, ticks with gaps on both sides of the inline limit, payloads
    fn session(&mut self, n_ticks: usize, big: bool) {
        self.header(false);
        let mut tick: i64 = match self.rng.below(8) {
            0 => 0,
            1 => 1,
            2 => -5,
            3 => MIN,
            4 => MAX - 70,
            5 => MAX - 1000040,
            _ => self.rng.range(-1000, 100000),
        };
        let mut first = true;
        for _ in 0..n_ticks {
            if !first {
                let gap = if self.rng.chance(1, 12) {
                    // refused by the writer's assertion
                    *self.rng.pick(&[0i64, -1, -31, -1000000])
                } else if self.rng.chance(1, 20) {
                    self.rng.range(1, 4000000000)
                } else {
                    *self.rng.pick(GAPS)
                };
                let t = tick + gap;
                if t > MAX || t < MIN {
                    continue;
                }
                let kf = self.rng.chance(1, 4);
                self.line(format!("t {} {}", kf as u8, t));
                if gap > 0 {
                    tick = t;
                }
            } else {
                let kf = self.rng.chance(3, 4);
                self.line(format!("t {} {}", kf as u8, tick));
                first = false;
            }
            let k = self.rng.below(4);
            for _ in 0..k {
                match self.rng.below(3) {
                    0 => {
                        let p = self.small_payload();
                        self.line(format!("s {}", p));
                    }
                    1 => {
                        let p = self.small_payload();
                        self.line(format!("d {}", p));
                    }
                    _ => {
                        let m = self.message();
                        self.line(format!("m {}", m));
                    }
                }
            }
            if big && self.rng.chance(1, 3) {
                let t = *self.rng.pick(BIG_SIZES);
                let p = data_with_compressed_len(&mut self.rng, t);
                let op = *self.rng.pick(&["s", "d"]);
                self.line(format!("{} {}", op, p));
            }
            if self.rng.chance(1, 30) {
                self.line("u".to_string());
            }
            if self.rng.chance(1, 10) {
                self.line("read".to_string());
            }
        }
        self.line("read".to_string());
        if self.rng.chance(1, 2) {
            self.line("file".to_string());
        }
    }

    /// a short recording with every kind of chunk, then every single-byte corruption and truncation
    fn small_session_mutall(&mut self, near_max: bool) {
        let sha = if self.rng.chance(1, 2) { "none".to_string() } else { format!("x32:{}", self.rng.below(1000)) };
        let map = if self.rng.chance(1, 2) { "-".to_string() } else { "01020304".to_string() };
        self.line(format!("new 302e36 6d31 {} 7 c 9 3230 {}", sha, map));
        // half of them close to i32::MAX: one flipped bit makes the following inline delta overflow
        let t0 = if near_max { 0x7fff_ff7f } else { self.rng.range(0, 1000) };
        self.line(format!("t 1 {}", t0));
        let p = self.small_payload();
        self.line(format!("s {}", p));
        let m = self.message();
        self.line(format!("m {}", m));
        let g = self.rng.range(1, 31);
        self.line(format!("t 0 {}", t0 + g));
        let p = data_with_compressed_len(&mut self.rng, 31);
        self.line(format!("d {}", p));
        self.line(format!("t 0 {}", t0 + 100));
        let m = self.message();
        self.line(format!("m {}", m));
        self.line("mutall".to_string());
    }

    fn malformed_of_session(&mut self, n: usize) {
        for _ in 0..n {
            match self.rng.below(3) {
                0 => {
                    // header area: boundary values in one byte
                    let off = self.rng.below(700);
                    let x = *self.rng.pick(&[1u64, 0x80, 0xff, 0x40, 0x20, 0x1f]);
                    self.line(format!("readmut {} {}", off, x));
                }
                1 => {
                    // chunk area (after the 436/484-byte header and a small map)
                    let off = 436 + self.rng.below(400);
                    let x = 1 + self.rng.below(255);
                    self.line(format!("readmut {} {}", off, x));
                }
                _ => {
                    let n = if self.rng.chance(1, 2) { self.rng.below(500) } else { 400 + self.rng.below(600) };
                    self.line(format!("readtrunc {}", n));
                }
            }
        }
    }

    fn run(&mut self, tier: &str) {
        let thorough = tier == "thorough";
        let (n_sessions, n_big, n_raw) = if thorough { (1500, 60, 4000) } else { (160, 6, 500) };
        // boundary session: every size-encoding boundary and tick gap once, deterministically
        self.line("new 302e362074727920 6374665f31 none 1 c 0 323032362d30392d32345f31322d30302d3030 -".to_string());
        let mut t = 0i64;
        self.line(format!("t 1 {}", t));
        for &g in &[1i64, 31, 32, 33, 1000000] {
            t += g;
            self.line(format!("t 0 {}", t));
            t += g;
            self.line(format!("t 1 {}", t));
        }
        for &sz in SIZES {
            let p = data_with_compressed_len(&mut self.rng, sz);
            self.line(format!("s {}", p));
            let p = data_with_compressed_len(&mut self.rng, sz);
            self.line(format!("d {}", p));
        }
        for l in 0..9 {
            self.line(format!("m x{}:{}", l, l + 1));
        }
        self.line("s -".to_string());
        self.line("d -".to_string());
        self.line("m -".to_string());
        self.line("read".to_string());
        self.line("file".to_string());
        // the exhaustive chunk-header sweep in hash form (thorough: every first-two-byte pattern in all
        // four versions with and without a preceding tick; quick: a sample of ranges), spread over the sessions
        let mut sweeps: Vec<String> = vec![];
        if thorough {
            for ver in 3..=6 {
                for pre in 0..=1 {
                    for k in 0..16 {
                        sweeps.push(format!("sweep {} {} {} {}", ver, pre, k * 4096, (k + 1) * 4096));
                    }
                }
            }
        } else {
            for ver in 3..=6 {
                let pre = self.rng.below(2);
                let k = self.rng.below(64);
                sweeps.push(format!("sweep {} {} {} {}", ver, pre, k * 512, (k + 1) * 512));
                sweeps.push(format!("sweep {} {} {} {}", ver, 1 - pre, 0x8000 + k * 512, 0x8000 + (k + 1) * 512));
            }
        }
        for i in 0..n_sessions {
            let n = 1 + self.rng.below(12) as usize;
            self.session(n, false);
            let m = self.rng.below(6) as usize;
            self.malformed_of_session(m);
            if i % (if thorough { 10 } else { 50 }) == 3 {
                self.small_session_mutall(i % 20 == 3 || !thorough && i % 100 == 3);
            }
            if i < sweeps.len() {
                let l = sweeps[i].clone();
                self.line(l);
            }
        }
        for _ in 0..n_big {
            self.session(3, true);
        }
        // limits of the message pipeline
        self.line("new - - none 0 s 0 - -".to_string());
        self.line("t 1 10".to_string());
        self.line("m z65536".to_string());
        self.line(format!("m x{}:7", 52428));
        self.line(format!("m x{}:7", 52440));
        self.line(format!("m x{}:7", 65536));
        self.line("read".to_string());
        // limits of the snapshot pipeline: compressed sizes around the u16 limit
        self.line("new - - none 0 c 0 - -".to_string());
        self.line("t 1 10".to_string());
        for &sz in BIG_SIZES {
            let p = data_with_compressed_len(&mut self.rng, sz);
            self.line(format!("s {}", p));
        }
        self.line("read".to_string());
        // payloads longer than the reader's 64 KiB buffers that the writer can still encode
        self.line("new - - none 0 c 0 - -".to_string());
        self.line("t 1 10".to_string());
        self.line("s z65536".to_string());
        self.line("read".to_string());
        self.line("s z65537".to_string());
        self.line("read".to_string());
        self.line("new - - none 0 c 0 - -".to_string());
        self.line("t 1 10".to_string());
        self.line("m z65537".to_string());
        self.line("read".to_string());
        // a negative demo length
        self.line("new - - none 0 c -1 - -".to_string());
        self.line("read".to_string());
        // a map larger than the snapshot buffer
        self.header(true);
        self.line("t 1 0".to_string());
        self.line("s 00".to_string());
        self.line("read".to_string());
        // files that no writer produced
        for _ in 0..n_raw {
            let f = self.raw_file();
            self.line(format!("raw {}", to_hex(&f)));
        }
    }

    /// an independent construction of a demo file (all four versions, timeline markers, random
    /// chunk bytes), with occasional single-field corruption
    fn raw_file(&mut self) -> Vec<u8> {
        let r = &mut self.rng;
        let version = *r.pick(&[3u8, 4, 5, 6, 5, 6, 3, 4, 2, 7]);
        let version = if r.chance(1, 10) { version } else { *r.pick(&[3u8, 4, 5, 6]) };
        let mut f: Vec<u8> = b"TWDEMO\0".to_vec();
        if r.chance(1, 40) {
            let i = r.below(7) as usize;
            f[i] ^= 1 << r.below(8);
        }
        f.push(version);
        let cstring = |r: &mut Rng, cap: usize| -> Vec<u8> {
            let n = r.below(cap as u64 + 1) as usize;
            let mut b: Vec<u8> = (0..n).map(|_| 1 + r.below(255) as u8).collect();
            b.resize(cap, 0);
            if r.chance(1, 10) {
                let i = r.below(cap as u64) as usize;
                b[i] = r.next() as u8;
            }
            b
        };
        let b = cstring(r, 64);
        f.extend(b);
        let b = cstring(r, 64);
        f.extend(b);
        let map_len = *r.pick(&[0usize, 0, 1, 3, 40]);
        let map_size: i32 = if r.chance(1, 15) { *r.pick(&[-1, i32::MIN, 41, 1000, 65536]) } else { map_len as i32 };
        f.extend(map_size.to_be_bytes());
        f.extend((r.next() as u32).to_be_bytes());
        if r.chance(1, 15) {
            f.extend(b"clienu\0\0");
        } else if r.chance(1, 2) {
            f.extend(b"client\0\0");
        } else {
            f.extend(b"server\0\0");
        }
        let length: i32 = if r.chance(1, 15) { *r.pick(&[-1, i32::MIN]) } else { r.range(0, MAX) as i32 };
        f.extend(length.to_be_bytes());
        let b = cstring(r, 20);
        f.extend(b);
        if version != 3 {
            let amount: i32 = *r.pick(&[0, 0, 1, 2, 3, 64, 65, -1, 63]);
            f.extend(amount.to_be_bytes());
            let mut prev: i64 = r.range(-10, 10);
            for i in 0..64 {
                let m: i32 = if i < amount.max(0) as usize {
                    prev += if r.chance(1, 8) { r.range(-3, 0) } else { r.range(1, 1000) };
                    prev as i32
                } else if r.chance(1, 200) {
                    r.range(1, 9) as i32
                } else {
                    0
                };
                f.extend(m.to_be_bytes());
            }
        }
        if version == 6 {
            let mut u = [0x6b, 0xe6, 0xda, 0x4a, 0xce, 0xbd, 0x38, 0x0c, 0x9b, 0x5b, 0x12, 0x89, 0xc8, 0x42, 0xd7, 0x80];
            if r.chance(1, 15) {
                let i = r.below(16) as usize;
                u[i] ^= 1 << r.below(8);
            }
            f.extend(u);
            f.extend(r.bytes(32));
        }
        f.extend(r.bytes(map_len));
        // chunk stream
        let n = r.below(12);
        let mut have_tick = false;
        for _ in 0..n {
            match r.below(10) {
                0..=3 => {
                    // tick marker: any flag byte with the top bit set
                    let b = 0x80 | (r.next() as u8);
                    let b = if !have_tick && r.chance(3, 4) {
                        if version >= 5 {
                            b & !0x20
                        } else {
                            b & !0x3f
                        }
                    } else {
                        b
                    };
                    f.push(b);
                    let absolute = if version >= 5 { b & 0x20 == 0 } else { b & 0x3f == 0 };
                    if absolute {
                        let t: i32 = match r.below(5) {
                            0 => i32::MAX - r.below(40) as i32,
                            1 => r.range(-5, 5) as i32,
                            _ => r.next() as i32,
                        };
                        f.extend(t.to_be_bytes());
                    }
                    have_tick = true;
                }
                4..=8 => {
                    // data chunk with a real compressed payload; size encoded in a random (possibly over-long) form
                    let kind: u8 = *r.pick(&[0x20, 0x40, 0x60, 0x20, 0x40, 0x60, 0x00]);
                    let plen = *r.pick(&[0usize, 1, 2, 3, 4, 5, 8, 20, 40, 300]);
                    let payload = if kind == 0x40 && r.chance(3, 4) {
                        // packed integers
                        let mut p = vec![];
                        for _ in 0..(plen / 4) {
                            let v = if r.chance(1, 2) { r.range(-70, 70) as i32 } else { r.next() as i32 };
                            let mut buf = [0u8; 5];
                            let mut n = 0;
                            let sign = (v >> 31) & 1;
                            let mut u = (v ^ -sign) as u32;
                            let mut byte = ((sign as u8) << 6) | (u & 0x3f) as u8;
                            u >>= 6;
                            while u != 0 {
                                buf[n] = byte | 0x80;
                                n += 1;
                                byte = (u & 0x7f) as u8;
                                u >>= 7;
                            }
                            buf[n] = byte;
                            n += 1;
                            p.extend(&buf[..n]);
                            if r.chance(1, 30) {
                                // over-long encoding / truncated integer
                                p.push(0x80);
                                if r.chance(1, 2) {
                                    p.push(0);
                                }
                            }
                        }
                        p
                    } else {
                        r.bytes(plen)
                    };
                    let c = if r.chance(1, 12) { r.bytes(plen.min(20)) } else { libtw2_huffman::compress(&payload) };
                    let form = r.below(6);
                    if c.len() < 30 && form != 0 && form != 1 {
                        f.push(kind | c.len() as u8);
                    } else if c.len() <= 255 && form != 0 {
                        f.push(kind | 30);
                        f.push(c.len() as u8);
                    } else {
                        f.push(kind | 31);
                        f.extend((c.len() as u16).to_le_bytes());
                    }
                    f.extend(c);
                }
                _ => {
                    let k = 1 + r.below(6) as usize;
                    f.extend(r.bytes(k));
                }
            }
        }
        if r.chance(1, 8) && !f.is_empty() {
            let l = r.below(f.len() as u64) as usize;
            f.truncate(l);
        }
        f
    }
}
