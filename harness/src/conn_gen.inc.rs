// Session generators shared by conn6 / conn7 (included after the protocol-specific `foreign`,
// `SIZES`, `SIZES_EDGE`, `IS7`).  Every session starts with `new`.  All randomness comes from the
// seeded `Rng` of the generator.

const TIMES: &[u64] = &[1, 10, 100, 250, 499, 500, 501, 999, 1000, 1001, 1500, 3000];

fn alive(g: &Gen) -> bool {
    !g.w.eps[0].dead && !g.w.eps[1].dead
}

fn hexs(b: &[u8]) -> String {
    to_hex(b)
}

fn send(g: &mut Gen, i: usize, vital: bool, data: &[u8]) {
    g.line(&format!("{} send {} {}", Gen::ep(i), if vital { "v" } else { "n" }, hexs(data)));
}

/// API calls in every state, including calls the API forbids (those are predicted panics, not
/// violations) and `disconnect` from every state
fn sess_api(g: &mut Gen) {
    let scripts: Vec<Vec<String>> = vec![
        vec!["a needs_tick".into(), "a tick".into(), "a disconnect 6279".into(), "a needs_tick".into()],
        vec!["a send v 00".into()],
        vec!["a send n 00".into()],
        vec!["a flush".into()],
        vec!["a sendcl 00".into()],
        vec!["a connect r=01020304".into(), "a connect r=01020304".into()],
        vec!["a connect r=01020304".into(), "a needs_tick".into(), "a disconnect 62796521".into(), "a tick".into(), "a disconnect 00".into()],
        vec!["a connect r=ffffffff,00000000,0a0b0c0d".into(), "a disconnect 6100".into()],
        vec!["a connect r=01020304".into(), "time 500".into(), "a tick".into(), "time 499".into(), "a tick".into(), "time 1".into(), "a tick".into(), "a send v 00".into()],
    ];
    for s in scripts {
        g.line("new");
        for l in s {
            g.line(&l);
        }
    }
    // disconnect from every state of a handshake, with reasons up to and beyond the limit
    for (stop, rlen) in [(0usize, 0usize), (1, 1), (2, 126), (3, 127), (4, 127), (5, 128), (6, 1385), (7, 1391), (3, 1392)] {
        g.line("new");
        g.connect(0);
        for _ in 0..stop {
            for from in 0..2 {
                for n in g.undelivered(from) {
                    g.deliver(from, n);
                }
            }
        }
        let reason: Vec<u8> = (0..rlen).map(|k| b'a' + (k % 26) as u8).collect();
        let who = stop % 2;
        g.line(&format!("{} disconnect {}", Gen::ep(who), hexs(&reason)));
        for from in 0..2 {
            for n in g.undelivered(from) {
                if !g.w.eps[1 - from].dead {
                    g.deliver(from, n);
                }
            }
        }
        g.line(&format!("{} needs_tick", Gen::ep(1 - who)));
    }
    // the peer closes while this side is at each stage of the handshake (one delivery per step)
    for steps in 0..7usize {
        for closer in 0..2usize {
            g.line("new");
            g.connect(0);
            let mut done = 0;
            'outer: for _ in 0..8 {
                for from in 0..2 {
                    if let Some(&n) = g.undelivered(from).first() {
                        if done == steps {
                            break 'outer;
                        }
                        g.deliver(from, n);
                        done += 1;
                    }
                }
            }
            let k = g.w.eps[closer].kind();
            if k == "Disconnected" || k == "Unconnected" || g.w.eps[closer].dead {
                continue;
            }
            g.line(&format!("{} disconnect 676f6e65", Gen::ep(closer)));
            if let Some(&n) = g.undelivered(closer).last() {
                if !g.w.eps[1 - closer].dead {
                    g.deliver(closer, n);
                }
            }
            g.line(&format!("{} needs_tick", Gen::ep(1 - closer)));
        }
    }
    if !IS7 {
        g.line("new");
        g.line("a newaccept 12345678");
        g.line("a send v 4142");
        g.line("a flush");
        g.line("time 500");
        g.line("a tick");
        g.line("a disconnect 62");
        g.line("new");
        g.line("a newaccept 12345678");
        g.line("a disconnect 616263");
        g.line("new");
        g.line("time 7");
        g.line("b newaccept ffffffff");
        g.line("b sendcl 010203");
        g.line("b needs_tick");
    }
}

/// handshake datagrams duplicated / retransmitted before the answer arrives (the acceptor answers the
/// same request twice: its token must stay the one it handed out first), then a fair suffix: the
/// connector must become ready and a first chunk must get through
fn sess_handshake_dup(g: &mut Gen, variant: usize) {
    g.line("new");
    g.connect(0);
    match variant % 4 {
        0 => {
            // the first request is duplicated by the network
            g.deliver(0, 0);
            g.deliver(0, 0);
        }
        1 => {
            // the first request is delayed beyond the retransmission: two requests reach the acceptor
            g.line("time 500");
            g.line("a tick");
            for n in g.undelivered(0) {
                g.deliver(0, n);
            }
        }
        2 => {
            // first answer arrives, the connector proceeds, then the duplicate request is answered again
            g.deliver(0, 0);
            if let Some(&n) = g.undelivered(1).first() {
                g.deliver(1, n);
            }
            g.deliver(0, 0);
        }
        _ => {
            // three copies, the answers delivered in reverse order
            g.deliver(0, 0);
            g.deliver(0, 0);
            g.deliver(0, 0);
            let und = g.undelivered(1);
            for &n in und.iter().rev() {
                g.deliver(1, n);
            }
        }
    }
    if !alive(g) {
        return;
    }
    g.fair_suffix(30);
    if alive(g) && g.w.eps[0].kind() == "Online" {
        send(g, 0, true, &[0x68, 0x69]);
        g.fair_suffix(30);
    }
}

/// the random source returns reserved byte patterns first (the redraw loop of `Token::random`), for the
/// connector's own token (0.7) and for the token the acceptor hands out; then a fair handshake and a chunk
fn sess_reserved_draws(g: &mut Gen, draws: &str, who: usize) {
    g.line("new");
    if who == 0 {
        g.line(&format!("a connect r={}", draws));
    } else {
        g.connect(0);
    }
    if !alive(g) {
        return;
    }
    if who == 1 {
        // the acceptor draws while it answers the first handshake datagram
        g.deliver_with(0, 0, draws);
    }
    if !alive(g) {
        return;
    }
    g.fair_suffix(30);
    if alive(g) && g.w.eps[0].kind() == "Online" {
        send(g, 0, true, &[0x6f, 0x6b]);
        g.fair_suffix(30);
    }
}

/// many small chunks queued without a flush (the 8-bit chunk counter), then a resend of all of them
fn sess_many_small(g: &mut Gen, vital: bool, size: usize, count: usize) {
    g.line("new");
    if !g.handshake(0, false) {
        return;
    }
    let data = vec![0x41u8; size];
    for _ in 0..count {
        if !alive(g) {
            return;
        }
        send(g, 0, vital, &data);
    }
    g.line("a flush");
    if vital && alive(g) {
        // lose everything, let the retransmission timer fire: the resend rebuilds packets from the queue
        for n in g.undelivered(0) {
            g.w.eps[0].hist[n].delivered = 1;
        }
        g.line("time 1000");
        g.line("a tick");
        g.line("time 500");
        g.line("a tick");
    }
    if alive(g) {
        g.fair_suffix(60);
    }
}

/// one chunk of a boundary size, alone or after a small chunk, then retransmission
fn sess_big(g: &mut Gen, size: usize, vital: bool, pre: Option<usize>, peer_requests: bool) {
    g.line("new");
    if !g.handshake(0, false) {
        return;
    }
    if let Some(p) = pre {
        send(g, 0, false, &vec![0x50u8; p]);
    }
    let data: Vec<u8> = (0..size).map(|k| (k * 31 + 7) as u8).collect();
    send(g, 0, vital, &data);
    if !alive(g) {
        return;
    }
    g.line("a flush");
    if peer_requests {
        // the peer sees a gap and asks for a resend: lose the first datagram, send a second chunk
        for n in g.undelivered(0) {
            g.w.eps[0].hist[n].delivered = 1;
        }
        send(g, 0, true, &[1, 2, 3]);
        g.line("a flush");
        for n in g.undelivered(0) {
            g.deliver(0, n);
        }
        g.line("b flush");
        for n in g.undelivered(1) {
            g.deliver(1, n);
        }
    } else {
        for n in g.undelivered(0) {
            g.w.eps[0].hist[n].delivered = 1;
        }
        g.line("time 1000");
        g.line("a tick");
    }
    if alive(g) {
        g.fair_suffix(40);
    }
}

/// a resend that spans several datagrams
fn sess_multi_resend(g: &mut Gen, size: usize, n: usize) {
    g.line("new");
    if !g.handshake(0, false) {
        return;
    }
    for k in 0..n {
        let data = vec![k as u8; size];
        send(g, 0, true, &data);
        if k % 3 == 0 {
            send(g, 0, false, &[9, 9]);
        }
    }
    if !alive(g) {
        return;
    }
    g.line("a flush");
    for n in g.undelivered(0) {
        g.w.eps[0].hist[n].delivered = 1;
    }
    send(g, 0, false, &[7]);
    g.line("time 1000");
    g.line("a tick");
    g.line("a needs_tick");
    if alive(g) {
        g.fair_suffix(40);
    }
}

fn random_op(g: &mut Gen, impure: bool) {
    let r = g.rng.below(100);
    let i = g.rng.below(2) as usize;
    match r {
        0..=34 => {
            let vital = g.rng.chance(2, 3);
            let data = if g.rng.chance(1, 14) { g.payload(SIZES_EDGE) } else { g.payload(SIZES) };
            send(g, i, vital, &data);
        }
        35..=44 => {
            g.line(&format!("{} flush", Gen::ep(i)));
        }
        45..=69 => {
            let und = g.undelivered(i);
            if !und.is_empty() {
                let k = g.rng.below(und.len().min(3) as u64) as usize;
                g.deliver(i, und[k]);
            }
        }
        70..=74 => {
            let n = g.w.eps[i].hist.len();
            if n > 0 {
                let k = n - 1 - g.rng.below(n.min(10) as u64) as usize;
                g.deliver(i, k);
            }
        }
        75..=79 => {
            if let Some(&n) = g.undelivered(i).first() {
                g.w.eps[i].hist[n].delivered = 1;
            }
        }
        80..=87 => {
            let t = *g.rng.pick(TIMES);
            g.line(&format!("time {}", t));
        }
        88..=95 => {
            g.line(&format!("{} tick", Gen::ep(i)));
        }
        96 => {
            let data = g.payload(&[0, 1, 5, 1389, 1390, 1391]);
            g.line(&format!("{} sendcl {}", Gen::ep(i), hexs(&data)));
        }
        97 | 98 => {
            if impure {
                let f = foreign(g, i);
                g.feed(i, &f);
            }
        }
        _ => {
            if impure {
                match g.rng.below(3) {
                    0 => g.connect(i),
                    1 => {
                        g.line(&format!("{} disconnect 627965", Gen::ep(i)));
                    }
                    _ => {
                        g.line(&format!("{} needs_tick", Gen::ep(i)));
                    }
                }
            }
        }
    }
}

/// random interleaving of application calls on both sides with loss, duplication, reordering and
/// delay in both directions, followed (pure sessions) by the fair suffix
fn sess_random(g: &mut Gen, n_ops: usize, impure: bool) {
    g.line("new");
    let lossy = *g.rng.pick(&[0u64, 0, 100, 300]);
    let tokenless = !IS7 && g.rng.chance(1, 3);
    if !g.handshake(lossy, tokenless) {
        return;
    }
    for _ in 0..n_ops {
        if !alive(g) {
            break;
        }
        random_op(g, impure);
    }
    if alive(g) && g.w.pure {
        g.fair_suffix(60);
    }
}

/// C03: foreign datagrams at every point of a handshake and of the online phase
fn sess_foreign(g: &mut Gen, n_ops: usize) {
    g.line("new");
    let tokenless = !IS7 && g.rng.chance(1, 6);
    g.connect(0);
    for _step in 0..5 {
        for to in 0..2 {
            for _ in 0..g.rng.below(4) {
                let f = foreign(g, to);
                g.feed(to, &f);
            }
        }
        for from in 0..2 {
            for n in g.undelivered(from) {
                if g.w.eps[1 - from].dead {
                    continue;
                }
                if tokenless && from == 0 && strip_connect_token(&g.w.eps[0].hist[n].bytes).is_some() {
                    let b = strip_connect_token(&g.w.eps[0].hist[n].bytes).unwrap();
                    g.w.eps[0].hist[n].delivered = 1;
                    g.feed(1, &b);
                } else {
                    g.deliver(from, n);
                }
            }
        }
        if g.rng.chance(1, 4) {
            g.advance_to_deadline();
        }
    }
    for _ in 0..n_ops {
        if !alive(g) {
            break;
        }
        if g.rng.chance(1, 3) {
            let to = g.rng.below(2) as usize;
            // often with something unacknowledged at the victim, so that a foreign ack would matter
            if g.rng.chance(1, 2) && g.w.eps[to].kind() == "Online" {
                let data = g.payload(&[1, 2, 3, 40]);
                send(g, to, true, &data);
                if g.rng.chance(1, 2) {
                    g.line(&format!("{} flush", Gen::ep(to)));
                }
            }
            if !alive(g) {
                break;
            }
            let f = foreign(g, to);
            g.feed(to, &f);
        } else {
            random_op(g, true);
        }
    }
}

/// sequence numbers wrap: more than 1024 vital chunks in one session, in rounds that respect the
/// window assumptions, over a lossy reordering network
fn sess_wrap(g: &mut Gen, total: usize) {
    g.line("new");
    let tokenless = !IS7 && g.rng.chance(1, 2);
    if !g.handshake(0, tokenless) {
        return;
    }
    let mut sent = 0;
    while sent < total && alive(g) {
        let batch = 40 + g.rng.below(80) as usize;
        for k in 0..batch {
            // almost everything from `a`, so that its sequence numbers really wrap (> 1024 chunks)
            let i = if g.rng.chance(19, 20) { 0 } else { 1 };
            let data = vec![(sent + k) as u8, ((sent + k) >> 8) as u8, g.rng.next() as u8];
            let len = 1 + g.rng.below(3) as usize;
            send(g, i, true, &data[..len]);
            if g.rng.chance(1, 10) {
                send(g, i, false, &[0xee, k as u8]);
            }
            if g.rng.chance(1, 12) {
                g.line(&format!("{} flush", Gen::ep(i)));
            }
            if g.rng.chance(1, 10) {
                let from = g.rng.below(2) as usize;
                let und = g.undelivered(from);
                if !und.is_empty() {
                    let j = g.rng.below(und.len().min(3) as u64) as usize;
                    if g.rng.chance(1, 6) {
                        g.w.eps[from].hist[und[j]].delivered = 1;
                    } else {
                        g.deliver(from, und[j]);
                    }
                }
            }
            if !alive(g) {
                return;
            }
        }
        sent += batch;
        g.fair_suffix(60);
    }
}

// ---- send faults -------------------------------------------------------------------------------

/// the network behaves again: disarm, then the fair suffix with the progress oracle
fn fault_end(g: &mut Gen, max: usize) {
    if !alive(g) {
        return;
    }
    g.failsend(0, 0);
    g.failsend(1, 0);
    g.fair_suffix(max);
}

/// deliver everything in flight once, both directions
fn deliver_all(g: &mut Gen) {
    for from in 0..2 {
        for n in g.undelivered(from) {
            if alive(g) {
                g.deliver(from, n);
            }
        }
    }
}

/// `Callback::send` fails at one particular point: right before each kind of call that sends
/// (connect, each answer of the handshake, send with an implicit flush, flush, tick with a due
/// send timer / with a due retransmission of one and of several datagrams, a datagram that asks
/// for a resend, disconnect, connless send).  A failed send is a lost datagram: afterwards the
/// vital-prefix, well-formedness and (after the fair suffix) progress oracles must still hold.
fn sess_fault(g: &mut Gen, kind: usize, var: usize) {
    g.line("new");
    match kind {
        // the connect request (0.7: token request) is not sent
        0 => {
            g.failsend(0, 1 + (var % 2) as u32);
            g.connect(0);
        }
        // the answer to the n-th handshake datagram is not sent
        1 => {
            g.connect(0);
            let mut done = 0;
            'outer: for _ in 0..8 {
                for from in 0..2 {
                    if let Some(&n) = g.undelivered(from).first() {
                        if done == var % 5 {
                            g.failsend(1 - from, 1);
                        }
                        g.deliver(from, n);
                        done += 1;
                        if done > var % 5 {
                            break 'outer;
                        }
                    }
                }
                if !alive(g) {
                    return;
                }
            }
        }
        _ => {
            let tokenless = !IS7 && var % 3 == 1;
            if !g.handshake(0, tokenless) {
                return;
            }
            let i = var % 2;
            match kind {
                // send with an implicit flush
                2 => {
                    let big: Vec<u8> = (0..(700 + 37 * (var % 8))).map(|k| k as u8).collect();
                    send(g, i, true, &big);
                    g.failsend(i, 1);
                    send(g, i, var % 4 < 2, &big);
                    send(g, i, true, &[1, 2, 3]);
                }
                // flush
                3 => {
                    send(g, i, true, &[4, 5]);
                    send(g, i, false, &[6]);
                    g.failsend(i, 1);
                    g.line(&format!("{} flush", Gen::ep(i)));
                    send(g, i, true, &[7]);
                }
                // tick with a due send timer: keep-alive, or queued data
                4 => {
                    if var % 2 == 0 {
                        send(g, i, true, &[8, 9]);
                        send(g, i, false, &[10]);
                    }
                    g.line("time 500");
                    g.failsend(i, 1);
                    g.line(&format!("{} tick", Gen::ep(i)));
                }
                // tick with a due retransmission: one datagram / several, the k-th fails
                5 | 6 => {
                    let n = if kind == 5 { 1 } else { 3 + var % 4 };
                    for k in 0..n {
                        let data = vec![k as u8; 600 + 50 * (var % 5)];
                        send(g, i, true, &data);
                        if k % 2 == 0 {
                            send(g, i, false, &[9, k as u8]);
                        }
                    }
                    g.line(&format!("{} flush", Gen::ep(i)));
                    for n in g.undelivered(i) {
                        g.w.eps[i].hist[n].delivered = 1;
                    }
                    send(g, i, false, &[7, 7]);
                    g.line("time 1000");
                    g.failsend(i, if kind == 5 { 1 } else { 1 + (var % 3) as u32 });
                    g.line(&format!("{} tick", Gen::ep(i)));
                    g.line(&format!("{} needs_tick", Gen::ep(i)));
                    g.line(&format!("{} flush", Gen::ep(i)));
                }
                // the peer sees a gap and asks for a resend; the retransmission (k-th datagram) fails
                7 => {
                    for k in 0..(1 + var % 4) {
                        let data = vec![k as u8; 500 + 60 * (var % 5)];
                        send(g, i, true, &data);
                    }
                    g.line(&format!("{} flush", Gen::ep(i)));
                    for n in g.undelivered(i) {
                        g.w.eps[i].hist[n].delivered = 1;
                    }
                    send(g, i, true, &[1, 2, 3]);
                    g.line(&format!("{} flush", Gen::ep(i)));
                    for n in g.undelivered(i) {
                        g.deliver(i, n);
                    }
                    g.line(&format!("{} flush", Gen::ep(1 - i)));
                    g.failsend(i, 1 + (var % 2) as u32);
                    for n in g.undelivered(1 - i) {
                        g.deliver(1 - i, n);
                    }
                }
                // disconnect: the close is not sent; the peer never learns (no progress obligation),
                // but both sides must stay well-behaved
                8 => {
                    if var % 2 == 0 {
                        send(g, i, true, &[11]);
                    }
                    g.failsend(i, 1);
                    g.line(&format!("{} disconnect 627965", Gen::ep(i)));
                    g.line(&format!("{} needs_tick", Gen::ep(i)));
                    g.line(&format!("{} tick", Gen::ep(i)));
                    send(g, 1 - i, true, &[12]);
                    g.line(&format!("{} flush", Gen::ep(1 - i)));
                    deliver_all(g);
                }
                // connless
                _ => {
                    g.failsend(i, 1);
                    g.line(&format!("{} sendcl 0102", Gen::ep(i)));
                    g.line(&format!("{} sendcl 0304", Gen::ep(i)));
                }
            }
        }
    }
    if !alive(g) {
        return;
    }
    // consequences: a little traffic, then the network behaves
    if kind >= 2 && kind != 8 {
        deliver_all(g);
    }
    fault_end(g, 40);
    if alive(g) && g.w.eps[0].kind() == "Online" && g.w.eps[1].kind() != "Disconnected" {
        send(g, 0, true, &[0x61]);
        if g.w.eps[1].kind() == "Online" {
            send(g, 1, true, &[0x62]);
        }
        g.fair_suffix(30);
    }
}

/// random two-endpoint session in which sends fail now and then, then the fair suffix
fn sess_fault_random(g: &mut Gen, n_ops: usize) {
    g.line("new");
    let tokenless = !IS7 && g.rng.chance(1, 3);
    if g.rng.chance(1, 3) {
        // faults already during the handshake
        let i = g.rng.below(2) as usize;
        let k = 1 + g.rng.below(3) as u32;
        g.failsend(i, k);
    }
    let lossy = *g.rng.pick(&[0u64, 0, 200]);
    if !g.handshake(lossy, tokenless) {
        if alive(g) {
            fault_end(g, 40);
        }
        return;
    }
    for _ in 0..n_ops {
        if !alive(g) {
            break;
        }
        if g.rng.chance(1, 6) {
            let i = g.rng.below(2) as usize;
            let k = *g.rng.pick(&[1u32, 1, 1, 2, 3]);
            g.failsend(i, k);
        }
        random_op(g, false);
    }
    if alive(g) && g.w.pure {
        fault_end(g, 60);
    }
}

fn gen_all(tier: &str, seed: u64, out: &mut dyn std::io::Write) {
    let mut g = Gen::new(out, seed.wrapping_mul(0x9e3779b97f4a7c15) ^ if IS7 { 0x7777 } else { 0x6666 });
    let (n_random, n_ops, n_foreign, n_wrap) = match tier {
        "thorough" => (1500usize, 150usize, 800usize, 6usize),
        "search" => (400, 80, 200, 1),
        _ => (100, 50, 70, 1),
    };
    if tier != "search" || seed % 4 == 0 {
        sess_api(&mut g);
        for v in 0..8 {
            sess_handshake_dup(&mut g, v);
        }
        for d in RESERVED_DRAWS {
            sess_reserved_draws(&mut g, d, 0);
            sess_reserved_draws(&mut g, d, 1);
        }
        for &(vital, size, count) in &[(false, 0usize, 700usize), (false, 1, 300), (true, 0, 480), (true, 1, 300), (true, 3, 256), (false, 4, 255)] {
            sess_many_small(&mut g, vital, size, count);
        }
        for &size in SIZES_EDGE {
            for &vital in &[true, false] {
                sess_big(&mut g, size, vital, None, false);
                sess_big(&mut g, size, vital, Some(1), false);
            }
            sess_big(&mut g, size, true, None, true);
        }
        for &size in &[1015usize, 1016, 1017, 1018, 1019, 1020, 1021, 1022, 1023] {
            sess_big(&mut g, size, true, None, false);
            sess_big(&mut g, size, true, Some(400), true);
        }
        for &(size, n) in &[(700usize, 5usize), (463, 7), (1, 500), (690, 4), (1000, 3)] {
            sess_multi_resend(&mut g, size, n);
        }
    }
    for k in 0..n_random {
        sess_random(&mut g, n_ops, k % 3 == 2);
    }
    for _ in 0..n_foreign {
        sess_foreign(&mut g, n_ops / 2);
    }
    for _ in 0..n_wrap {
        sess_wrap(&mut g, 1250);
    }
    // send faults (own random stream, so that the sessions above stay what they were)
    let (n_var, n_frandom) = match tier {
        "thorough" => (60usize, 600usize),
        "search" => (6, 40),
        _ => (6, 30),
    };
    g.rng = Rng::new(seed.wrapping_mul(0x9e3779b97f4a7c15) ^ if IS7 { 0x6661_7537 } else { 0x6661_7536 });
    for var in 0..n_var {
        for kind in 0..10 {
            sess_fault(&mut g, kind, var);
        }
    }
    for _ in 0..n_frandom {
        sess_fault_random(&mut g, n_ops);
    }
}
