//! Domain `map`: the map reader `map/src/reader.rs` + `format.rs` on top of the file-backed
//! datafile reader `datafile/src/file.rs`, through temporary files under the verif worktree's
//! `run/` directory.  Property C16.
//!
//!   mopen <hex>     write the bytes to a file, `map::Reader::open`, call everything it exposes
#![allow(dead_code)]
use crate::domains::d_datafile::{compress, datas_str, df_err_name, items_str, parse_datas, parse_items, rand_datas, rand_items, tune_malloc, well_formed, words_hex, Comp, Image, Item};
use crate::util::*;
use libtw2_map::format as mf;
use libtw2_map::reader as mr;
use std::io::Write;
use std::sync::atomic::{AtomicU64, Ordering};

pub struct D;

pub fn domain() -> Box<dyn Domain> {
    Box::new(D)
}

static COUNTER: AtomicU64 = AtomicU64::new(0);

fn run_dir() -> std::path::PathBuf {
    // <worktree>/harness/target/debug/tw-harness -> <worktree>/run
    let exe = std::env::current_exe().expect("current_exe");
    let wt = exe.parent().and_then(|p| p.parent()).and_then(|p| p.parent()).and_then(|p| p.parent()).expect("worktree");
    let d = wt.join("run");
    let _ = std::fs::create_dir_all(&d);
    d
}

fn strip(s: String) -> String {
    s.replace(' ', "")
}

fn err_str(e: &mr::Error) -> String {
    match e {
        mr::Error::Map(e) => format!("e:{}", strip(format!("{:?}", e))),
        mr::Error::Df(libtw2_datafile::Error::Df(e)) => format!("e:Df({})", df_err_name(e)),
        mr::Error::Df(libtw2_datafile::Error::Io(_)) => "e:Io".to_string(),
    }
}

fn map_err_str(e: &mf::Error) -> String {
    format!("e:{}", strip(format!("{:?}", e)))
}

fn opt(o: Option<usize>) -> String {
    match o {
        None => "-".to_string(),
        Some(n) => n.to_string(),
    }
}

fn bytes_str(bs: &[u8]) -> String {
    format!("b{}:{}", bs.len(), fnv_bytes(FNV_OFFSET, bs))
}

fn group_str(g: &mr::Group) -> String {
    let clip = match &g.clipping {
        None => "-".to_string(),
        Some(c) => format!("{}:{}:{}:{}", c.x, c.y, c.width, c.height),
    };
    format!(
        "G({},{},{},{},{}..{},{},{})",
        g.offset_x,
        g.offset_y,
        g.parallax_x,
        g.parallax_y,
        g.layer_indices.start,
        g.layer_indices.end,
        clip,
        to_hex(&g.name)
    )
}

fn ty_str(t: &mr::LayerTilemapType) -> String {
    use mr::LayerTilemapType::*;
    match t {
        Normal(n) => {
            let e = match n.color_env_and_offset {
                None => "-".to_string(),
                Some((i, off)) => format!("{}:{}", i, off),
            };
            format!("N({}.{}.{}.{},{},{},{})", n.color.red, n.color.green, n.color.blue, n.color.alpha, e, opt(n.image), n.data)
        }
        Game(d) => format!("G({})", d),
        RaceTeleport(d, z) => format!("Te({},{})", d, z),
        RaceSpeedup(d, z) => format!("Sp({},{})", d, z),
        DdraceFront(d, z) => format!("Fr({},{})", d, z),
        DdraceSwitch(d, z) => format!("Sw({},{})", d, z),
        DdraceTune(d, z) => format!("Tu({},{})", d, z),
    }
}

fn layer_str(l: &mr::Layer) -> String {
    let d = if l.detail { "D" } else { "N" };
    match &l.t {
        mr::LayerType::Quads(q) => format!("{}Q({},{},{},{})", d, q.num_quads, q.data, opt(q.image), to_hex(&q.name)),
        mr::LayerType::DdraceSounds(s) => format!("{}S({},{},{},{},{})", d, s.num_sources, s.data, opt(s.sound), if s.legacy { 1 } else { 0 }, to_hex(&s.name)),
        mr::LayerType::Tilemap(t) => format!("{}T({},{},{},{})", d, t.width, t.height, ty_str(&t.type_), to_hex(&t.name)),
    }
}

fn tile_bytes(ts: &mut dyn Iterator<Item = &mf::Tile>) -> Vec<u8> {
    let mut v = vec![];
    for t in ts {
        v.extend_from_slice(&[t.index, t.flags, t.skip, t.reserved]);
    }
    v
}
fn tele_bytes(ts: &mut dyn Iterator<Item = &mf::TeleTile>) -> Vec<u8> {
    let mut v = vec![];
    for t in ts {
        v.extend_from_slice(&[t.number, t.index]);
    }
    v
}
fn speedup_bytes(ts: &mut dyn Iterator<Item = &mf::SpeedupTile>) -> Vec<u8> {
    let mut v = vec![];
    for t in ts {
        v.extend_from_slice(&[t.force, t.max_speed, t.index, t.padding]);
        v.extend_from_slice(&t.angle.get().to_le_bytes());
    }
    v
}
fn switch_bytes(ts: &mut dyn Iterator<Item = &mf::SwitchTile>) -> Vec<u8> {
    let mut v = vec![];
    for t in ts {
        v.extend_from_slice(&[t.number, t.index, t.flags, t.delay]);
    }
    v
}
fn tune_bytes(ts: &mut dyn Iterator<Item = &mf::TuneTile>) -> Vec<u8> {
    let mut v = vec![];
    for t in ts {
        v.extend_from_slice(&[t.number, t.index]);
    }
    v
}

#[derive(Clone, Copy)]
enum Kind {
    Tile,
    Tele,
    Speedup,
    Switch,
    Tune,
}

/// the typed tile accessor; checks the array shape against the index' dimensions
fn tiles(m: &mut mr::Reader, idx: mr::LayerTilesIndex, kind: Kind, w: u32, h: u32, o: &mut Oracle) -> String {
    let shape_ok = |shape: &[usize], o: &mut Oracle| {
        if shape != [h as usize, w as usize] {
            o.fail("C16/tiles-shape-differs", format!("shape {:?} wanted {}x{}", shape, h, w));
        }
    };
    match kind {
        Kind::Tile => match m.layer_tiles(idx) {
            Ok(a) => {
                shape_ok(a.shape(), o);
                bytes_str(&tile_bytes(&mut a.iter()))
            }
            Err(e) => err_str(&e),
        },
        Kind::Tele => match m.tele_layer_tiles(idx) {
            Ok(a) => {
                shape_ok(a.shape(), o);
                bytes_str(&tele_bytes(&mut a.iter()))
            }
            Err(e) => err_str(&e),
        },
        Kind::Speedup => match m.speedup_layer_tiles(idx) {
            Ok(a) => {
                shape_ok(a.shape(), o);
                bytes_str(&speedup_bytes(&mut a.iter()))
            }
            Err(e) => err_str(&e),
        },
        Kind::Switch => match m.switch_layer_tiles(idx) {
            Ok(a) => {
                shape_ok(a.shape(), o);
                bytes_str(&switch_bytes(&mut a.iter()))
            }
            Err(e) => err_str(&e),
        },
        Kind::Tune => match m.tune_layer_tiles(idx) {
            Ok(a) => {
                shape_ok(a.shape(), o);
                bytes_str(&tune_bytes(&mut a.iter()))
            }
            Err(e) => err_str(&e),
        },
    }
}

fn fold_res(h: u64, r: Result<Vec<u8>, mr::Error>) -> u64 {
    match r {
        Ok(bs) => fnv_bytes(fnv_bytes(fnv_byte(h, 1), &(bs.len() as u32).to_le_bytes()), &bs),
        Err(e) => fnv_bytes(fnv_byte(h, 0), err_str(&e)[2..].as_bytes()),
    }
}

/// iterates a settings block with a step limit (a non-terminating iterator is outcome HANG)
fn settings_items(s: &mr::Settings, o: &mut Oracle) -> Option<Vec<Vec<u8>>> {
    let mut items = vec![];
    let mut it = s.iter();
    let mut steps = 0usize;
    let mut total = 0usize;
    while let Some(x) = it.next() {
        items.push(x.to_vec());
        total += x.len() + 1;
        steps += 1;
        if steps > s.raw.len() + 2 {
            o.fail("C16/settings-iter-does-not-terminate", format!("raw={}", to_hex(&s.raw)));
            return None;
        }
    }
    // a NUL-terminated block is exactly the concatenation of its NUL-terminated items
    if total != s.raw.len() {
        o.fail("C16/settings-iter-incomplete", format!("raw={}", to_hex(&s.raw)));
    }
    Some(items)
}

fn settings_str(s: &mr::Settings, o: &mut Oracle) -> String {
    match settings_items(s, o) {
        None => "HANG".to_string(),
        Some(items) => format!("{}[{}]", bytes_str(&s.raw), items.iter().map(|x| bytes_str(x)).collect::<Vec<_>>().join(",")),
    }
}

fn describe(m: &mut mr::Reader, o: &mut Oracle) -> String {
    let nd = m.reader.num_data();
    let v = match m.version() {
        Ok(v) => v.to_string(),
        Err(e) => map_err_str(&e),
    };
    let cv = match m.check_version() {
        Ok(()) => "ok".to_string(),
        Err(e) => map_err_str(&e),
    };
    let info = m.info();
    let inf = match &info {
        Ok(i) => format!("{},{},{},{},{}", opt(i.author), opt(i.version), opt(i.credits), opt(i.license), opt(i.settings)),
        Err(e) => map_err_str(e),
    };
    let mut ss = vec![];
    if let Ok(i) = &info {
        for d in [i.author, i.version, i.credits, i.license] {
            match d {
                Some(d) => {
                    if d >= nd {
                        o.fail("C16/map-index-out-of-range", format!("info string index {} num_data {}", d, nd));
                    }
                    ss.push(match m.string(d) {
                        Ok(b) => bytes_str(&b),
                        Err(e) => err_str(&e),
                    })
                }
                None => ss.push("-".to_string()),
            }
        }
        match i.settings {
            Some(d) => {
                if d >= nd {
                    o.fail("C16/map-index-out-of-range", format!("settings index {} num_data {}", d, nd));
                }
                ss.push(match m.settings(d) {
                    Ok(s) => settings_str(&s, o),
                    Err(e) => err_str(&e),
                })
            }
            None => ss.push("-".to_string()),
        }
    }
    let layer_range = m.reader.item_type_indices(mf::MAP_ITEMTYPE_LAYER);
    let image_range = m.reader.item_type_indices(mf::MAP_ITEMTYPE_IMAGE);
    let env_range = m.reader.item_type_indices(mf::MAP_ITEMTYPE_ENVELOPE);
    let sound_range = m.reader.item_type_indices(mf::MAP_ITEMTYPE_DDRACE_SOUND);
    let check_layer = |l: &mr::Layer, o: &mut Oracle| {
        let mut data = vec![];
        match &l.t {
            mr::LayerType::Quads(q) => {
                data.push(q.data);
                if let Some(i) = q.image {
                    if !image_range.contains(&i) {
                        o.fail("C16/map-index-out-of-range", format!("quads image {} range {:?}", i, image_range));
                    }
                }
            }
            mr::LayerType::DdraceSounds(s) => {
                data.push(s.data);
                if let Some(i) = s.sound {
                    if !sound_range.contains(&i) {
                        o.fail("C16/map-index-out-of-range", format!("sound {} range {:?}", i, sound_range));
                    }
                }
            }
            mr::LayerType::Tilemap(t) => {
                use mr::LayerTilemapType::*;
                match &t.type_ {
                    Normal(n) => {
                        data.push(n.data);
                        if let Some(i) = n.image {
                            if !image_range.contains(&i) {
                                o.fail("C16/map-index-out-of-range", format!("tilemap image {} range {:?}", i, image_range));
                            }
                        }
                        if let Some((i, _)) = n.color_env_and_offset {
                            if !env_range.contains(&i) {
                                o.fail("C16/map-index-out-of-range", format!("envelope {} range {:?}", i, env_range));
                            }
                        }
                    }
                    Game(d) => data.push(*d),
                    RaceTeleport(a, b) | RaceSpeedup(a, b) | DdraceFront(a, b) | DdraceSwitch(a, b) | DdraceTune(a, b) => {
                        data.push(*a);
                        data.push(*b);
                    }
                }
                if t.width == 0 || t.height == 0 {
                    o.fail("C16/tilemap-zero-dimension", String::new());
                }
            }
        }
        for d in data {
            if d >= nd {
                o.fail("C16/map-index-out-of-range", format!("layer data index {} num_data {}", d, nd));
            }
        }
    };
    let mut gs = vec![];
    for i in m.group_indices() {
        let g = m.group(i);
        let mut s = match &g {
            Ok(g) => group_str(g),
            Err(e) => map_err_str(e),
        };
        if let Ok(g) = &g {
            if g.layer_indices.start > g.layer_indices.end || g.layer_indices.start < layer_range.start || g.layer_indices.end > layer_range.end {
                o.fail("C16/map-index-out-of-range", format!("group {} layers {:?} range {:?}", i, g.layer_indices, layer_range));
            }
            let mut ls = vec![];
            for k in g.layer_indices.clone() {
                let l = m.layer(k);
                let mut t = match &l {
                    Ok(l) => layer_str(l),
                    Err(e) => map_err_str(e),
                };
                if let Ok(l) = &l {
                    check_layer(l, o);
                    if let mr::LayerType::Tilemap(tm) = &l.t {
                        use mr::LayerTilemapType::*;
                        let (d, kind) = match &tm.type_ {
                            Normal(n) => (n.data, Kind::Tile),
                            Game(d) => (*d, Kind::Tile),
                            DdraceFront(d, _) => (*d, Kind::Tile),
                            RaceTeleport(d, _) => (*d, Kind::Tele),
                            RaceSpeedup(d, _) => (*d, Kind::Speedup),
                            DdraceSwitch(d, _) => (*d, Kind::Switch),
                            DdraceTune(d, _) => (*d, Kind::Tune),
                        };
                        t = format!("{}={}", t, tiles(m, tm.tiles(d), kind, tm.width, tm.height, o));
                    }
                }
                ls.push(format!("{}={}", k, t));
            }
            s = format!("{}{{{}}}", s, ls.join(";"));
        }
        gs.push(format!("{}={}", i, s));
    }
    let mut ls = vec![];
    for k in layer_range.clone() {
        ls.push(match m.layer(k) {
            Ok(l) => {
                check_layer(&l, o);
                layer_str(&l)
            }
            Err(e) => map_err_str(&e),
        });
    }
    let mut ms = vec![];
    for i in image_range.clone() {
        let im = m.image(i);
        let mut s = match &im {
            Ok(im) => format!("{},{},{},{}", im.width, im.height, im.name, opt(im.data)),
            Err(e) => map_err_str(e),
        };
        if let Ok(im) = &im {
            if im.name >= nd || im.data.map(|d| d >= nd).unwrap_or(false) {
                o.fail("C16/map-index-out-of-range", format!("image {} name {} data {:?} num_data {}", i, im.name, im.data, nd));
            }
            s = format!(
                "{}:{}",
                s,
                match m.image_name(im.name) {
                    Ok(b) => bytes_str(&b),
                    Err(e) => err_str(&e),
                }
            );
            if let Some(d) = im.data {
                s = format!(
                    "{}:{}",
                    s,
                    match m.image_data(d) {
                        Ok(b) => bytes_str(&b),
                        Err(e) => err_str(&e),
                    }
                );
            }
        }
        ms.push(s);
    }
    let gl = m.game_layers();
    let mut gls = match &gl {
        Ok(gl) => format!(
            "{},{},{},{},{},{},{},{},{}",
            group_str(&gl.group),
            gl.width,
            gl.height,
            gl.game_raw,
            opt(gl.teleport_raw),
            opt(gl.speedup_raw),
            opt(gl.front_raw),
            opt(gl.switch_raw),
            opt(gl.tune_raw)
        ),
        Err(e) => map_err_str(e),
    };
    if let Ok(gl) = &gl {
        for d in [Some(gl.game_raw), gl.teleport_raw, gl.speedup_raw, gl.front_raw, gl.switch_raw, gl.tune_raw].iter().flatten() {
            if *d >= nd {
                o.fail("C16/map-index-out-of-range", format!("game layer data index {} num_data {}", d, nd));
            }
        }
        let (w, h) = (gl.width, gl.height);
        let mut parts = vec![tiles(m, gl.game(), Kind::Tile, w, h, o)];
        let tl = |idx: Option<mr::LayerTilesIndex>, kind: Kind, m: &mut mr::Reader, o: &mut Oracle| match idx {
            Some(idx) => tiles(m, idx, kind, w, h, o),
            None => "-".to_string(),
        };
        parts.push(tl(gl.teleport(), Kind::Tele, m, o));
        parts.push(tl(gl.speedup(), Kind::Speedup, m, o));
        parts.push(tl(gl.front(), Kind::Tile, m, o));
        parts.push(tl(gl.switch(), Kind::Switch, m, o));
        parts.push(tl(gl.tune(), Kind::Tune, m, o));
        gls = format!("{}={}", gls, parts.join(","));
    }
    // the file-backed datafile reader's own iterator forms
    let via_iter: Vec<Option<Vec<u8>>> = m.reader.data_iter().map(|x| x.ok()).collect();
    if via_iter.len() != nd {
        o.fail("C16/data-iter-differs", format!("{} blocks, num_data {}", via_iter.len(), nd));
    }
    for (d, x) in via_iter.iter().enumerate() {
        if *x != m.reader.read_data(d).ok() {
            o.fail("C16/data-iter-differs", format!("block {}", d));
        }
    }
    let _ = m.reader.debug_dump();
    if m.reader.items().count() != m.reader.num_items() || m.reader.item_types().count() != m.reader.num_item_types() {
        o.fail("C16/items-iterator-differs", String::new());
    }
    let mut h = FNV_OFFSET;
    for d in 0..nd {
        h = fold_res(h, m.string(d));
        match m.settings(d) {
            Ok(s) => {
                h = fold_res(h, Ok(s.raw.clone()));
                match settings_items(&s, o) {
                    Some(items) => {
                        for it in items {
                            h = fnv_byte(fnv_bytes(h, &it), 0xfe);
                        }
                    }
                    None => h = fnv_byte(h, 0xfd),
                }
            }
            Err(e) => h = fold_res(h, Err(e)),
        }
        h = fold_res(h, m.image_name(d));
        h = fold_res(h, m.layer_tiles_raw(d).map(|v| tile_bytes(&mut v.iter())));
        h = fold_res(h, m.tele_layer_tiles_raw(d).map(|v| tele_bytes(&mut v.iter())));
        h = fold_res(h, m.speedup_layer_tiles_raw(d).map(|v| speedup_bytes(&mut v.iter())));
        h = fold_res(h, m.switch_layer_tiles_raw(d).map(|v| switch_bytes(&mut v.iter())));
        h = fold_res(h, m.tune_layer_tiles_raw(d).map(|v| tune_bytes(&mut v.iter())));
    }
    format!("ok V={} CV={} I={} S={} G={} L={} M={} GL={} X={}", v, cv, inf, list_str(ss), list_str(gs), list_str(ls), list_str(ms), gls, h)
}

struct R {
    dir: std::path::PathBuf,
}

fn mopen(dir: &std::path::Path, bytes: &[u8], o: &mut Oracle) -> String {
    let n = COUNTER.fetch_add(1, Ordering::SeqCst);
    let path = dir.join(format!("map-{}-{}.map", std::process::id(), n));
    std::fs::write(&path, bytes).expect("write temporary map file");
    let line = match catch(|| mr::Reader::open(&path)) {
        Err(msg) => {
            o.fail("C16/reader-new-panics", format!("{} file={}", msg, to_hex(bytes)));
            "panic-new".to_string()
        }
        Ok(Err(e)) => {
            o.count("open_err");
            match e {
                mr::Error::Df(libtw2_datafile::Error::Df(e)) => format!("err {}", df_err_name(&e)),
                mr::Error::Df(libtw2_datafile::Error::Io(_)) => "err Io".to_string(),
                mr::Error::Map(e) => format!("err Map({:?})", e),
            }
        }
        Ok(Ok(mut m)) => {
            o.count("open_ok");
            match catch(|| {
                let mut o2 = Oracle::new();
                let s = describe(&mut m, &mut o2);
                (s, o2)
            }) {
                Err(msg) => {
                    o.fail("C16/map-accessor-panics", format!("{} file={}", msg, to_hex(bytes)));
                    "panic-acc".to_string()
                }
                Ok((s, o2)) => {
                    for (_, tag, msg) in o2.fails {
                        o.fail(&tag, format!("{} file={}", msg, to_hex(bytes)));
                    }
                    for part in ["V=e:", "I=e:", "GL=e:", "GL=G("] {
                        if s.contains(part) {
                            o.count(&format!("saw_{}", part.replace('=', "_").replace(':', "").replace('(', "")));
                        }
                    }
                    s
                }
            }
        }
    };
    let _ = std::fs::remove_file(&path);
    line
}

/// `datafile::Reader::new(file)` with the file positioned at `start` (a datafile embedded in a
/// larger file); items and data.
fn fopen(dir: &std::path::Path, start: u64, bytes: &[u8], expect: Option<(&[Item], &[Vec<u8>])>, o: &mut Oracle) -> String {
    use std::io::Seek;
    let n = COUNTER.fetch_add(1, Ordering::SeqCst);
    let path = dir.join(format!("df-{}-{}.bin", std::process::id(), n));
    std::fs::write(&path, bytes).expect("write temporary file");
    let mut f = std::fs::File::open(&path).expect("open temporary file");
    f.seek(std::io::SeekFrom::Start(start)).expect("seek");
    let line = match catch(|| libtw2_datafile::Reader::new(f)) {
        Err(msg) => {
            o.fail("C16/reader-new-panics", format!("{} start={} file={}", msg, start, to_hex(bytes)));
            "panic-new".to_string()
        }
        Ok(Err(libtw2_datafile::Error::Df(e))) => {
            if let Some((items, _)) = expect {
                if well_formed(items) {
                    o.fail("C16/well-formed-file-rejected", format!("{} start={}", df_err_name(&e), start));
                }
            }
            format!("err {}", df_err_name(&e))
        }
        Ok(Err(libtw2_datafile::Error::Io(_))) => "err Io".to_string(),
        Ok(Ok(mut r)) => match catch(|| {
            let ver = match r.version() {
                libtw2_datafile::Version::V3 => "v3",
                libtw2_datafile::Version::V4Crude => "v4c",
                libtw2_datafile::Version::V4 => "v4",
            };
            let (ni, nd) = (r.num_items(), r.num_data());
            let mut items = vec![];
            for i in 0..ni {
                let v = r.item(i);
                items.push(Item { type_id: v.type_id, id: v.id, data: v.data.to_vec() });
            }
            let mut ds = vec![];
            for i in 0..nd {
                ds.push(r.read_data(i));
            }
            (ver, ni, nd, items, ds)
        }) {
            Err(msg) => {
                o.fail("C16/accessor-panics", format!("{} start={} file={}", msg, start, to_hex(bytes)));
                "panic-acc".to_string()
            }
            Ok((ver, ni, nd, items, ds)) => {
                if let Some((eitems, edatas)) = expect {
                    if items != eitems {
                        o.fail("C16/roundtrip-items-differ", format!("start={} file={}", start, to_hex(bytes)));
                    }
                    let got: Vec<Option<&Vec<u8>>> = ds.iter().map(|x| x.as_ref().ok()).collect();
                    let want: Vec<Option<&Vec<u8>>> = edatas.iter().map(Some).collect();
                    if got != want {
                        o.fail("C16/roundtrip-data-differs", format!("datafile embedded at offset {}: start={} file={}", start, start, to_hex(bytes)));
                    }
                }
                let is: Vec<String> = items.iter().map(|it| format!("{}.{}.{}", it.type_id, it.id, words_hex(&it.data))).collect();
                let dsx: Vec<String> = ds
                    .iter()
                    .map(|d| match d {
                        Ok(b) => to_hex(b),
                        Err(libtw2_datafile::Error::Df(e)) => format!("e:{}", df_err_name(e)),
                        Err(libtw2_datafile::Error::Io(_)) => "e:Io".to_string(),
                    })
                    .collect();
                format!("ok {} {},{} I={} D={}", ver, ni, nd, list_str(is), list_str(dsx))
            }
        },
    };
    let _ = std::fs::remove_file(&path);
    line
}

impl Runner for R {
    fn run(&mut self, toks: &[&str], o: &mut Oracle) -> String {
        match toks {
            ["fopen", st, h, items, datas] => match (st.parse::<u64>(), parse_hex(h)) {
                (Ok(st), Some(bs)) => {
                    let exp = match (parse_items(items), parse_datas(datas)) {
                        (Some(i), Some(d)) if *items != "?" => Some((i, d)),
                        _ => None,
                    };
                    fopen(&self.dir, st, &bs, exp.as_ref().map(|(i, d)| (&i[..], &d[..])), o)
                }
                _ => "bad-op".to_string(),
            },
            ["mopen", h] => match parse_hex(h) {
                Some(bs) => mopen(&self.dir, &bs, o),
                None => "bad-op".to_string(),
            },
            _ => "bad-op".to_string(),
        }
    }
}

// ------------------------------------------------------------------------------------------
// generator

fn name_words(rng: &mut Rng, n: usize) -> Vec<i32> {
    (0..n)
        .map(|_| match rng.below(3) {
            0 => 0x80808080u32 as i32,
            1 => rng.next() as i32,
            _ => (0x80808080u32 ^ 0x41424344) as i32,
        })
        .collect()
}

struct MapGen {
    items: Vec<Item>,
    datas: Vec<Vec<u8>>,
}

impl MapGen {
    fn data(&mut self, d: Vec<u8>) -> i32 {
        self.datas.push(d);
        (self.datas.len() - 1) as i32
    }
}

fn cstr(rng: &mut Rng) -> Vec<u8> {
    let n = rng.below(8) as usize;
    let mut v: Vec<u8> = (0..n).map(|_| b'a' + rng.below(26) as u8).collect();
    match rng.below(12) {
        0 => {}                 // missing terminator
        1 => v.extend_from_slice(&[0, b'x', 0]), // embedded NUL
        2 => v.extend_from_slice(&[b'/', 0]),
        _ => v.push(0),
    }
    v
}

fn settings_block(rng: &mut Rng) -> Vec<u8> {
    let mut v = vec![];
    for _ in 0..rng.below(4) {
        let n = rng.below(6) as usize;
        v.extend((0..n).map(|_| b'a' + rng.below(26) as u8));
        v.push(0);
    }
    if rng.chance(1, 10) {
        v.extend_from_slice(b"tail");
    }
    v
}

/// a mostly valid map
fn gen_map(rng: &mut Rng) -> MapGen {
    let mut g = MapGen { items: vec![], datas: vec![] };
    // data blocks referenced below
    let n_images = rng.below(3) as usize;
    let n_envs = rng.below(3) as usize;
    let n_sounds = rng.below(2) as usize;
    let n_groups = 1 + rng.below(3) as usize;
    // version
    if !rng.chance(1, 20) {
        g.items.push(Item { type_id: 0, id: 0, data: if rng.chance(1, 15) { vec![] } else { vec![if rng.chance(1, 10) { 2 } else { 1 }] } });
    }
    // info
    if !rng.chance(1, 10) {
        let mut d = vec![1];
        for _ in 0..4 {
            d.push(if rng.chance(1, 2) { -1 } else { let s = cstr(rng); g.data(s) });
        }
        if rng.chance(1, 2) {
            let s = settings_block(rng);
            d.push(g.data(s));
        }
        g.items.push(Item { type_id: 1, id: 0, data: d });
    }
    // images
    for i in 0..n_images {
        let external = rng.chance(1, 2);
        let (w, h) = (1 + rng.below(3) as i32, 1 + rng.below(3) as i32);
        let name = { let s = cstr(rng); g.data(s) };
        let data = if external { -1 } else { g.data(rng.bytes((w * h * 4) as usize)) };
        let mut d = vec![1 + rng.below(2) as i32, w, h, external as i32, name, data];
        if d[0] == 2 {
            d.push(1);
        }
        g.items.push(Item { type_id: 2, id: i as u16, data: d });
    }
    // envelopes
    for i in 0..n_envs {
        let mut d = vec![1 + rng.below(2) as i32, 4, 0, 0];
        d.extend(name_words(rng, 8));
        if d[0] == 2 {
            d.push(0);
        }
        g.items.push(Item { type_id: 3, id: i as u16, data: d });
    }
    // groups and layers
    let mut layers: Vec<Vec<i32>> = vec![];
    let mut groups: Vec<Vec<i32>> = vec![];
    let game_group = rng.below(n_groups as u64) as usize;
    let mut used_flags = 0i32;
    for gi in 0..n_groups {
        let start = layers.len() as i32;
        let n_layers = rng.below(4) as usize + if gi == game_group { 1 } else { 0 };
        for li in 0..n_layers {
            let kind = if gi == game_group && li == 0 { 0 } else { rng.below(10) };
            let (w, h) = (1 + rng.below(3) as i32, 1 + rng.below(3) as i32);
            let mut l = vec![rng.next() as i32 % 3, 0, if rng.chance(1, 4) { 1 } else { 0 }];
            match kind {
                0..=5 => {
                    // tilemap: game layer first, then normal or a race layer
                    l[1] = 2;
                    // race layers live in the game group, each kind normally once
                    let flags: i32 = if kind == 0 {
                        1
                    } else if kind <= 3 || (gi != game_group && !rng.chance(1, 12)) {
                        0
                    } else {
                        let f = *rng.pick(&[2, 4, 8, 16, 32]);
                        if used_flags & f != 0 && !rng.chance(1, 10) {
                            0
                        } else {
                            used_flags |= f;
                            f
                        }
                    };
                    let (w, h) = if flags != 0 && !rng.chance(1, 15) { (2, 2) } else { (w, h) };
                    let tver = 2 + rng.below(2) as i32;
                    let tiles = g.data(rng.bytes((w * h * 4) as usize));
                    l.extend_from_slice(&[tver, w, h, flags, 255, 255, 255, 255]);
                    l.push(if n_envs > 0 && rng.chance(1, 3) { rng.below(n_envs as u64) as i32 } else { -1 });
                    l.push(0);
                    l.push(if n_images > 0 && rng.chance(1, 2) { rng.below(n_images as u64) as i32 } else { -1 });
                    l.push(tiles);
                    if tver == 3 {
                        l.extend(name_words(rng, 3));
                    }
                    if flags > 1 || rng.chance(1, 6) {
                        let size = |f: i32| match f { 2 => 2, 4 => 6, 8 => 4, 16 => 4, _ => 2 };
                        for f in [2, 4, 8, 16, 32] {
                            l.push(if f == flags { g.data(rng.bytes((w * h * size(f)) as usize)) } else { -1 });
                        }
                    }
                }
                6 | 7 => {
                    l[1] = 3;
                    let qv = 1 + rng.below(2) as i32;
                    let qd = g.data(rng.bytes(8));
                    l.extend_from_slice(&[qv, 1, qd, if n_images > 0 { rng.below(n_images as u64) as i32 } else { -1 }]);
                    if qv == 2 {
                        l.extend(name_words(rng, 3));
                    }
                }
                _ => {
                    l[1] = if rng.chance(1, 2) { 10 } else { 9 };
                    let sd = g.data(rng.bytes(8));
                    l.extend_from_slice(&[if l[1] == 10 { 2 } else { 1 + rng.below(2) as i32 }, 1, sd, if n_sounds > 0 { 0 } else { -1 }]);
                    l.extend(name_words(rng, 3));
                }
            }
            layers.push(l);
        }
        let gv = 1 + rng.below(3) as i32;
        let mut d = vec![gv, rng.range(-5, 5) as i32, rng.range(-5, 5) as i32, 100, 100, start, n_layers as i32];
        if gv >= 2 {
            d.extend_from_slice(&[rng.below(2) as i32, 1, 2, 3, 4]);
        }
        if gv >= 3 {
            d.extend(name_words(rng, 3));
        }
        groups.push(d);
    }
    for (i, d) in groups.into_iter().enumerate() {
        g.items.push(Item { type_id: 4, id: i as u16, data: d });
    }
    for (i, d) in layers.into_iter().enumerate() {
        g.items.push(Item { type_id: 5, id: i as u16, data: d });
    }
    if rng.chance(1, 3) {
        g.items.push(Item { type_id: 6, id: 0, data: (0..6 * rng.below(3)).map(|k| k as i32).collect() });
    }
    for i in 0..n_sounds {
        let name = { let s = cstr(rng); g.data(s) };
        let sd = g.data(rng.bytes(5));
        g.items.push(Item { type_id: 7, id: i as u16, data: vec![1, 0, name, sd, 5] });
    }
    g
}

fn boundary(rng: &mut Rng, orig: i32, g: &MapGen) -> i32 {
    let nd = g.datas.len() as i32;
    let ni = g.items.len() as i32;
    match rng.below(22) {
        0 => 0,
        1 => 1,
        2 => -1,
        3 => -2,
        4 => i32::MIN,
        5 => i32::MAX,
        6 => nd,
        7 => nd - 1,
        8 => nd + 1,
        9 => ni,
        10 => orig.wrapping_add(1),
        11 => orig.wrapping_sub(1),
        12 => 2,
        13 => 3,
        14 => 256,
        15 => 255,
        16 => 4,
        17 => 8,
        18 => 16,
        19 => 32,
        20 => 64,
        _ => rng.below(12) as i32,
    }
}

fn emit_map(out: &mut dyn Write, g: &MapGen, rng: &mut Rng) {
    let version = if rng.chance(1, 4) { 3 } else { 4 };
    let comp = *rng.pick(&[Comp::Stored, Comp::Fixed, Comp::Zlib]);
    let img = Image::build(version, &g.items, &g.datas, &|_, d| compress(comp, d));
    writeln!(out, "mopen {}", to_hex(&img.serialize())).unwrap();
}

impl Domain for D {
    fn gen(&self, tier: &str, seed: u64, out: &mut dyn Write) {
        tune_malloc();
        let mut rng = Rng::new(seed ^ 0x3a9);
        let thorough = tier != "quick";
        let (n_maps, n_sys) = if thorough { (6000, 30) } else { (500, 3) };
        // 1. mostly valid maps, then with 1..3 random fields set to boundary values, truncated
        //    items, shortened data blocks
        for k in 0..n_maps {
            let mut g = gen_map(&mut rng);
            match k % 4 {
                0 => {}
                _ => {
                    for _ in 0..(1 + rng.below(3)) {
                        match rng.below(8) {
                            0 => {
                                // shorten or lengthen an item
                                let i = rng.below(g.items.len() as u64) as usize;
                                if rng.chance(1, 2) {
                                    let n = rng.below(g.items[i].data.len() as u64 + 1) as usize;
                                    g.items[i].data.truncate(n);
                                } else {
                                    g.items[i].data.push(rng.below(4) as i32);
                                }
                            }
                            1 if !g.datas.is_empty() => {
                                let i = rng.below(g.datas.len() as u64) as usize;
                                match rng.below(3) {
                                    0 => {
                                        let n = rng.below(g.datas[i].len() as u64 + 1) as usize;
                                        g.datas[i].truncate(n);
                                    }
                                    1 => g.datas[i].push(rng.next() as u8),
                                    _ => {
                                        if let Some(b) = g.datas[i].last_mut() {
                                            *b = 1;
                                        }
                                    }
                                }
                            }
                            2 => {
                                // change an item's type (moves it to another type range when re-sorted)
                                let i = rng.below(g.items.len() as u64) as usize;
                                g.items[i].type_id = rng.below(9) as u16;
                                g.items[i].id = 100 + rng.below(3) as u16;
                                g.items.sort_by_key(|it| it.type_id);
                            }
                            _ => {
                                let i = rng.below(g.items.len() as u64) as usize;
                                if !g.items[i].data.is_empty() {
                                    let f = rng.below(g.items[i].data.len() as u64) as usize;
                                    let orig = g.items[i].data[f];
                                    g.items[i].data[f] = boundary(&mut rng, orig, &g);
                                }
                            }
                        }
                    }
                }
            }
            emit_map(out, &g, &mut rng);
        }
        // 2. systematic: every word of every item of a base map × the boundary set
        for sys_k in 0..n_sys {
            let g = gen_map(&mut rng);
            let nd = g.datas.len() as i32;
            // the counts every index is compared against: items per type
            let count = |t: u16| g.items.iter().filter(|it| it.type_id == t).count() as i32;
            let limits = [nd, count(2), count(3), count(4), count(5), count(7)];
            for i in 0..g.items.len() {
                for f in 0..g.items[i].data.len() {
                    let orig = g.items[i].data[f];
                    let mut vals = vec![0, 1, -1, -2, 2, 3, i32::MIN, i32::MAX, 255, 256, orig.wrapping_add(1), orig.wrapping_sub(1)];
                    // exact limit and limit +-1 of every range an index can be checked against
                    for l in limits {
                        vals.extend_from_slice(&[l - 1, l, l + 1]);
                    }
                    vals.sort();
                    vals.dedup();
                    for v in vals {
                        // the first base map completely, the others sampled in the quick tier
                        if v != orig && (thorough || sys_k == 0 || rng.chance(1, 3)) {
                            let mut m = MapGen { items: g.items.clone(), datas: g.datas.clone() };
                            m.items[i].data[f] = v;
                            emit_map(out, &m, &mut rng);
                        }
                    }
                }
                // every truncation of the item
                for n in 0..g.items[i].data.len() {
                    let mut m = MapGen { items: g.items.clone(), datas: g.datas.clone() };
                    m.items[i].data.truncate(n);
                    emit_map(out, &m, &mut rng);
                }
            }
        }
        // 2b. datafiles embedded in a larger file: `datafile::Reader::new(file)` at an offset
        for k in 0..(if thorough { 600 } else { 60 }) {
            let items = rand_items(&mut rng, 5, 4);
            let datas = rand_datas(&mut rng, 3, 30);
            let comp = *rng.pick(&[Comp::Stored, Comp::Fixed, Comp::Zlib]);
            let df = Image::build(3 + (k % 2) as i32, &items, &datas, &|_, d| compress(comp, d)).serialize();
            for start in [0usize, 1, 3, 36, 100] {
                let mut f = rng.bytes(start);
                f.extend_from_slice(&df);
                if rng.chance(1, 3) {
                    f.extend_from_slice(&[0xee; 7]);
                }
                writeln!(out, "fopen {} {} {} {}", start, to_hex(&f), items_str(&items), datas_str(&datas)).unwrap();
            }
            // positions that are not the start of the datafile, and beyond the end of the file
            let mut f = rng.bytes(8);
            f.extend_from_slice(&df);
            for start in [0usize, 9, 12, 8 + df.len(), 8 + df.len() + 5] {
                writeln!(out, "fopen {} {} ? ?", start, to_hex(&f)).unwrap();
            }
        }
        // 3. not a datafile at all / truncated file: the file-backed open path
        let g = gen_map(&mut rng);
        let f = Image::build(4, &g.items, &g.datas, &|_, d| compress(Comp::Zlib, d)).serialize();
        let step = if thorough { 1 } else { 7 };
        for cut in (0..f.len()).step_by(step) {
            writeln!(out, "mopen {}", to_hex(&f[..cut])).unwrap();
        }
        for _ in 0..20 {
            let n = rng.below(80) as usize;
            writeln!(out, "mopen {}", to_hex(&rng.bytes(n))).unwrap();
        }
    }
    fn runner(&self) -> Box<dyn Runner> {
        tune_malloc();
        Box::new(R { dir: run_dir() })
    }
}
