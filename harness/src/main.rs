//! tw-harness: runs request files against the real libtw2 crates (in-process) and evaluates the
//! property oracles.  See /verif/DESIGN.md section 2.4.
//!
//!   tw-harness gen <domain> <tier> <seed>                 request lines on stdout
//!   tw-harness run <domain> <requests> <out> <oracle>     canonical output lines, oracle failures,
//!                                                         JSON statistics on stdout
mod domains;
mod util;

use std::collections::BTreeMap;
use std::collections::HashSet;
use std::fs;
use std::io::BufRead;
use std::io::Write;
use std::sync::atomic::{AtomicU64, Ordering};
use std::sync::Arc;
use std::time::{Duration, Instant};

fn main() {
    let args: Vec<String> = std::env::args().collect();
    let code = std::thread::Builder::new()
        .stack_size(512 << 20)
        .spawn(move || real_main(&args))
        .unwrap()
        .join()
        .unwrap_or(101);
    std::process::exit(code);
}

fn real_main(args: &[String]) -> i32 {
    util::install_panic_hook();
    if args.len() >= 5 && args[1] == "gen" {
        let d = match domains::get(&args[2]) {
            Some(d) => d,
            None => {
                eprintln!("unknown domain {}", args[2]);
                return 2;
            }
        };
        let seed: u64 = args[4].parse().unwrap_or(0);
        let stdout = std::io::stdout();
        let mut w = std::io::BufWriter::new(stdout.lock());
        d.gen(&args[3], seed, &mut w);
        w.flush().unwrap();
        return 0;
    }
    if args.len() >= 6 && args[1] == "run" {
        let d = match domains::get(&args[2]) {
            Some(d) => d,
            None => {
                eprintln!("unknown domain {}", args[2]);
                return 2;
            }
        };
        return run(d, &args[3], &args[4], &args[5]);
    }
    if args.len() >= 2 && args[1] == "domains" {
        for n in domains::names() {
            println!("{}", n);
        }
        return 0;
    }
    eprintln!("usage: tw-harness gen <domain> <tier> <seed> | run <domain> <req> <out> <oracle> | domains");
    2
}

fn run(d: Box<dyn util::Domain>, req: &str, out: &str, oracle_out: &str) -> i32 {
    let hang_secs: u64 = std::env::var("TW_HANG_SECS")
        .ok()
        .and_then(|s| s.parse().ok())
        .unwrap_or(10);
    let input = std::io::BufReader::new(fs::File::open(req).expect("open requests"));
    let mut w = std::io::BufWriter::new(fs::File::create(out).expect("create out"));
    let mut runner = d.runner();
    let mut oracle = util::Oracle::new();
    let mut ops: BTreeMap<String, u64> = BTreeMap::new();
    let mut distinct: HashSet<u64> = HashSet::new();
    let mut n = 0u64;
    let mut panics = 0u64;

    // watchdog: (line number << 1 | busy), start time kept separately
    let cur = Arc::new(AtomicU64::new(0));
    let start = Instant::now();
    let cur_start_ms = Arc::new(AtomicU64::new(0));
    {
        let cur = cur.clone();
        let cur_start_ms = cur_start_ms.clone();
        let hang_file = format!("{}.hang", oracle_out);
        let _ = fs::remove_file(&hang_file);
        std::thread::spawn(move || loop {
            std::thread::sleep(Duration::from_millis(100));
            let c = cur.load(Ordering::SeqCst);
            if c & 1 == 1 {
                let began = cur_start_ms.load(Ordering::SeqCst);
                let now = start.elapsed().as_millis() as u64;
                if now.saturating_sub(began) > hang_secs * 1000 {
                    // confirm it is still the same request
                    if cur.load(Ordering::SeqCst) == c {
                        let _ = fs::write(&hang_file, format!("{}\n", c >> 1));
                        std::process::exit(3);
                    }
                }
            }
        });
    }

    // progress marker: the number of the request being executed, rewritten in place before every
    // request, so that a process abort (non-unwinding panic, allocation failure, signal) can be
    // attributed to a request by the check script
    let progress = fs::OpenOptions::new()
        .create(true)
        .write(true)
        .truncate(true)
        .open(format!("{}.progress", oracle_out))
        .expect("create progress");
    for (i, line) in input.lines().enumerate() {
        let line = line.expect("read");
        {
            use std::os::unix::fs::FileExt;
            let _ = progress.write_at(format!("{:<12}", i + 1).as_bytes(), 0);
        }
        let toks: Vec<&str> = line.split_ascii_whitespace().collect();
        if toks.is_empty() {
            continue;
        }
        n += 1;
        oracle.line_no = i + 1;
        *ops.entry(toks[0].to_string()).or_insert(0) += 1;
        distinct.insert(util::fnv_bytes(util::FNV_OFFSET, line.as_bytes()));
        cur_start_ms.store(start.elapsed().as_millis() as u64, Ordering::SeqCst);
        cur.store(((i as u64 + 1) << 1) | 1, Ordering::SeqCst);
        let o = match util::catch(|| runner.run(&toks, &mut oracle)) {
            Ok(o) => o,
            Err(_) => {
                panics += 1;
                "panic".to_string()
            }
        };
        cur.store((i as u64 + 1) << 1, Ordering::SeqCst);
        writeln!(w, "{}", o).unwrap();
    }
    w.flush().unwrap();
    let mut ow = std::io::BufWriter::new(fs::File::create(oracle_out).expect("create oracle"));
    for (ln, tag, msg) in &oracle.fails {
        writeln!(ow, "FAIL {} {} {}", ln, tag, msg.replace('\n', " ")).unwrap();
    }
    ow.flush().unwrap();
    // statistics (JSON, hand-written to avoid a serde dependency)
    let mut s = String::new();
    s.push_str(&format!(
        "{{\"requests\": {}, \"distinct\": {}, \"uncaught_panics\": {}, \"oracle_fails\": {}, \"ops\": {{",
        n,
        distinct.len(),
        panics,
        oracle.fails.len()
    ));
    let mut first = true;
    for (k, v) in &ops {
        if !first {
            s.push_str(", ");
        }
        first = false;
        s.push_str(&format!("\"{}\": {}", k, v));
    }
    s.push_str("}, \"counters\": {");
    first = true;
    for (k, v) in &oracle.counters {
        if !first {
            s.push_str(", ");
        }
        first = false;
        s.push_str(&format!("\"{}\": {}", k.replace('"', "'"), v));
    }
    s.push_str("}}");
    println!("{}", s);
    0
}
