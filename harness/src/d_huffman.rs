//! Domain `huffman`: `huffman/src/lib.rs` (the built-in Teeworlds table, compress / compress_bug /
//! decompress, `from_frequencies`) against the C++ reference (`huffman/reference`).  Property C07.
//!
//! Protocol: see `lean/Tw/Drv/Huffman.lean` (the model driver prints the same lines).
use crate::util::*;
use libtw2_huffman::DecompressionError;
use libtw2_huffman::Huffman;
use libtw2_huffman_reference::Huffman as RefHuffman;
use std::io::Write;

pub struct D;

pub fn domain() -> Box<dyn Domain> {
    Box::new(D)
}

/// the built-in table
static T: Huffman = libtw2_huffman::instances::TEEWORLDS;

/// guard bytes on each side of every exact-capacity output slice
const G: usize = 32;
const GUARD: u8 = 0xA5;

fn load_freqs() -> Vec<u32> {
    let repo = std::env::var("VERIF_REPO").unwrap_or_else(|_| "/repo".to_string());
    let path = format!("{}/huffman/data/frequencies", repo);
    let s = std::fs::read_to_string(&path).unwrap_or_else(|e| panic!("read {}: {}", path, e));
    let v: Vec<u32> = s
        .lines()
        .map(|l| l.trim())
        .filter(|l| !l.is_empty())
        .map(|l| l.parse().unwrap_or_else(|_| panic!("bad frequency line {:?} in {}", l, path)))
        .collect();
    assert!(v.len() == 256, "{}: expected 256 frequencies, found {}", path, v.len());
    v
}

/// hex for oracle messages (long strings are cut)
fn short(bs: &[u8]) -> String {
    if bs.len() <= 48 {
        to_hex(bs)
    } else {
        format!("{}..(len {})", to_hex(&bs[..48]), bs.len())
    }
}

#[derive(Clone, PartialEq, Eq, Debug)]
enum Dec {
    Ok(Vec<u8>),
    Capacity,
    Invalid,
}

#[derive(Clone, PartialEq, Eq, Debug)]
enum RDec {
    Ok(Vec<u8>),
    Error,
}

fn dec_show(d: &Dec) -> String {
    match d {
        Dec::Ok(v) => format!("ok:{}", short(v)),
        Dec::Capacity => "capacity".to_string(),
        Dec::Invalid => "invalid".to_string(),
    }
}
fn rdec_show(d: &RDec) -> String {
    match d {
        RDec::Ok(v) => format!("ok:{}", short(v)),
        RDec::Error => "error".to_string(),
    }
}

fn guards_ok(buf: &[u8], cap: usize) -> bool {
    buf[..G].iter().all(|&b| b == GUARD) && buf[G + cap..].iter().all(|&b| b == GUARD)
}

/// `h.decompress` into a slice of exactly `cap` bytes that lies between guard bytes; the second
/// component is false if a guard byte was touched or the result is longer than `cap`
fn dec_raw(h: &Huffman, input: &[u8], cap: usize) -> (Dec, bool) {
    let mut buf = vec![GUARD; cap + 2 * G];
    let r = match h.decompress(input, &mut buf[G..G + cap]) {
        Ok(s) => Dec::Ok(s.to_vec()),
        Err(DecompressionError::Capacity(_)) => Dec::Capacity,
        Err(DecompressionError::InvalidInput) => Dec::Invalid,
    };
    let fits = match &r {
        Dec::Ok(v) => v.len() <= cap,
        _ => true,
    };
    let ok = fits && guards_ok(&buf, cap);
    (r, ok)
}

/// `dec_raw` + the overrun check reported under `tag`
fn dec(h: &Huffman, input: &[u8], cap: usize, tag: &str, o: &mut Oracle) -> Dec {
    let (r, ok) = dec_raw(h, input, cap);
    if !ok {
        o.fail(tag, format!("cap={} input={} result={}", cap, short(input), dec_show(&r)));
    }
    r
}

/// the C++ `Decompress` into a slice of exactly `cap` bytes (also kept between guard bytes)
fn ref_dec(r: &RefHuffman, input: &[u8], cap: usize) -> RDec {
    let mut buf = vec![GUARD; cap + 2 * G];
    let res = match r.decompress(input, &mut buf[G..G + cap]) {
        Ok(s) => RDec::Ok(s.to_vec()),
        Err(_) => RDec::Error,
    };
    res
}

/// the C++ `Compress`; always into a big buffer (it writes before it checks)
fn ref_comp(r: &RefHuffman, xs: &[u8]) -> Vec<u8> {
    // codes of a reference-built tree can be longer than 24 bits (up to 256 for a degenerate tree)
    let mut buf = vec![0u8; 40 * xs.len() + 64];
    let res = r.compress(xs, &mut buf[..]).expect("reference compress: big buffer").to_vec();
    res
}

fn comp(h: &Huffman, xs: &[u8], bug: bool) -> Vec<u8> {
    let mut buf = vec![0u8; 3 * xs.len() + 16];
    let r = if bug { h.compress_bug(xs, &mut buf[..]) } else { h.compress(xs, &mut buf[..]) };
    let res = r.expect("compress: big buffer").to_vec();
    res
}

/// compress into exactly `cap` bytes between guard bytes: (result, guards intact)
fn comp_into(h: &Huffman, xs: &[u8], bug: bool, cap: usize) -> (Option<Vec<u8>>, bool) {
    let mut buf = vec![GUARD; cap + 2 * G];
    let r = {
        let slice = &mut buf[G..G + cap];
        let r = if bug { h.compress_bug(xs, slice) } else { h.compress(xs, slice) };
        r.ok().map(|s| s.to_vec())
    };
    let fits = r.as_ref().map_or(true, |v| v.len() <= cap);
    let ok = fits && guards_ok(&buf, cap);
    (r, ok)
}

/// The same calls through a `&mut Vec<u8>` buffer (results are committed with `advance`): on success
/// the vector holds exactly the output, on a capacity error nothing is committed (length 0); the
/// capacity that counts is the vector's actual one.
fn vec_commit_compress(h: &Huffman, xs: &[u8], bug: bool, cap: usize, full: &[u8], o: &mut Oracle) {
    let mut v: Vec<u8> = Vec::with_capacity(cap);
    let real = v.capacity();
    let ok = {
        let r = if bug { h.compress_bug(xs, &mut v) } else { h.compress(xs, &mut v) };
        r.map(|s| s.to_vec()).ok()
    };
    let good = match &ok {
        Some(out) => full.len() <= real && &out[..] == full && &v[..] == full,
        None => full.len() > real && v.is_empty(),
    };
    if !good || v.capacity() != real {
        o.fail(
            "C07/vec-buffer-commit",
            format!("compress bug={} cap={} real_cap={} need={} ok={} vec_len={}", bug as u8, cap, real, full.len(), ok.is_some(), v.len()),
        );
    }
}

fn vec_commit_decompress(h: &Huffman, input: &[u8], cap: usize, expect: &Dec, o: &mut Oracle) {
    let mut v: Vec<u8> = Vec::with_capacity(cap);
    let real = v.capacity();
    if real != cap {
        return; // the allocator rounded up: the expected result is for `cap`
    }
    let ok = h.decompress(input, &mut v).map(|s| s.to_vec()).ok();
    let good = match (&ok, expect) {
        (Some(out), Dec::Ok(e)) => out == e && &v[..] == &e[..],
        (None, Dec::Capacity) => v.is_empty(),
        _ => false,
    };
    if !good || v.capacity() != real {
        o.fail(
            "C07/vec-buffer-commit",
            format!("decompress cap={} input={} slice_result={} vec_ok={} vec_len={}", cap, short(input), dec_show(expect), ok.is_some(), v.len()),
        );
    }
}

fn repr_strings(h: &Huffman) -> Vec<String> {
    h.repr().into_iter().map(|s| s.to_string()).collect()
}

fn repr_hash(h: &Huffman) -> u64 {
    let mut x = FNV_OFFSET;
    for s in repr_strings(h) {
        x = fnv_bytes(x, s.as_bytes());
        x = fnv_byte(x, 0x0a);
    }
    x
}

/// the `k`-th string of length `n` in lexicographic order, appended to `pre`
fn nth_input(pre: &[u8], n: u32, k: u64, out: &mut Vec<u8>) {
    out.clear();
    out.extend_from_slice(pre);
    for j in 0..n {
        out.push((k / 256u64.pow(n - 1 - j)) as u8);
    }
}

const OVR: &str = "C07/decompress-overrun";
const FQ_OVR: &str = "C07/fq-decompress-overrun";

struct Ctx {
    freqs: Vec<u32>,
    reference: RefHuffman,
    n_dec_ok: u64,
    n_dec_cap: u64,
    n_ref_ok: u64,
    n_ref_err: u64,
}

struct R {
    ctx: Option<Ctx>,
}

impl Ctx {
    fn new() -> Ctx {
        let freqs = load_freqs();
        let reference = RefHuffman::from_frequencies(&freqs);
        Ctx { freqs, reference, n_dec_ok: 0, n_dec_cap: 0, n_ref_ok: 0, n_ref_err: 0 }
    }

    fn flush(&mut self, o: &mut Oracle) {
        for (k, v) in [
            ("decompress_ok", &mut self.n_dec_ok),
            ("decompress_capacity", &mut self.n_dec_cap),
            ("ref_ok", &mut self.n_ref_ok),
            ("ref_error", &mut self.n_ref_err),
        ] {
            if *v > 0 {
                o.add(k, *v);
                *v = 0;
            }
        }
    }

    fn rdec(&mut self, input: &[u8], cap: usize) -> RDec {
        let r = ref_dec(&self.reference, input, cap);
        match r {
            RDec::Ok(_) => self.n_ref_ok += 1,
            RDec::Error => self.n_ref_err += 1,
        }
        r
    }

    /// (compress, compress_bug, compressed_len, compressed_len_bug) of the built-in table and the
    /// compressor statements of C07 for this input
    fn compress_all(&mut self, xs: &[u8], o: &mut Oracle) -> (Vec<u8>, Vec<u8>, usize, usize) {
        let c = comp(&T, xs, false);
        let cb = comp(&T, xs, true);
        let l = T.compressed_len(xs);
        let lb = T.compressed_len_bug(xs);
        self.oracle_comp(xs, &c, &cb, l, lb, o);
        (c, cb, l, lb)
    }

    fn oracle_comp(&mut self, xs: &[u8], c: &[u8], cb: &[u8], l: usize, lb: usize, o: &mut Oracle) {
        let n = xs.len();
        for (name, s) in [("compress", c), ("compress_bug", cb)] {
            let mut caps = vec![n, n + 1];
            if n > 0 {
                caps.push(n - 1);
            }
            for cap in caps {
                let r = dec(&T, s, cap, OVR, o);
                let good = if cap >= n { matches!(&r, Dec::Ok(v) if &v[..] == xs) } else { r == Dec::Capacity };
                if !good {
                    o.fail(
                        "C07/roundtrip",
                        format!("{} input={} stream={} cap={} decompress={}", name, short(xs), short(s), cap, dec_show(&r)),
                    );
                }
            }
        }
        if c.len() != l || cb.len() != lb || !(l <= lb && lb <= l + 1) {
            o.fail(
                "C07/predicted-length",
                format!("input={} compress.len={} compressed_len={} compress_bug.len={} compressed_len_bug={}", short(xs), c.len(), l, cb.len(), lb),
            );
        }
        let rc = ref_comp(&self.reference, xs);
        if rc != cb {
            o.fail(
                "C07/compress-bug-vs-reference",
                format!("input={} compress_bug={} reference={}", short(xs), short(cb), short(&rc)),
            );
        }
        let prefix_ok = c == cb || (cb.len() == c.len() + 1 && &cb[..c.len()] == c && cb[c.len()] == 0);
        if !prefix_ok {
            o.fail("C07/compress-prefix", format!("input={} compress={} compress_bug={}", short(xs), short(c), short(cb)));
        }
        let rr = self.rdec(cb, n);
        if !matches!(&rr, RDec::Ok(v) if &v[..] == xs) {
            o.fail(
                "C07/reference-decodes-compressed",
                format!("input={} compress_bug={} reference_decompress={}", short(xs), short(cb), rdec_show(&rr)),
            );
        }
    }

    /// `T.decompress(input, cap)` + the decompressor statements of C07.  `rres`: the reference result
    /// for the same (input, cap) if the caller has it already.  `full`: also the statements that need
    /// further calls (monotonicity, Vec API, recompression).
    fn decompress_checked(&mut self, input: &[u8], cap: usize, rres: Option<&RDec>, full: bool, o: &mut Oracle) -> Dec {
        let res = dec(&T, input, cap, OVR, o);
        match &res {
            Dec::Ok(_) => self.n_dec_ok += 1,
            Dec::Capacity => self.n_dec_cap += 1,
            Dec::Invalid => {
                o.fail("C07/decompress-invalid-variant", format!("cap={} input={}", cap, short(input)));
            }
        }
        // reference agreement
        let own;
        let rr = match rres {
            Some(r) => r,
            None => {
                own = self.rdec(input, cap);
                &own
            }
        };
        if let RDec::Ok(b) = rr {
            if !matches!(&res, Dec::Ok(v) if v == b) {
                o.fail(
                    "C07/reference-agreement",
                    format!("cap={} input={} reference=ok:{} rust={}", cap, short(input), short(b), dec_show(&res)),
                );
            }
        }
        if full {
            self.oracle_dec_full(input, cap, &res, o);
        }
        res
    }

    fn oracle_dec_full(&mut self, input: &[u8], cap: usize, res: &Dec, o: &mut Oracle) {
        match res {
            Dec::Ok(out) => {
                let n = out.len();
                let r = dec(&T, input, n, OVR, o);
                if r != *res {
                    o.fail(
                        "C07/capacity-monotone",
                        format!("input={} cap={} gives {} but cap={} gives {}", short(input), cap, dec_show(res), n, dec_show(&r)),
                    );
                }
                if n > 0 {
                    let r = dec(&T, input, n - 1, OVR, o);
                    if r != Dec::Capacity {
                        o.fail(
                            "C07/capacity-monotone",
                            format!("input={} cap={} gives {} but cap={} gives {}", short(input), cap, dec_show(res), n - 1, dec_show(&r)),
                        );
                    }
                }
                // recompression of the decoded bytes decodes to the same bytes
                let c = comp(&T, out, false);
                let r = dec(&T, &c, n, OVR, o);
                if r != *res {
                    o.fail(
                        "C07/decompress-recompress",
                        format!("input={} cap={} decoded={} recompressed={} decodes to {}", short(input), cap, short(out), short(&c), dec_show(&r)),
                    );
                }
            }
            Dec::Capacity => {
                let r = dec(&T, input, cap / 2, OVR, o);
                if r != Dec::Capacity {
                    o.fail(
                        "C07/capacity-monotone",
                        format!("input={} cap={} gives capacity but cap={} gives {}", short(input), cap, cap / 2, dec_show(&r)),
                    );
                }
            }
            Dec::Invalid => {}
        }
        // the Vec API
        let big = dec(&T, input, 8 * input.len(), OVR, o);
        let v = libtw2_huffman::decompress(input);
        let agree = match (&v, &big) {
            (Ok(a), Dec::Ok(b)) => a == b,
            (Err(_), Dec::Ok(_)) => false,
            (Ok(_), _) => false,
            (Err(_), _) => true,
        };
        if !agree {
            o.fail(
                "C07/decompress-vec",
                format!(
                    "input={} decompress(vec)={} decompress(cap {})={}",
                    short(input),
                    match &v {
                        Ok(a) => format!("ok:{}", short(a)),
                        Err(_) => "invalid".to_string(),
                    },
                    8 * input.len(),
                    dec_show(&big)
                ),
            );
        }
    }

    fn handle(&mut self, t: &[&str], o: &mut Oracle) -> String {
        let r = self.handle_inner(t, o);
        self.flush(o);
        r.unwrap_or_else(|| "bad-op".to_string())
    }

    fn handle_inner(&mut self, t: &[&str], o: &mut Oracle) -> Option<String> {
        Some(match t {
            ["c", h] => {
                let xs = parse_hex(h)?;
                let (c, cb, l, lb) = self.compress_all(&xs, o);
                format!("{} {} {} {}", to_hex(&c), to_hex(&cb), l, lb)
            }
            ["ci", bug, cap, h] => {
                let bug: u64 = bug.parse().ok()?;
                let bug = bug != 0;
                let cap: usize = cap.parse().ok()?;
                let xs = parse_hex(h)?;
                let (r, guards) = comp_into(&T, &xs, bug, cap);
                let (c, cb, l, lb) = self.compress_all(&xs, o);
                let (full, need) = if bug { (cb, lb) } else { (c, l) };
                vec_commit_compress(&T, &xs, bug, cap, &full, o);
                let good = guards
                    && match &r {
                        Some(v) => cap >= need && *v == full,
                        None => cap < need,
                    };
                if !good {
                    o.fail(
                        "C07/compress-capacity",
                        format!(
                            "bug={} cap={} predicted={} input={} result={} unbounded={} guards_intact={}",
                            bug as u8,
                            cap,
                            need,
                            short(&xs),
                            r.as_ref().map_or("capacity".to_string(), |v| format!("ok:{}", short(v))),
                            short(&full),
                            guards
                        ),
                    );
                }
                match r {
                    Some(v) => format!("ok {}", to_hex(&v)),
                    None => "capacity".to_string(),
                }
            }
            ["d", cap, h] => {
                let cap: usize = cap.parse().ok()?;
                let xs = parse_hex(h)?;
                let r = self.decompress_checked(&xs, cap, None, true, o);
                vec_commit_decompress(&T, &xs, cap, &r, o);
                match r {
                    Dec::Ok(v) => format!("ok {}", to_hex(&v)),
                    Dec::Capacity => "capacity".to_string(),
                    Dec::Invalid => "invalid".to_string(),
                }
            }
            ["dv", h] => {
                let xs = parse_hex(h)?;
                let r = libtw2_huffman::decompress(&xs);
                // the `d` oracle at the capacity the Vec API uses (includes C07/decompress-vec)
                self.decompress_checked(&xs, 8 * xs.len(), None, true, o);
                match r {
                    Ok(v) => format!("ok {}", to_hex(&v)),
                    Err(_) => "invalid".to_string(),
                }
            }
            ["rc", h] => {
                let xs = parse_hex(h)?;
                let rc = ref_comp(&self.reference, &xs);
                self.compress_all(&xs, o);
                to_hex(&rc)
            }
            ["rd", cap, h] => {
                let cap: usize = cap.parse().ok()?;
                let xs = parse_hex(h)?;
                let rr = self.rdec(&xs, cap);
                self.decompress_checked(&xs, cap, Some(&rr), true, o);
                match rr {
                    RDec::Ok(v) => format!("ok {}", to_hex(&v)),
                    RDec::Error => "error".to_string(),
                }
            }
            ["hc", pre, n] => {
                let pre = parse_hex(pre)?;
                let n: u32 = n.parse().ok()?;
                let total = 256u64.checked_pow(n)?;
                let mut h = FNV_OFFSET;
                let mut xs = Vec::new();
                for k in 0..total {
                    nth_input(&pre, n, k, &mut xs);
                    let (c, cb, l, lb) = self.compress_all(&xs, o);
                    h = fnv_bytes(h, &c);
                    h = fnv_byte(h, 0xff);
                    h = fnv_bytes(h, &cb);
                    h = fnv_byte(h, 0xfe);
                    h = fnv_bytes(h, &[l as u8, (l / 256) as u8]);
                    h = fnv_bytes(h, &[lb as u8, (lb / 256) as u8]);
                }
                o.add("compress_inputs_swept", total);
                format!("h {}", h)
            }
            ["hd", pre, n, capmax] => {
                let pre = parse_hex(pre)?;
                let n: u32 = n.parse().ok()?;
                let capmax: usize = capmax.parse().ok()?;
                let total = 256u64.checked_pow(n)?;
                let mut h = FNV_OFFSET;
                let mut xs = Vec::new();
                let salt = pre.iter().map(|&b| b as u64).sum::<u64>();
                for k in 0..total {
                    nth_input(&pre, n, k, &mut xs);
                    let full_cap = ((k + salt) % (capmax as u64 + 1)) as usize;
                    for cap in 0..=capmax {
                        match self.decompress_checked(&xs, cap, None, cap == full_cap, o) {
                            Dec::Ok(v) => {
                                h = fnv_byte(h, 1);
                                h = fnv_bytes(h, &v);
                                h = fnv_byte(h, 0xfe);
                            }
                            Dec::Capacity => h = fnv_byte(h, 2),
                            Dec::Invalid => h = fnv_byte(h, 3),
                        }
                    }
                }
                o.add("decompress_cases_swept", total * (capmax as u64 + 1));
                format!("h {}", h)
            }
            ["hrd", pre, n, capmax] => {
                let pre = parse_hex(pre)?;
                let n: u32 = n.parse().ok()?;
                let capmax: usize = capmax.parse().ok()?;
                let total = 256u64.checked_pow(n)?;
                let mut h = FNV_OFFSET;
                let mut xs = Vec::new();
                let salt = pre.iter().map(|&b| b as u64).sum::<u64>() + 7;
                for k in 0..total {
                    nth_input(&pre, n, k, &mut xs);
                    let full_cap = ((k + salt) % (capmax as u64 + 1)) as usize;
                    for cap in 0..=capmax {
                        let rr = self.rdec(&xs, cap);
                        self.decompress_checked(&xs, cap, Some(&rr), cap == full_cap, o);
                        match rr {
                            RDec::Ok(v) => {
                                h = fnv_byte(h, 1);
                                h = fnv_bytes(h, &v);
                                h = fnv_byte(h, 0xfe);
                            }
                            RDec::Error => h = fnv_byte(h, 2),
                        }
                    }
                }
                o.add("ref_decompress_cases_swept", total * (capmax as u64 + 1));
                format!("h {}", h)
            }
            ["repr"] => format!("h {}", repr_hash(&T)),
            ["tiefreq"] => {
                let r = catch(|| Huffman::from_frequencies(&self.freqs));
                match r {
                    Err(_) => "differ".to_string(),
                    Ok(h) => {
                        let mut same = repr_strings(&h) == repr_strings(&T);
                        let all: Vec<u8> = (0..=255u8).collect();
                        let samples: [&[u8]; 5] = [b"", b"\x00", b"\x00\x01\x00\x02\x00\x80\x00", b"hello, world", &all];
                        for s in samples {
                            same &= comp(&h, s, false) == comp(&T, s, false);
                            same &= comp(&h, s, true) == comp(&T, s, true);
                            same &= h.compressed_len(s) == T.compressed_len(s);
                            same &= h.compressed_len_bug(s) == T.compressed_len_bug(s);
                        }
                        if same { "ok" } else { "differ" }.to_string()
                    }
                }
            }
            ["fqd", fs, items @ ..] => {
                let fs: Vec<u32> = fs.split(',').map(|x| x.parse::<u32>().ok()).collect::<Option<Vec<u32>>>()?;
                let mut its: Vec<(usize, Vec<u8>)> = vec![];
                for it in items {
                    let (c, h) = it.split_once(':')?;
                    its.push((c.parse().ok()?, parse_hex(h)?));
                }
                self.fqd(&fs, &its, o)
            }
            ["rfq", fs, h] => {
                let fs: Vec<u32> = fs.split(',').map(|x| x.parse::<u32>().ok()).collect::<Option<Vec<u32>>>()?;
                let xs = parse_hex(h)?;
                if fs.len() != 256 {
                    return None;
                }
                // the C++ `int` arithmetic is defined only when no merge can overflow
                let mag: u64 = fs.iter().map(|&f| (f as i32 as i64).unsigned_abs()).sum::<u64>() + 1;
                if mag >= (1u64 << 31) {
                    "skip".to_string()
                } else {
                    o.count("rfq_reference_trees");
                    let refh = RefHuffman::from_frequencies(&fs);
                    to_hex(&ref_comp(&refh, &xs))
                }
            }
            ["fq", fs, cap, h] => {
                let fs: Vec<u32> = fs.split(',').map(|x| x.parse::<u32>().ok()).collect::<Option<Vec<u32>>>()?;
                let cap: usize = cap.parse().ok()?;
                let xs = parse_hex(h)?;
                self.fq(&fs, cap, &xs, o)
            }
            _ => return None,
        })
    }

    /// Decoding with a table built from a frequency vector: many streams per construction.  The
    /// oracle is the property's "whenever the reference decodes an input successfully this one
    /// returns the same bytes" (reference built from the same frequencies), the buffer bound, and
    /// capacity monotonicity.
    fn fqd(&mut self, fs: &[u32], items: &[(usize, Vec<u8>)], o: &mut Oracle) -> String {
        let h = match catch(|| Huffman::from_frequencies(fs)) {
            Ok(h) => h,
            Err(msg) => {
                if fs.len() == 256 {
                    o.count("fq_panic");
                    let tag = if msg.contains("CapacityError") || msg.contains("insufficient capacity") {
                        "C07/from-frequencies-panic"
                    } else {
                        "C07/from-frequencies-other-panic"
                    };
                    o.fail(tag, format!("from_frequencies panicked: {}", msg));
                }
                return "panic".to_string();
            }
        };
        let mag: u64 = fs.iter().map(|&f| (f as i32 as i64).unsigned_abs()).sum::<u64>() + 1;
        let signed = fs.iter().any(|&f| f >= (1u32 << 31));
        let refh = if mag < (1u64 << 31) { Some(RefHuffman::from_frequencies(fs)) } else { None };
        let mut out: Vec<String> = vec![];
        // the compressor of this table on the empty input and on every single byte (257 inputs): exact
        // lengths, round trip, reference bytes; folded into one hash for the correspondence
        {
            let mut hh = FNV_OFFSET;
            for k in 0..257u32 {
                let xs: Vec<u8> = if k == 0 { vec![] } else { vec![(k - 1) as u8] };
                let r = catch(|| (comp(&h, &xs, false), comp(&h, &xs, true)));
                let (c, cb) = match r {
                    Ok(v) => v,
                    Err(msg) => {
                        o.fail("C07/fq-compress-panic", format!("input={} {}", short(&xs), msg));
                        hh = fnv_byte(hh, 0);
                        continue;
                    }
                };
                let (l, lb) = (h.compressed_len(&xs), h.compressed_len_bug(&xs));
                if c.len() != l || cb.len() != lb || !(l <= lb && lb <= l + 1) {
                    o.fail(
                        "C07/fq-predicted-length",
                        format!("input={} compress.len={} compressed_len={} compress_bug.len={} compressed_len_bug={}", short(&xs), c.len(), l, cb.len(), lb),
                    );
                }
                for st in [&c, &cb] {
                    if !matches!(dec(&h, st, xs.len(), FQ_OVR, o), Dec::Ok(v) if v == xs) {
                        o.fail("C07/fq-roundtrip", format!("input={} stream={}", short(&xs), short(st)));
                    }
                }
                if let Some(refh) = &refh {
                    let rc = ref_comp(refh, &xs);
                    if rc != cb {
                        o.fail(
                            if signed { "C07/fq-reference-signed-frequency" } else { "C07/fq-compress-bug-vs-reference" },
                            format!("input={} compress_bug={} reference={}", short(&xs), short(&cb), short(&rc)),
                        );
                    }
                }
                hh = fnv_bytes(hh, &c);
                hh = fnv_byte(hh, 0xff);
                hh = fnv_bytes(hh, &cb);
                hh = fnv_byte(hh, 0xfe);
                hh = fnv_bytes(hh, &(l as u16).to_le_bytes());
                hh = fnv_bytes(hh, &(lb as u16).to_le_bytes());
            }
            o.add("fqd_compress_inputs_swept", 257);
            out.push(format!("h{}", hh));
        }
        for (cap, xs) in items {
            let d = dec(&h, xs, *cap, FQ_OVR, o);
            o.count("fqd_decodes");
            match &d {
                Dec::Invalid => o.fail("C07/decompress-invalid-variant", format!("fq table, cap={} input={}", cap, short(xs))),
                Dec::Ok(v) => {
                    o.count("fqd_ok");
                    // the same bytes at exactly the needed capacity, capacity error one below
                    let r = dec(&h, xs, v.len(), FQ_OVR, o);
                    let mut good = r == d;
                    if !v.is_empty() {
                        good = good && dec(&h, xs, v.len() - 1, FQ_OVR, o) == Dec::Capacity;
                    }
                    if !good {
                        o.fail("C07/fq-capacity-monotone", format!("cap={} input={} result={}", cap, short(xs), dec_show(&d)));
                    }
                }
                Dec::Capacity => {}
            }
            if let Some(refh) = &refh {
                let rr = ref_dec(refh, xs, *cap);
                if let RDec::Ok(b) = &rr {
                    o.count("fqd_reference_ok");
                    if !matches!(&d, Dec::Ok(v) if v == b) {
                        o.fail(
                            if signed { "C07/fq-reference-signed-frequency" } else { "C07/fq-reference-agreement" },
                            format!("cap={} input={} reference=ok:{} rust={}", cap, short(xs), short(b), dec_show(&d)),
                        );
                    }
                }
            }
            out.push(match &d {
                Dec::Ok(v) => format!("ok:{}", to_hex(v)),
                Dec::Capacity => "capacity".to_string(),
                Dec::Invalid => "invalid".to_string(),
            });
        }
        if out.is_empty() {
            "-".to_string()
        } else {
            out.join(" ")
        }
    }

    fn fq(&mut self, fs: &[u32], cap: usize, xs: &[u8], o: &mut Oracle) -> String {
        let h = match catch(|| Huffman::from_frequencies(fs)) {
            Ok(h) => h,
            Err(msg) => {
                if fs.len() == 256 {
                    o.count("fq_panic");
                    // D16 is the ArrayVec capacity panic of the 24-entry stack; any other panic is new
                    let tag = if msg.contains("CapacityError") || msg.contains("insufficient capacity") {
                        "C07/from-frequencies-panic"
                    } else {
                        "C07/from-frequencies-other-panic"
                    };
                    o.fail(tag, format!("from_frequencies panicked: {}", msg));
                } else {
                    // documented precondition (`assert!(frequencies.len() == 256)`), not a finding
                    o.count("fq_bad_length_panic");
                }
                return "panic".to_string();
            }
        };
        o.count("fq_ok");
        let n = xs.len();
        let c = comp(&h, xs, false);
        let cb = comp(&h, xs, true);
        let l = h.compressed_len(xs);
        let lb = h.compressed_len_bug(xs);
        let d = dec(&h, xs, cap, FQ_OVR, o);
        if d == Dec::Invalid {
            o.fail("C07/decompress-invalid-variant", format!("fq table, cap={} input={}", cap, short(xs)));
        }
        // round trip with this table
        for (name, s) in [("compress", &c), ("compress_bug", &cb)] {
            let mut caps = vec![n, n + 1];
            if n > 0 {
                caps.push(n - 1);
            }
            for k in caps {
                let r = dec(&h, s, k, FQ_OVR, o);
                let good = if k >= n { matches!(&r, Dec::Ok(v) if &v[..] == xs) } else { r == Dec::Capacity };
                if !good {
                    o.fail(
                        "C07/fq-roundtrip",
                        format!("{} input={} stream={} cap={} decompress={}", name, short(xs), short(s), k, dec_show(&r)),
                    );
                }
            }
        }
        if c.len() != l || cb.len() != lb || !(l <= lb && lb <= l + 1) {
            o.fail(
                "C07/fq-predicted-length",
                format!("input={} compress.len={} compressed_len={} compress_bug.len={} compressed_len_bug={}", short(xs), c.len(), l, cb.len(), lb),
            );
        }
        // The C++ stores the frequencies in `int`s: its arithmetic is defined (no signed overflow in
        // any merge) when the magnitudes of the values reinterpreted as i32 sum to less than 2^31.
        // Entries >= 2^31 are then *negative* for the C++ and huge for the Rust (u32,
        // saturating_add): a separate failure class.
        let sum: u64 = fs.iter().map(|&f| (f as i32 as i64).unsigned_abs()).sum::<u64>() + 1;
        let signed = fs.iter().any(|&f| f >= (1u32 << 31));
        if sum < (1u64 << 31) {
            o.count(if signed { "fq_reference_compared_signed" } else { "fq_reference_compared" });
            let refh = RefHuffman::from_frequencies(fs);
            let rc = ref_comp(&refh, xs);
            if rc != cb {
                o.fail(
                    if signed { "C07/fq-reference-signed-frequency" } else { "C07/fq-compress-bug-vs-reference" },
                    format!("input={} compress_bug={} reference={}", short(xs), short(&cb), short(&rc)),
                );
            }
            let rr = ref_dec(&refh, xs, cap);
            if let RDec::Ok(b) = &rr {
                if !matches!(&d, Dec::Ok(v) if v == b) {
                    o.fail(
                        if signed { "C07/fq-reference-signed-frequency" } else { "C07/fq-reference-agreement" },
                        format!("cap={} input={} reference=ok:{} rust={}", cap, short(xs), short(b), dec_show(&d)),
                    );
                }
            }
        } else {
            o.count("fq_reference_skipped");
        }
        // the same bytes through the built-in table (compressor and decompressor statements)
        self.compress_all(xs, o);
        self.decompress_checked(xs, cap, None, true, o);
        let ds = match &d {
            Dec::Ok(v) => format!("ok:{}", to_hex(v)),
            Dec::Capacity => "capacity".to_string(),
            Dec::Invalid => "invalid".to_string(),
        };
        format!("ok {} {} {} {} {} {}", repr_hash(&h), to_hex(&c), to_hex(&cb), l, lb, ds)
    }
}

impl Runner for R {
    fn run(&mut self, t: &[&str], o: &mut Oracle) -> String {
        // lazily: reads $VERIF_REPO/huffman/data/frequencies and builds the C++ table once
        let ctx = self.ctx.get_or_insert_with(Ctx::new);
        ctx.handle(t, o)
    }
}

// ---------------------------------------------------------------------------------------------
// generator

const LENS: &[usize] = &[
    0, 1, 2, 3, 4, 7, 8, 9, 15, 16, 17, 31, 32, 33, 63, 64, 65, 100, 255, 256, 257, 1000, 1390, 1391, 4096, 8192,
];
/// bytes whose code in the built-in table is longest
const LONGEST: &[u8] = &[0x36, 0x6c, 0x76, 0x7e, 0xf0, 0xf8, 0x77];
const WORDS: &[&str] = &[
    "the", "quick", "brown", "fox", "jumps", "over", "lazy", "dog", "Teeworlds", "DDNet", "/vote", "kick", "say", "hello", "gg", "wp", "0.6", "map", "dm1",
    "ctf5", "nameless", "tee", "!", "?", ":", "1234567890",
];

/// `long_pct`: percentage of the random lengths drawn from the whole range 0..=8192
fn gen_len(rng: &mut Rng, list_pct: u64, long_pct: u64) -> usize {
    if rng.chance(list_pct, 100) {
        *rng.pick(LENS)
    } else if rng.chance(3, 4) {
        rng.below(64) as usize
    } else if !rng.chance(4 * long_pct, 100) {
        rng.below(600) as usize
    } else {
        rng.below(8193) as usize
    }
}

fn gen_content(rng: &mut Rng, len: usize) -> Vec<u8> {
    match rng.below(9) {
        0 | 1 => rng.bytes(len),
        2 => vec![0u8; len],
        3 => vec![0xffu8; len],
        4 => vec![rng.next() as u8; len],
        5 | 6 => (0..len)
            .map(|_| match rng.below(20) {
                0..=10 => 0u8,
                11..=13 => 1,
                14..=16 => rng.below(16) as u8,
                17 => 0x80 | rng.below(64) as u8,
                _ => rng.next() as u8,
            })
            .collect(),
        7 => {
            if rng.chance(1, 2) {
                vec![*rng.pick(LONGEST); len]
            } else {
                (0..len).map(|_| *rng.pick(LONGEST)).collect()
            }
        }
        _ => {
            let mut s: Vec<u8> = Vec::with_capacity(len + 16);
            while s.len() < len {
                s.extend_from_slice(rng.pick(WORDS).as_bytes());
                s.push(b' ');
            }
            s.truncate(len);
            s
        }
    }
}

/// input for the decompressor section: mostly short, `long_pct` percent up to 2000 bytes
fn gen_small_input(rng: &mut Rng, long_pct: u64) -> Vec<u8> {
    let len = if rng.chance(long_pct, 100) {
        rng.below(2001) as usize
    } else if rng.chance(2, 3) {
        rng.below(25) as usize
    } else {
        rng.below(65) as usize
    };
    gen_content(rng, len)
}

/// decoded length of a stream (8 * len for a runaway stream)
fn decoded_len(s: &[u8]) -> usize {
    match dec_raw(&T, s, 8 * s.len()).0 {
        Dec::Ok(v) => v.len(),
        _ => 8 * s.len(),
    }
}

fn gen_streams(rng: &mut Rng, long_pct: u64) -> Vec<Vec<u8>> {
    let kind = rng.below(20);
    if kind >= 17 {
        // (e) garbage
        let n = rng.below(41) as usize;
        return vec![match rng.below(4) {
            0 => vec![0u8; n],
            1 => vec![0xffu8; n],
            _ => rng.bytes(n),
        }];
    }
    let xs = gen_small_input(rng, long_pct);
    let valid = comp(&T, &xs, rng.chance(1, 2));
    match kind {
        0..=5 => vec![valid],
        6..=8 => {
            // (b) truncations
            if valid.len() <= 12 {
                (0..valid.len()).map(|k| valid[..k].to_vec()).collect()
            } else {
                (0..2).map(|_| valid[..rng.below(valid.len() as u64) as usize].to_vec()).collect()
            }
        }
        9..=12 => {
            // (c) extensions
            let k = 1 + rng.below(8) as usize;
            let mut s = valid;
            match rng.below(3) {
                0 => s.extend(rng.bytes(k)),
                1 => s.extend(vec![0u8; k]),
                _ => s.extend(vec![0xffu8; k]),
            }
            vec![s]
        }
        _ => {
            // (d) one bit flipped / one byte replaced
            let mut s = valid;
            if !s.is_empty() {
                let i = rng.below(s.len() as u64) as usize;
                if rng.chance(1, 2) {
                    s[i] ^= 1 << rng.below(8);
                } else {
                    s[i] = rng.next() as u8;
                }
            }
            vec![s]
        }
    }
}

fn fib(i: usize) -> u64 {
    let (mut a, mut b) = (1u64, 1u64);
    for _ in 0..i {
        let c = a + b;
        a = b;
        b = c;
    }
    a
}

fn shuffle(rng: &mut Rng, v: &mut [u32]) {
    for i in (1..v.len()).rev() {
        let j = rng.below(i as u64 + 1) as usize;
        v.swap(i, j);
    }
}

const FQ_KINDS: u64 = 14;

fn gen_freqs(rng: &mut Rng, kind: u64, shipped: &[u32]) -> Vec<u32> {
    match kind {
        0 => shipped.to_vec(),
        1 => {
            // shipped with perturbations
            let mut v = shipped.to_vec();
            for _ in 0..1 + rng.below(40) {
                let i = rng.below(256) as usize;
                match rng.below(5) {
                    0 => v[i] = 0,
                    1 => v[i] /= 2,
                    2 => v[i] = v[i].saturating_add(rng.below(1000) as u32),
                    3 => v[i] = rng.below(100000) as u32,
                    _ => {
                        let j = rng.below(256) as usize;
                        v.swap(i, j);
                    }
                }
            }
            v
        }
        2 => (0..256).map(|_| rng.below(1000) as u32).collect(),
        3 => (0..256).map(|_| rng.below(1 << 16) as u32).collect(),
        4 => {
            let mut v: Vec<u32> = (0..256usize).map(|i| (1u32 << (i % 20)) + rng.below(4) as u32).collect();
            if rng.chance(1, 2) {
                shuffle(rng, &mut v);
            }
            v
        }
        5 => vec![1u32; 256],
        6 => vec![7u32; 256],
        7 => {
            // values from {0,1,2}; few or many zeros
            let zero_in = *rng.pick(&[3u64, 25, 60, 120]);
            (0..256).map(|_| if rng.below(zero_in) == 0 { 0 } else { 1 + rng.below(2) as u32 }).collect()
        }
        8 => {
            // huge entries (saturating_add); the reference is skipped for these
            let mut v: Vec<u32> = (0..256).map(|_| rng.below(1000) as u32).collect();
            for _ in 0..1 + rng.below(6) {
                let i = rng.below(256) as usize;
                v[i] = match rng.below(3) {
                    0 => u32::MAX - rng.below(3) as u32,
                    1 => (1u32 << 31) + rng.below(1 << 20) as u32,
                    _ => (1u32 << 31) - 1 + rng.below(3) as u32,
                };
            }
            v
        }
        9 => {
            // Fibonacci: deeper than 24 (D16)
            let mut v: Vec<u32> = (0..256usize).map(|i| if i < 40 { fib(i) as u32 } else { 0 }).collect();
            if rng.chance(1, 2) {
                shuffle(rng, &mut v);
            }
            v
        }
        10 => {
            // Fibonacci chain of k symbols on top of equal large frequencies: depth about k + 8
            let k = 10 + rng.below(12) as usize;
            let large = fib(k + 1) as u32;
            let mut v: Vec<u32> = (0..256usize).map(|i| if i < k { fib(i) as u32 } else { large }).collect();
            if rng.chance(1, 2) {
                shuffle(rng, &mut v);
            }
            v
        }
        11 => {
            // z zero entries among large equal frequencies
            let z = if rng.chance(1, 4) { 24 + rng.below(3) as usize } else { 2 + rng.below(20) as usize };
            gen_zeros_among_large(rng, z)
        }
        12 => vec![0u32; 256],
        _ => {
            // all zero except one
            let mut v = vec![0u32; 256];
            v[rng.below(256) as usize] = *rng.pick(&[1u32, 2, 1000, 1 << 30, u32::MAX]);
            v
        }
    }
}

/// EOF (frequency 1) at the bottom of a chain: `k` symbols with frequencies 2, 4, 8, …, 2^k, all others
/// equal and larger.  EOF's code then has about `k + 8` bits and ends in about `k` zero bits.
fn gen_chain_freqs(rng: &mut Rng) -> Vec<u32> {
    let k = 6 + rng.below(11) as usize; // 6..16: the longest codes reach 14..24 bits, sometimes 25 (D16)
    let large = (1u32 << (k + 1)) + rng.below(1000) as u32;
    let mut v: Vec<u32> = (0..256usize).map(|i| if i < k { 2u32 << i } else { large }).collect();
    if rng.chance(1, 3) {
        // perturb the chain a little: still a chain, different tie-breaking
        for i in 0..k {
            v[i] += rng.below(2) as u32;
        }
    }
    if rng.chance(2, 3) {
        shuffle(rng, &mut v);
    }
    v
}

fn gen_zeros_among_large(rng: &mut Rng, z: usize) -> Vec<u32> {
    let large = *rng.pick(&[1000u32, 1_000_000, 8_000_000]);
    let mut v: Vec<u32> = (0..256usize).map(|i| if i < z { 0 } else { large }).collect();
    shuffle(rng, &mut v);
    v
}

fn fq_line(w: &mut dyn Write, rng: &mut Rng, fs: &[u32]) {
    let cap = rng.below(13);
    let n = rng.below(13) as usize;
    let mut xs = if rng.chance(1, 4) { gen_content(rng, n) } else { rng.bytes(n) };
    // random bytes almost never decode within 12 bytes: for a third of the lines use a stream that
    // is valid for this very table (if the table can be built), so that the D part also decodes
    if fs.len() == 256 && rng.chance(1, 3) {
        if let Ok(h) = catch(|| Huffman::from_frequencies(fs)) {
            let k = rng.below(6) as usize;
            let mut inp = rng.bytes(k);
            let bug = rng.chance(1, 2);
            loop {
                let c = comp(&h, &inp, bug);
                if c.len() <= 12 {
                    xs = c;
                    break;
                }
                inp.pop();
            }
        }
    }
    let fss: Vec<String> = fs.iter().map(|f| f.to_string()).collect();
    writeln!(w, "fq {} {} {}", fss.join(","), cap, to_hex(&xs)).unwrap();
}

impl Domain for D {
    fn runner(&self) -> Box<dyn Runner> {
        Box::new(R { ctx: None })
    }

    /// The request lines are generated section by section (`gen_sections`) and then shuffled
    /// (seeded), so that the expensive lines (hash sweeps, long inputs) spread evenly over the
    /// contiguous shards the check cuts the file into; the domain is stateless, order is irrelevant.
    fn gen(&self, tier: &str, seed: u64, w: &mut dyn Write) {
        let mut buf: Vec<u8> = Vec::new();
        self.gen_sections(tier, seed, &mut buf);
        let text = String::from_utf8(buf).expect("utf8");
        let mut lines: Vec<&str> = text.lines().filter(|l| !l.trim().is_empty()).collect();
        let fixed = 10.min(lines.len());
        let mut rng = Rng::new(seed ^ 0x73687566);
        let n = lines.len();
        for i in (fixed + 1..n).rev() {
            let j = fixed + rng.below((i - fixed + 1) as u64) as usize;
            lines.swap(i, j);
        }
        for l in lines {
            writeln!(w, "{}", l).unwrap();
        }
    }
}

impl D {
    fn gen_sections(&self, tier: &str, seed: u64, w: &mut dyn Write) {
        let mut rng = Rng::new(seed ^ 0x68756666);
        let thorough = tier == "thorough";
        let search = tier == "search";
        let shipped = load_freqs();

        // 1. fixed lines
        for l in [
            "repr",
            "tiefreq",
            "c -",
            "c 00010002008000",
            "d 7 b1082a6e00",
            "d 7 b1082a6e",
            "rd 7 b1082a6e",
            "rd 7 b1082a6e00",
            "dv -",
            "d 0 -",
        ] {
            writeln!(w, "{}", l).unwrap();
        }

        // 2. exhaustive hash forms
        writeln!(w, "hc - 0").unwrap();
        writeln!(w, "hc - 1").unwrap();
        writeln!(w, "hd - 0 16").unwrap();
        writeln!(w, "hd - 1 16").unwrap();
        writeln!(w, "hrd - 0 16").unwrap();
        writeln!(w, "hrd - 1 16").unwrap();
        if !search {
            for op in ["hc", "hd", "hrd"] {
                for b in 0..256u32 {
                    if op == "hc" {
                        writeln!(w, "{} {:02x} 1", op, b).unwrap();
                    } else {
                        writeln!(w, "{} {:02x} 1 16", op, b).unwrap();
                    }
                }
            }
        } else {
            for op in ["hc", "hd", "hrd"] {
                for _ in 0..8 {
                    let b = rng.below(256);
                    if op == "hc" {
                        writeln!(w, "{} {:02x} 1", op, b).unwrap();
                    } else {
                        writeln!(w, "{} {:02x} 1 16", op, b).unwrap();
                    }
                }
            }
        }
        if thorough {
            // every 3-byte input: 256 lines of 65536 inputs x 17 capacities
            for b in 0..256u32 {
                writeln!(w, "hd {:02x} 2 16", b).unwrap();
            }
            // samples of length 4
            for _ in 0..256 {
                writeln!(w, "hd {} 1 16", to_hex(&rng.bytes(3))).unwrap();
            }
        } else {
            // samples of length 3
            for _ in 0..(if search { 8 } else { 64 }) {
                writeln!(w, "hd {} 1 16", to_hex(&rng.bytes(2))).unwrap();
            }
        }

        // 3. compressor inputs
        let n = if thorough { 20000 } else if search { 600 } else { 1500 };
        // the model side costs about 30 us per input byte: long inputs are rarer in the quick tier
        let (list_pct, long_pct) = if thorough { (25, 5) } else { (5, 1) };
        for i in 0..n {
            // every boundary length at least once, then random ones
            let len = if i < LENS.len() { LENS[i] } else { gen_len(&mut rng, list_pct, long_pct) };
            let xs = gen_content(&mut rng, len);
            writeln!(w, "c {}", to_hex(&xs)).unwrap();
            if rng.chance(1, 10) && (len <= 512 || rng.chance(1, 10)) {
                for bug in 0..2u32 {
                    let need = comp(&T, &xs, bug == 1).len();
                    let mut caps = vec![0, 1, need.saturating_sub(1), need, need + 1, rng.below(need as u64 + 2) as usize];
                    caps.sort();
                    caps.dedup();
                    for cap in caps {
                        writeln!(w, "ci {} {} {}", bug, cap, to_hex(&xs)).unwrap();
                    }
                }
            }
            if rng.chance(1, 50) {
                writeln!(w, "rc {}", to_hex(&xs)).unwrap();
            }
        }

        // 4. decompressor inputs
        let target = if thorough { 100000 } else if search { 2500 } else { 6000 };
        let long_pct = if thorough { 8 } else { 2 };
        let mut count = 0usize;
        while count < target {
            for s in gen_streams(&mut rng, long_pct) {
                let l = decoded_len(&s);
                let caps: Vec<usize> = if l <= 24 && rng.chance(1, 5) {
                    (0..=l + 2).collect()
                } else {
                    let set = [
                        0,
                        1,
                        l.saturating_sub(1),
                        l,
                        l + 1,
                        l + 2,
                        8 * s.len(),
                        rng.below(l as u64 + 3) as usize,
                    ];
                    let mut v = vec![l];
                    for _ in 0..3 {
                        v.push(*rng.pick(&set));
                    }
                    v.sort();
                    v.dedup();
                    v
                };
                let hex = to_hex(&s);
                for cap in caps {
                    writeln!(w, "d {} {}", cap, hex).unwrap();
                    count += 1;
                    if rng.chance(1, 2) {
                        writeln!(w, "rd {} {}", cap, hex).unwrap();
                    }
                }
                if rng.chance(1, 10) {
                    writeln!(w, "dv {}", hex).unwrap();
                }
            }
        }

        // 5. tables from frequency vectors (last: the model side is slow on these)
        let n = if thorough { 600 } else if search { 30 } else { 60 };
        let mut emitted = 0usize;
        // decoding with tables built from frequency vectors: valid streams, every truncation, zero-byte
        // extensions, capacities 0..L+2 — against the reference built from the same frequencies and
        // the model.  Shapes: EOF (frequency 1) at the bottom of a chain of doubling frequencies, so
        // that its code is long and ends in many zero bits (a truncated stream then still decodes by
        // zero extension, also in the reference); long codes (17..24 bits) in general.
        {
            let n_fqd = if thorough { 400 } else if search { 12 } else { 48 };
            for k in 0..n_fqd {
                let fs: Vec<u32> = if k == 0 {
                    vec![1u32; 256] // all codes 8 or 9 bits: symbols that exactly fill a byte
                } else if k == 1 {
                    vec![7u32; 256]
                } else if k == 2 {
                    (0..256).map(|i| if i < 128 { 1000 } else { 1 }).collect() // 7..10-bit codes
                } else { match k % 6 {
                    0 | 1 | 2 => gen_chain_freqs(&mut rng),
                    3 => gen_freqs(&mut rng, 10, &shipped),
                    4 => gen_freqs(&mut rng, 4, &shipped),
                    _ => gen_freqs(&mut rng, 1, &shipped),
                } };
                let mut items: Vec<String> = vec![];
                if let Ok(h) = catch(|| Huffman::from_frequencies(&fs)) {
                    // symbols with the longest codes, to put them into the streams
                    let reprs = repr_strings(&h);
                    let mut by_len: Vec<usize> = (0..256).collect();
                    by_len.sort_by_key(|&i| std::cmp::Reverse(reprs[i].len()));
                    for round in 0..4 {
                        let n = if round == 0 { 0 } else { rng.below(5) as usize };
                        let xs: Vec<u8> = (0..n)
                            .map(|_| if rng.chance(1, 2) { by_len[rng.below(6) as usize] as u8 } else { rng.next() as u8 })
                            .collect();
                        // (a broken compressor must not take the generator down)
                        let bugf = rng.chance(1, 2);
                        let stream = match catch(|| comp(&h, &xs, bugf)) {
                            Ok(s) => s,
                            Err(_) => rng.bytes(3 * xs.len() + 2),
                        };
                        let l = xs.len();
                        // the full stream at every capacity
                        for cap in 0..=l + 2 {
                            items.push(format!("{}:{}", cap, to_hex(&stream)));
                        }
                        // every truncation
                        for cut in 0..stream.len() {
                            for cap in [l, l + 2, rng.below(l as u64 + 3) as usize] {
                                items.push(format!("{}:{}", cap, to_hex(&stream[..cut])));
                            }
                        }
                        // zero-byte extensions and one garbage extension
                        for z in 1..=3usize {
                            let mut e = stream.clone();
                            e.extend(std::iter::repeat(0u8).take(z));
                            items.push(format!("{}:{}", l, to_hex(&e)));
                        }
                        let mut e = stream.clone();
                        e.extend(rng.bytes(2));
                        items.push(format!("{}:{}", l + 1, to_hex(&e)));
                    }
                    // the empty stream and pure zero bytes (EOF's code may be all zeros)
                    for z in 0..4usize {
                        for cap in [0usize, 1, 5] {
                            items.push(format!("{}:{}", cap, to_hex(&vec![0u8; z])));
                        }
                    }
                } else {
                    items.push("3:00".to_string());
                }
                let line: Vec<String> = fs.iter().map(|x| x.to_string()).collect();
                writeln!(w, "fqd {} {}", line.join(","), items.join(" ")).unwrap();
            }
        }
        // the reference's own tree construction (model of ConstructTree/Setbits_r vs. the real C++):
        // shapes whose reference tree stays shallow
        {
            let n_rfq = if thorough { 300 } else if search { 10 } else { 40 };
            for k in 0..n_rfq {
                let mut fs = match k % 8 {
                    0 => shipped.to_vec(),
                    1 => gen_freqs(&mut rng, 1, &shipped),
                    2 => gen_freqs(&mut rng, 2, &shipped),
                    3 => gen_freqs(&mut rng, 3, &shipped),
                    4 => (0..256).map(|_| 1 + rng.below(3) as u32).collect(),
                    5 => vec![1 + rng.below(3) as u32; 256],
                    _ => (0..256).map(|_| 50 + rng.below(1000) as u32).collect(),
                };
                // for a third: entries that are negative for the C++ (D16b shape)
                // (only on top of frequencies >= 50: a negative partial sum keeps absorbing the next
                // smallest node, small positives would give a chain deeper than 31 = `1 << Depth` UB)
                if k % 3 == 2 && fs.iter().all(|&x| x >= 50) {
                    for _ in 0..1 + rng.below(3) {
                        let i = rng.below(256) as usize;
                        fs[i] = u32::MAX - rng.below(40) as u32;
                    }
                }
                let m = rng.below(20) as usize;
                let xs = if rng.chance(1, 2) { rng.bytes(m) } else { gen_content(&mut rng, m) };
                let line: Vec<String> = fs.iter().map(|x| x.to_string()).collect();
                writeln!(w, "rfq {} {}", line.join(","), to_hex(&xs)).unwrap();
            }
        }
        // one of each fixed shape first
        for kind in [0u64, 12, 5, 6, 9, 13] {
            let fs = gen_freqs(&mut rng, kind, &shipped);
            fq_line(w, &mut rng, &fs);
            emitted += 1;
        }
        for z in [24usize, 25, 26] {
            let fs = gen_zeros_among_large(&mut rng, z);
            fq_line(w, &mut rng, &fs);
            emitted += 1;
        }
        // wrong number of frequencies: the documented assertion, `panic` on both sides
        fq_line(w, &mut rng, &shipped[..255]);
        emitted += 1;
        while emitted < n {
            let kind = rng.below(FQ_KINDS);
            // the constant shapes were emitted above; draw them rarely
            if (kind == 0 || kind == 5 || kind == 6 || kind == 12) && !rng.chance(1, 8) {
                continue;
            }
            // shapes that always run into D16: keep some, not half of the lines
            if (kind == 9 || kind == 13) && !rng.chance(1, 3) {
                continue;
            }
            let fs = gen_freqs(&mut rng, kind, &shipped);
            fq_line(w, &mut rng, &fs);
            emitted += 1;
        }
    }
}
