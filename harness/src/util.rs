//! Shared glue for all harness domains: hex, FNV-1a, SplitMix64, panic capture, oracle log.
#![allow(dead_code)]

use std::cell::RefCell;
use std::collections::BTreeMap;
use std::panic;

pub fn to_hex(bs: &[u8]) -> String {
    if bs.is_empty() {
        return "-".to_string();
    }
    let mut s = String::with_capacity(bs.len() * 2);
    for b in bs {
        s.push_str(&format!("{:02x}", b));
    }
    s
}

pub fn parse_hex(s: &str) -> Option<Vec<u8>> {
    if s == "-" {
        return Some(vec![]);
    }
    if s.len() % 2 != 0 {
        return None;
    }
    let b = s.as_bytes();
    let mut out = Vec::with_capacity(s.len() / 2);
    for i in (0..b.len()).step_by(2) {
        let h = (b[i] as char).to_digit(16)?;
        let l = (b[i + 1] as char).to_digit(16)?;
        out.push((h * 16 + l) as u8);
    }
    Some(out)
}

pub fn list_str<I: IntoIterator<Item = String>>(xs: I) -> String {
    let v: Vec<String> = xs.into_iter().collect();
    if v.is_empty() {
        "-".to_string()
    } else {
        v.join(",")
    }
}

pub const FNV_OFFSET: u64 = 0xcbf29ce484222325;
pub const FNV_PRIME: u64 = 0x100000001b3;

#[inline]
pub fn fnv_byte(h: u64, b: u8) -> u64 {
    (h ^ b as u64).wrapping_mul(FNV_PRIME)
}
pub fn fnv_bytes(mut h: u64, bs: &[u8]) -> u64 {
    for &b in bs {
        h = fnv_byte(h, b);
    }
    h
}

/// SplitMix64: the single source of randomness (seeded from VERIF_SEED by the check script).
#[derive(Clone)]
pub struct Rng(pub u64);

impl Rng {
    pub fn new(seed: u64) -> Rng {
        Rng(seed)
    }
    pub fn next(&mut self) -> u64 {
        self.0 = self.0.wrapping_add(0x9e3779b97f4a7c15);
        let mut z = self.0;
        z = (z ^ (z >> 30)).wrapping_mul(0xbf58476d1ce4e5b9);
        z = (z ^ (z >> 27)).wrapping_mul(0x94d049bb133111eb);
        z ^ (z >> 31)
    }
    /// uniform in 0..n (n > 0)
    pub fn below(&mut self, n: u64) -> u64 {
        self.next() % n
    }
    pub fn range(&mut self, lo: i64, hi: i64) -> i64 {
        lo + (self.next() % ((hi - lo + 1) as u64)) as i64
    }
    pub fn chance(&mut self, num: u64, den: u64) -> bool {
        self.below(den) < num
    }
    pub fn pick<'a, T>(&mut self, xs: &'a [T]) -> &'a T {
        &xs[self.below(xs.len() as u64) as usize]
    }
    pub fn bytes(&mut self, n: usize) -> Vec<u8> {
        (0..n).map(|_| self.next() as u8).collect()
    }
    pub fn fork(&mut self) -> Rng {
        Rng(self.next())
    }
}

thread_local! {
    static LAST_PANIC: RefCell<Option<String>> = RefCell::new(None);
}

pub fn install_panic_hook() {
    panic::set_hook(Box::new(|info| {
        let msg = if let Some(s) = info.payload().downcast_ref::<&str>() {
            s.to_string()
        } else if let Some(s) = info.payload().downcast_ref::<String>() {
            s.clone()
        } else {
            "?".to_string()
        };
        let loc = info
            .location()
            .map(|l| format!("{}:{}", l.file(), l.line()))
            .unwrap_or_default();
        LAST_PANIC.with(|p| *p.borrow_mut() = Some(format!("{} @ {}", msg, loc)));
    }));
}

/// Runs `f`, mapping a Rust panic to `Err(message @ location)`.
pub fn catch<T, F: FnOnce() -> T>(f: F) -> Result<T, String> {
    match panic::catch_unwind(panic::AssertUnwindSafe(f)) {
        Ok(v) => Ok(v),
        Err(_) => Err(LAST_PANIC
            .with(|p| p.borrow_mut().take())
            .unwrap_or_else(|| "?".to_string())),
    }
}

/// Collects failures of the property oracle (the property evaluated directly on the
/// implementation, independently of the Lean model) and free-form counters.
pub struct Oracle {
    pub line_no: usize,
    pub fails: Vec<(usize, String, String)>,
    pub counters: BTreeMap<String, u64>,
}

impl Oracle {
    pub fn new() -> Oracle {
        Oracle {
            line_no: 0,
            fails: vec![],
            counters: BTreeMap::new(),
        }
    }
    /// `tag`: stable identifier of the failure class (matched by known_findings.json);
    /// `msg`: free text.
    pub fn fail(&mut self, tag: &str, msg: String) {
        self.fails.push((self.line_no, tag.to_string(), msg));
    }
    pub fn count(&mut self, key: &str) {
        *self.counters.entry(key.to_string()).or_insert(0) += 1;
    }
    pub fn add(&mut self, key: &str, n: u64) {
        *self.counters.entry(key.to_string()).or_insert(0) += n;
    }
}

pub trait Runner {
    /// Executes one request against the implementation and returns the canonical output line.
    fn run(&mut self, toks: &[&str], oracle: &mut Oracle) -> String;
}

pub trait Domain {
    /// Writes request lines (one per line) for the tier (`quick`, `thorough`, `search`).
    fn gen(&self, tier: &str, seed: u64, out: &mut dyn std::io::Write);
    fn runner(&self) -> Box<dyn Runner>;
}
