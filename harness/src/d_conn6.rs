//! Domain `conn6`: `net/src/connection.rs` (0.6 / DDNet connection, with and without token).
//! Properties C01–C04.  Shared world / runner / generator: `conn_world.inc.rs`.
use crate::util::*;
use libtw2_net::connection as cx;
use libtw2_net::protocol as px;
use libtw2_net::Timestamp;

include!("conn_world.inc.rs");

/// parses per feed line: token hint `None`, `Some(false)`, `Some(true)`
pub const NP: usize = 3;
const HINTS: [Option<bool>; 3] = [None, Some(false), Some(true)];
const IS7: bool = false;

fn opt_tok_str(t: &Option<px::Token>) -> String {
    match t {
        None => "-".to_string(),
        Some(t) => tok_str(&t.0),
    }
}

fn parse_with(bytes: &[u8], hint: Option<bool>) -> Parsed {
    let mut ws: Vec<px::Warning> = vec![];
    let mut buf = [0u8; 4096];
    let mut p = Parsed { text: "err".to_string(), clean: false, chunks: None, token: None, connected: false, connless: false, err: true, warns: String::new() };
    let r = px::Packet::read(&mut ws, bytes, hint, &mut buf[..]);
    match r {
        Err(_) => {}
        Ok(px::Packet::Connless(d)) => {
            p.err = false;
            p.connless = true;
            p.text = format!("cl:{}", to_hex(d));
        }
        Ok(px::Packet::Connected(c)) => {
            p.err = false;
            p.connected = true;
            p.token = c.token.map(|t| t.0);
            match c.type_ {
                px::ConnectedPacketType::Control(ctl) => {
                    let k = match ctl {
                        px::ControlPacket::KeepAlive => "ka".to_string(),
                        px::ControlPacket::Connect => "co".to_string(),
                        px::ControlPacket::ConnectAccept => "ca".to_string(),
                        px::ControlPacket::Accept => "ac".to_string(),
                        px::ControlPacket::Close(r) => format!("cx.{}", to_hex(r)),
                    };
                    p.text = format!("ct:{}:{}:{}", c.ack, opt_tok_str(&c.token), k);
                }
                px::ConnectedPacketType::Chunks(rr, n, payload) => {
                    let mut it = px::ChunksIter::new(payload, n);
                    let mut cs = vec![];
                    while let Some(ch) = it.next_warn(&mut ws) {
                        cs.push(PChunk { vital: ch.vital, data: ch.data.to_vec() });
                    }
                    p.text = format!("ch:{}:{}:{}:{}:{}", c.ack, opt_tok_str(&c.token), if rr { 1 } else { 0 }, n, chunks_str(&cs));
                    p.chunks = Some((n, cs));
                }
            }
        }
    }
    p.clean = !p.err && ws.is_empty();
    p.warns = format!("{:?}", ws);
    p
}

pub fn parse_dg(bytes: &[u8], k: usize) -> Parsed {
    parse_with(bytes, HINTS[k])
}

/// Canonical form of a datagram the connection sent.  The reader needs to know whether the
/// connection uses a token; a datagram written by the library with a token never parses cleanly as
/// token-less (the four extra bytes are flagged), so: token-less if that is clean, else with token.
pub fn parse_sent(bytes: &[u8]) -> Parsed {
    let a = parse_with(bytes, Some(false));
    if a.clean {
        return a;
    }
    let b = parse_with(bytes, Some(true));
    if b.clean {
        return b;
    }
    let c = parse_with(bytes, None);
    if !c.err {
        c
    } else if !b.err {
        b
    } else {
        a
    }
}

fn warn_name(w: &cx::Warning) -> Option<&'static str> {
    match w {
        cx::Warning::Packet(_) => None,
        cx::Warning::Read(_) => Some("read"),
        cx::Warning::TokenMismatch => Some("tokmis"),
        cx::Warning::Unexpected => Some("unexpected"),
    }
}

/// C03: the endpoint has fixed a token and the datagram (read the way the connection reads it) is
/// a read error or a connected packet with a different / no token.
fn must_be_inert(fp: &str, bytes: &[u8]) -> bool {
    let kind = fp_kind(fp);
    if kind != "Pending" && kind != "Online" {
        return false;
    }
    let t = match fp_tok_after(fp, "token: Some(") {
        Some(t) => t,
        None => return false,
    };
    let p = parse_with(bytes, Some(true));
    p.err || (p.connected && p.token != Some(t))
}

/// 0.6: the token an *acceptor* generated (state `Pending`/`Online` of a side that did not connect) is
/// neither `TOKEN_NONE` nor `TOKEN_RESERVED`
fn reserved_own_token(fp: &str, connector: bool) -> Option<String> {
    if connector {
        return None;
    }
    let kind = fp_kind(fp);
    if kind != "Pending" && kind != "Online" {
        return None;
    }
    let t = fp_tok_after(fp, "token: Some(")?;
    if t == [0xff; 4] || t == [0; 4] {
        Some(tok_str(&t))
    } else {
        None
    }
}

/// the acceptor's `ConnectAccept` carries the token it hands out
fn reserved_wire_token(text: &str, connector: bool) -> Option<String> {
    if connector {
        return None;
    }
    for bad in ["ffffffff", "00000000"] {
        if text == format!("ct:0:{}:ca", bad) {
            return Some(bad.to_string());
        }
    }
    None
}

const RESERVED_DRAWS: &[&str] = &["ffffffff,0a0b0c0d", "00000000,0a0b0c0d", "ffffffff,00000000,ffffffff,0a0b0c0d", "00000000,00000000,11223344"];

fn new_accept(cb: &mut Cb, t: [u8; 4]) -> Option<cx::Connection> {
    Some(cx::Connection::new_accept_token(cb, px::Token(t)))
}

fn connect_draws_ok(_d: &VecDeque<[u8; 4]>) -> bool {
    true
}

fn disconnect_permitted(_kind: &str) -> bool {
    true
}

const CONNECT_TOKEN: &[u8] = b"\x10\x00\x00\x01TKEN\xff\xff\xff\xff";
const CONNECT_PLAIN: &[u8] = b"\x10\x00\x00\x01";

/// the one outside datagram a "pure" session may contain: the client's connect request with the
/// token extension stripped (what a vanilla 0.6 client sends)
fn is_pure_feed(bytes: &[u8]) -> bool {
    bytes == CONNECT_PLAIN
}

fn strip_connect_token(bytes: &[u8]) -> Option<Vec<u8>> {
    if bytes == CONNECT_TOKEN {
        Some(CONNECT_PLAIN.to_vec())
    } else {
        None
    }
}

fn is_accept_text(t: &str) -> bool {
    t.starts_with("ct:") && t.ends_with(":ca")
}

/// payload sizes around every limit of the 0.6 code path
const SIZES: &[usize] = &[0, 0, 1, 1, 2, 3, 15, 16, 17, 63, 64, 65, 200, 400, 700, 1019, 1020, 1021, 1022, 1023];
const SIZES_EDGE: &[usize] = &[1023, 1024, 1025, 1386, 1387, 1388, 1389, 1390, 1391, 1392, 1400, 2047, 2048, 2049];

fn write_packet(p: &px::Packet) -> Option<Vec<u8>> {
    let mut buf = [0u8; 2048];
    catch(|| p.write(&mut buf[..]).ok().map(|b| b.to_vec())).ok().flatten()
}

fn build_chunks(cs: &[(Option<(u16, bool)>, Vec<u8>)]) -> Vec<u8> {
    let mut v: Vec<u8> = Vec::with_capacity(8192);
    for (vital, data) in cs {
        let _ = px::write_chunk(data, *vital, &mut v);
    }
    v
}

/// A datagram of a random kind carrying `token` (None = no token), with "tempting" field values
/// (`seq` = the sequence number the receiver waits for).
fn crafted(rng: &mut Rng, token: Option<[u8; 4]>, seq: u16, ackh: u16) -> Vec<u8> {
    let token = token.map(px::Token);
    // "tempting" ack: the sequence number of the victim's newest unacknowledged chunk
    let ack = match rng.below(4) {
        0 => 0,
        1 => rng.below(1024) as u16,
        _ => ackh,
    };
    let reason: Vec<u8> = (0..rng.below(6)).map(|_| 1 + rng.below(255) as u8).collect();
    let chunk_payload;
    let type_ = match rng.below(8) {
        0 => px::ConnectedPacketType::Control(px::ControlPacket::KeepAlive),
        1 => px::ConnectedPacketType::Control(px::ControlPacket::Connect),
        2 => px::ConnectedPacketType::Control(px::ControlPacket::ConnectAccept),
        3 => px::ConnectedPacketType::Control(px::ControlPacket::Accept),
        4 => px::ConnectedPacketType::Control(px::ControlPacket::Close(&reason)),
        _ => {
            let n = rng.below(4) as usize;
            let mut cs = vec![];
            let mut s = seq;
            for _ in 0..n {
                let data = { let n = rng.below(20) as usize; rng.bytes(n) };
                if rng.chance(2, 3) {
                    cs.push((Some((s, rng.chance(1, 3))), data));
                    if rng.chance(3, 4) {
                        s = (s + 1) % 1024;
                    }
                } else {
                    cs.push((None, data));
                }
            }
            chunk_payload = build_chunks(&cs);
            px::ConnectedPacketType::Chunks(rng.chance(1, 3), n as u8, &chunk_payload)
        }
    };
    write_packet(&px::Packet::Connected(px::ConnectedPacket { ack, token, type_ })).unwrap_or_default()
}

/// the agreed token of an endpoint, read from what it last sent
fn wire_token(e: &Ep) -> Option<[u8; 4]> {
    e.hist.iter().rev().map(|d| parse_sent(&d.bytes)).find(|p| p.connected).and_then(|p| p.token)
}

/// foreign-datagram stream for C03: every packet kind with a token at Hamming distance 1, 2 and
/// random from the agreed one or none at all; genuine datagrams truncated / bit-flipped; random bytes
fn foreign(g: &mut Gen, to: usize) -> Vec<u8> {
    let agreed = wire_token(&g.w.eps[to]);
    let seq = ((g.w.eps[to].del_vital.len() + 1) % 1024) as u16;
    let ackh = (g.w.eps[to].sub_vital.len() % 1024) as u16;
    let mode = g.rng.below(10);
    let genuine: Option<Vec<u8>> = {
        let h = &g.w.eps[1 - to].hist;
        if h.is_empty() {
            None
        } else {
            Some(h[g.rng.below(h.len() as u64) as usize].bytes.clone())
        }
    };
    match mode {
        0..=4 => {
            let tok = match (agreed, g.rng.below(5)) {
                (_, 0) => None,
                (Some(t), 1) => {
                    let mut t = t;
                    t[g.rng.below(4) as usize] ^= 1 << g.rng.below(8);
                    Some(t)
                }
                (Some(t), 2) => {
                    let mut t = t;
                    t[g.rng.below(4) as usize] ^= 1 << g.rng.below(8);
                    t[g.rng.below(4) as usize] ^= 1 << g.rng.below(8);
                    Some(t)
                }
                (_, 3) => Some([0xff; 4]),
                _ => Some([g.rng.next() as u8, g.rng.next() as u8, g.rng.next() as u8, g.rng.next() as u8]),
            };
            crafted(&mut g.rng, tok, seq, ackh)
        }
        5 | 6 => match genuine {
            // genuine datagram of the peer with one bit of its last four bytes flipped (the token
            // when uncompressed) or truncated
            Some(mut b) if !b.is_empty() => {
                if g.rng.chance(1, 2) {
                    let n = b.len();
                    let i = n - 1 - g.rng.below(4.min(n as u64)) as usize;
                    b[i] ^= 1 << g.rng.below(8);
                } else {
                    let cut = g.rng.below(b.len() as u64) as usize;
                    b.truncate(cut);
                }
                b
            }
            _ => crafted(&mut g.rng, None, seq, ackh),
        },
        7 => {
            // connless and oversized
            if g.rng.chance(1, 2) {
                let mut b = vec![0xff; 6];
                b.extend({ let n = g.rng.below(30) as usize; g.rng.bytes(n) });
                b
            } else {
                { let n = 1401 + g.rng.below(10) as usize; g.rng.bytes(n) }
            }
        }
        8 => {
            // compressed-flag garbage
            let mut b = vec![0x80 | (g.rng.next() as u8 & 0x43), g.rng.next() as u8, g.rng.next() as u8];
            b.extend({ let n = g.rng.below(40) as usize; g.rng.bytes(n) });
            b
        }
        _ => { let n = g.rng.below(24) as usize; g.rng.bytes(n) },
    }
}

include!("conn_gen.inc.rs");

pub struct D;

pub fn domain() -> Box<dyn Domain> {
    Box::new(D)
}

impl Domain for D {
    fn gen(&self, tier: &str, seed: u64, out: &mut dyn std::io::Write) {
        gen_all(tier, seed, out);
    }
    fn runner(&self) -> Box<dyn Runner> {
        Box::new(R { w: World::new() })
    }
}
