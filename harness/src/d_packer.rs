//! Domain `packer`: `packer/src/lib.rs` (varints, Packer, Unpacker, string helpers).  Property C08.
use crate::util::*;
use libtw2_packer::with_packer;
use libtw2_packer::Unpacker;
use libtw2_packer::Warning;
use std::io::Write;

pub struct D;

pub fn domain() -> Box<dyn Domain> {
    Box::new(D)
}

fn wname(w: &Warning) -> String {
    match w {
        Warning::OverlongIntEncoding => "OverlongIntEncoding",
        Warning::NonZeroIntPadding => "NonZeroIntPadding",
        Warning::ExcessData => "ExcessData",
    }
    .to_string()
}
fn wcode(w: &Warning) -> u8 {
    match w {
        Warning::OverlongIntEncoding => 1,
        Warning::NonZeroIntPadding => 2,
        Warning::ExcessData => 3,
    }
}

fn write_int(v: i32) -> Vec<u8> {
    let mut buf = [0u8; 16];
    let w = with_packer(&mut buf[..], |mut p| {
        p.write_int(v).unwrap();
        p.written()
    });
    w.to_vec()
}

/// (value, remaining length, warnings)
fn read_int(bs: &[u8]) -> Option<(i32, usize, Vec<Warning>)> {
    let mut ws = vec![];
    let mut u = Unpacker::new(bs);
    match u.read_int(&mut ws) {
        Ok(v) => Some((v, u.as_slice().len(), ws)),
        Err(_) => None,
    }
}

fn hash_read(mut h: u64, bs: &[u8], o: &mut Oracle, check: bool) -> u64 {
    let r = read_int(bs);
    if check {
        oracle_read(bs, &r, o);
    }
    match r {
        None => fnv_byte(h, 0),
        Some((v, rest, ws)) => {
            h = fnv_byte(h, 1);
            h = fnv_bytes(h, &(v as u32).to_le_bytes());
            h = fnv_byte(h, rest as u8);
            for w in &ws {
                h = fnv_byte(h, wcode(w));
            }
            fnv_byte(h, 0xfe)
        }
    }
}

/// The C08 statements about decoding, evaluated on the implementation for one byte string.
fn oracle_read(bs: &[u8], r: &Option<(i32, usize, Vec<Warning>)>, o: &mut Oracle) {
    match r {
        None => {
            // fails only because the string ends too early
            if !(bs.len() < 5 && bs.iter().all(|&b| b >= 128)) {
                o.fail("C08/read-int-fails-not-truncated", format!("bytes={}", to_hex(bs)));
            }
        }
        Some((v, rest, ws)) => {
            let consumed = &bs[..bs.len() - rest];
            let canon = write_int(*v);
            if ws.is_empty() != (consumed == &canon[..]) {
                o.fail(
                    "C08/read-int-warning-iff-noncanonical",
                    format!("bytes={} value={} canon={} warnings={}", to_hex(consumed), v, to_hex(&canon), ws.len()),
                );
            }
            if canon.len() > consumed.len() {
                o.fail("C08/write-int-not-shortest", format!("bytes={} value={}", to_hex(consumed), v));
            }
            // documented value for zero padding bits (doc/int.md): sign fold of the digits
            if consumed.len() < 5 || consumed[4] & 0xf0 == 0 {
                let mut mag: u64 = (consumed[0] & 0x3f) as u64;
                for (i, b) in consumed[1..].iter().enumerate() {
                    mag |= ((b & 0x7f) as u64) << (6 + 7 * i);
                }
                let neg = consumed[0] & 0x40 != 0;
                let doc: i64 = if neg { -(mag as i64) - 1 } else { mag as i64 };
                if doc != *v as i64 {
                    o.fail("C08/read-int-not-documented-value", format!("bytes={} value={} doc={}", to_hex(consumed), v, doc));
                }
            }
        }
    }
}

fn oracle_int(v: i32, bs: &[u8], o: &mut Oracle) {
    if bs.is_empty() || bs.len() > 5 {
        o.fail("C08/write-int-length", format!("v={} bytes={}", v, to_hex(bs)));
    }
    match read_int(bs) {
        Some((v2, 0, ws)) if v2 == v && ws.is_empty() => {}
        other => o.fail("C08/int-roundtrip", format!("v={} bytes={} read={:?}", v, to_hex(bs), other.map(|x| (x.0, x.1, x.2.len())))),
    }
}

#[derive(Clone, Debug)]
enum Field {
    Int(i32),
    Str(Vec<u8>),
    Data(Vec<u8>),
    Raw(Vec<u8>),
}

fn parse_field(s: &str) -> Option<Field> {
    let (k, v) = s.split_once(':')?;
    Some(match k {
        "i" => Field::Int(v.parse().ok()?),
        "s" => Field::Str(parse_hex(v)?),
        "d" => Field::Data(parse_hex(v)?),
        "r" => Field::Raw(parse_hex(v)?),
        _ => return None,
    })
}

fn field_len(f: &Field) -> usize {
    match f {
        Field::Int(v) => write_int(*v).len(),
        Field::Str(s) => s.len() + 1,
        Field::Data(d) => write_int(d.len() as i32).len() + d.len(),
        Field::Raw(d) => d.len(),
    }
}

struct R;

impl Runner for R {
    fn run(&mut self, t: &[&str], o: &mut Oracle) -> String {
        match t {
            ["wi", v] => {
                let v: i32 = v.parse().unwrap();
                let bs = write_int(v);
                oracle_int(v, &bs, o);
                to_hex(&bs)
            }
            ["ri", h] => {
                let bs = parse_hex(h).unwrap();
                let r = read_int(&bs);
                oracle_read(&bs, &r, o);
                match r {
                    None => "err".to_string(),
                    Some((v, rest, ws)) => format!(
                        "ok {} {} {}",
                        v,
                        to_hex(&bs[bs.len() - rest..]),
                        list_str(ws.iter().map(wname))
                    ),
                }
            }
            ["hashrange_wi", lo, hi] => {
                let lo: i64 = lo.parse().unwrap();
                let hi: i64 = hi.parse().unwrap();
                let mut h = FNV_OFFSET;
                for v in lo..hi {
                    let v = v as i32;
                    let bs = write_int(v);
                    h = fnv_bytes(h, &bs);
                    h = fnv_byte(h, 0xff);
                    // oracle (inlined for speed)
                    match read_int(&bs) {
                        Some((v2, 0, ref ws)) if v2 == v && ws.is_empty() && bs.len() <= 5 => {}
                        _ => oracle_int(v, &bs, o),
                    }
                    h = hash_read(h, &bs, o, false);
                }
                o.add("ints_swept", (hi - lo).max(0) as u64);
                format!("h {}", h)
            }
            ["hash_ri_len", n] => {
                let n: u32 = n.parse().unwrap();
                let mut h = FNV_OFFSET;
                let total = 256u64.pow(n);
                let mut bs = vec![0u8; n as usize];
                for k in 0..total {
                    for j in 0..n as usize {
                        bs[j] = (k / 256u64.pow(n - 1 - j as u32)) as u8;
                    }
                    h = hash_read(h, &bs, o, true);
                }
                o.add("strings_swept", total);
                format!("h {}", h)
            }
            ["hash_ri_sweep5", m] => {
                let m = parse_hex(m).unwrap();
                let mut h = FNV_OFFSET;
                for a in 0..256u32 {
                    for e in 0..256u32 {
                        let bs = [a as u8, m[0], m[1], m[2], e as u8];
                        h = hash_read(h, &bs, o, true);
                    }
                }
                o.add("strings_swept", 65536);
                format!("h {}", h)
            }
            ["pack", cap, fields @ ..] => {
                let cap: usize = cap.parse().unwrap();
                let fs: Vec<Field> = fields.iter().map(|f| parse_field(f).unwrap()).collect();
                let mut buf = vec![0xaau8; cap];
                let r = catch(|| {
                    with_packer(&mut buf[..], |mut p| {
                        let mut ok = true;
                        for f in &fs {
                            let r = match f {
                                Field::Int(v) => p.write_int(*v),
                                Field::Str(s) => p.write_string(s),
                                Field::Data(d) => p.write_data(d),
                                Field::Raw(d) => p.write_raw(d),
                            };
                            if r.is_err() {
                                ok = false;
                                break;
                            }
                        }
                        (ok, p.written().to_vec())
                    })
                });
                match r {
                    Err(_) => "panic".to_string(),
                    Ok((ok, written)) => {
                        // oracle: ok iff everything fits; round trip; on error the fitting prefix
                        let total: usize = fs.iter().map(field_len).sum();
                        if ok != (total <= cap) {
                            o.fail("C08/pack-ok-iff-fits", format!("cap={} total={} ok={}", cap, total, ok));
                        }
                        if written.len() > cap {
                            o.fail("C08/pack-overrun", format!("cap={} written={}", cap, written.len()));
                        }
                        if ok {
                            let mut u = Unpacker::new(&written);
                            let mut ws: Vec<Warning> = vec![];
                            for f in &fs {
                                let good = match f {
                                    Field::Int(v) => u.read_int(&mut ws).ok() == Some(*v),
                                    Field::Str(s) => u.read_string().ok() == Some(&s[..]),
                                    Field::Data(d) => u.read_data(&mut ws).ok() == Some(&d[..]),
                                    Field::Raw(d) => u.read_raw(d.len()).ok() == Some(&d[..]),
                                };
                                if !good {
                                    o.fail("C08/pack-unpack-roundtrip", format!("field={:?} bytes={}", f, to_hex(&written)));
                                    break;
                                }
                            }
                            if !ws.is_empty() || !u.as_slice().is_empty() {
                                o.fail("C08/pack-unpack-roundtrip", format!("warnings/leftover bytes={}", to_hex(&written)));
                            }
                        } else {
                            // the prefix property: what was written is a prefix of the full encoding
                            let mut big = vec![0u8; total + 8];
                            let full = with_packer(&mut big[..], |mut p| {
                                for f in &fs {
                                    match f {
                                        Field::Int(v) => p.write_int(*v).unwrap(),
                                        Field::Str(s) => p.write_string(s).unwrap(),
                                        Field::Data(d) => p.write_data(d).unwrap(),
                                        Field::Raw(d) => p.write_raw(d).unwrap(),
                                    }
                                }
                                p.written().to_vec()
                            });
                            if !full.starts_with(&written) {
                                o.fail("C08/pack-error-prefix", format!("written={} full={}", to_hex(&written), to_hex(&full)));
                            }
                        }
                        format!("{} {}", if ok { "ok" } else { "capacity" }, to_hex(&written))
                    }
                }
            }
            ["unpack", mode, h, kinds @ ..] => {
                let bs = parse_hex(h).unwrap();
                let demo = *mode == "demo";
                let r = catch(|| {
                    let mut u = if demo { Unpacker::new_from_demo(&bs) } else { Unpacker::new(&bs) };
                    let mut ws: Vec<Warning> = vec![];
                    let mut vals: Vec<String> = vec![];
                    let mut ok = true;
                    for k in kinds {
                        let before = u.as_slice().len();
                        let r: Result<String, ()> = if *k == "i" {
                            u.read_int(&mut ws).map(|v| format!("i:{}", v)).map_err(|_| ())
                        } else if *k == "s" {
                            let r = u.read_string();
                            if let Ok(st) = r {
                                // a string that was read is NUL-free, lies inside the input and is
                                // followed by its terminator there
                                let base = bs.as_ptr() as usize;
                                let sp = st.as_ptr() as usize;
                                let inside = sp >= base && sp + st.len() < base + bs.len() + 1;
                                let term = inside && sp + st.len() < base + bs.len() && bs[sp - base + st.len()] == 0;
                                if st.contains(&0) || !term {
                                    o.fail("C08/read-string-termination", format!("bytes={} string={}", to_hex(&bs), to_hex(st)));
                                }
                            }
                            r.map(|s| format!("b:{}", to_hex(s))).map_err(|_| ())
                        } else if *k == "d" {
                            u.read_data(&mut ws).map(|s| format!("b:{}", to_hex(s))).map_err(|_| ())
                        } else if *k == "t" {
                            u.read_rest().map(|s| format!("b:{}", to_hex(s))).map_err(|_| ())
                        } else if let Some(n) = k.strip_prefix("r:") {
                            u.read_raw(n.parse().unwrap()).map(|s| format!("b:{}", to_hex(s))).map_err(|_| ())
                        } else {
                            panic!("bad kind")
                        };
                        if u.as_slice().len() > before {
                            o.fail("C08/unpack-grows", format!("bytes={}", to_hex(&bs)));
                        }
                        // reading never runs past what was written: the remaining input is a
                        // suffix of the input (checked on addresses, not only on lengths)
                        {
                            let rest = u.as_slice();
                            let base = bs.as_ptr() as usize;
                            let rp = rest.as_ptr() as usize;
                            if !(rp >= base && rp + rest.len() == base + bs.len()) {
                                o.fail("C08/unpack-rest-not-a-suffix", format!("bytes={} kind={}", to_hex(&bs), k));
                            }
                        }
                        match r {
                            Ok(v) => vals.push(v),
                            Err(()) => {
                                // a failed read poisons the unpacker: nothing is left to read,
                                // everything counts as consumed and every later read fails too
                                // (otherwise later fields would be taken from inside a broken one)
                                let mut w2: Vec<Warning> = vec![];
                                if !u.as_slice().is_empty()
                                    || !u.is_empty()
                                    || u.num_bytes_read() != bs.len()
                                    || u.read_int(&mut w2).is_ok()
                                    || u.read_raw(1).is_ok()
                                    || u.read_string().is_ok()
                                {
                                    o.fail("C08/not-poisoned-after-error", format!("bytes={} failed kind={} left={}", to_hex(&bs), k, to_hex(u.as_slice())));
                                }
                                ok = false;
                                break;
                            }
                        }
                    }
                    let rest = u.as_slice().to_vec();
                    let mut ex: Vec<libtw2_packer::ExcessData> = vec![];
                    u.finish(&mut ex);
                    // `finish`: plain mode warns iff something is left; demo mode iff at least four
                    // bytes or a non-zero byte are left
                    let want = if demo { rest.len() >= 4 || rest.iter().any(|&b| b != 0) } else { !rest.is_empty() };
                    if want == ex.is_empty() {
                        o.fail("C08/finish-excess-rule", format!("mode={} rest={} warned={}", mode, to_hex(&rest), !ex.is_empty()));
                    }
                    (ok, vals, rest, ws, !ex.is_empty())
                });
                match r {
                    Err(_) => "panic".to_string(),
                    Ok((ok, vals, rest, ws, fw)) => format!(
                        "{} {} {} {} {}",
                        if ok { "ok" } else { "err" },
                        list_str(vals),
                        to_hex(&rest),
                        list_str(ws.iter().map(wname)),
                        if fw { "excess" } else { "clean" }
                    ),
                }
            }
            ["s2i", n, h] => {
                let n: usize = n.parse().unwrap();
                let s = parse_hex(h).unwrap();
                let r = catch(|| {
                    let mut out = vec![0i32; n];
                    libtw2_packer::string_to_ints(&mut out, &s);
                    out
                });
                match r {
                    Err(_) => "panic".to_string(),
                    Ok(v) => list_str(v.iter().map(|x| x.to_string())),
                }
            }
            ["b2s", h] => {
                let bs = parse_hex(h).unwrap();
                let mut ws: Vec<libtw2_packer::WeirdStringTermination> = vec![];
                let s = libtw2_packer::bytes_to_string(&mut ws, &bs);
                format!("{} {}", to_hex(s), if ws.is_empty() { "clean" } else { "weird" })
            }
            _ => "bad-op".to_string(),
        }
    }
}

const BOUNDARY: &[i64] = &[
    0, 1, 2, 62, 63, 64, 65, 127, 128, 8190, 8191, 8192, 8193, 1048575, 1048576, 1048577, 134217727, 134217728,
    134217729, 2147483646, 2147483647,
];

fn gen_field(rng: &mut Rng) -> String {
    match rng.below(4) {
        0 => {
            let v: i64 = if rng.chance(1, 2) {
                let b = *rng.pick(BOUNDARY);
                if rng.chance(1, 2) { b } else { -b - 1 }
            } else {
                rng.next() as i32 as i64
            };
            format!("i:{}", v)
        }
        1 => {
            let n = rng.below(12) as usize;
            let s: Vec<u8> = (0..n).map(|_| 1 + rng.below(255) as u8).collect();
            format!("s:{}", to_hex(&s))
        }
        2 => {
            let n = *rng.pick(&[0usize, 1, 2, 5, 63, 64, 65, 200]);
            format!("d:{}", to_hex(&rng.bytes(n)))
        }
        _ => {
            let n = rng.below(9) as usize;
            format!("r:{}", to_hex(&rng.bytes(n)))
        }
    }
}

impl Domain for D {
    fn runner(&self) -> Box<dyn Runner> {
        Box::new(R)
    }
    fn gen(&self, tier: &str, seed: u64, w: &mut dyn Write) {
        let mut rng = Rng::new(seed ^ 0x7061636b);
        let thorough = tier == "thorough";
        // boundary integers
        for &b in BOUNDARY {
            writeln!(w, "wi {}", b).unwrap();
            writeln!(w, "wi {}", -b - 1).unwrap();
        }
        let n = if thorough { 20000 } else { 2000 };
        for _ in 0..n {
            writeln!(w, "wi {}", rng.next() as i32).unwrap();
        }
        // swept integer ranges (hash form)
        if thorough {
            let step: i64 = 1 << 20;
            let mut lo: i64 = -(1 << 31);
            while lo < (1 << 31) {
                writeln!(w, "hashrange_wi {} {}", lo, lo + step).unwrap();
                lo += step;
            }
        } else {
            let half: i64 = 1 << 15;
            for &b in &[0i64, 64, 8192, 1 << 20, 1 << 27, (1 << 31) - half, -64, -8192, -(1 << 20), -(1 << 27), -(1 << 31) + half] {
                let lo = (b - half).max(-(1 << 31));
                let hi = (b + half).min(1 << 31);
                writeln!(w, "hashrange_wi {} {}", lo, hi).unwrap();
            }
        }
        // all short byte strings
        for n in 0..=(if thorough { 3 } else { 2 }) {
            writeln!(w, "hash_ri_len {}", n).unwrap();
        }
        // 5-byte strings: first and last byte swept, middle bytes from boundary patterns
        let pats = [0x00u8, 0x01, 0x7f, 0x80, 0xff];
        for &a in &pats {
            for &b in &pats {
                for &c in &pats {
                    if thorough || rng.chance(1, 8) || (a == 0x80 && b == 0x80 && c == 0x80) {
                        writeln!(w, "hash_ri_sweep5 {}", to_hex(&[a, b, c])).unwrap();
                    }
                }
            }
        }
        // individual decodes: structured (valid encoding + mutation + trailing bytes) and random
        let n = if thorough { 200000 } else { 20000 };
        for _ in 0..n {
            let mut bs = if rng.chance(2, 3) {
                let v = if rng.chance(1, 2) { *rng.pick(BOUNDARY) as i32 } else { rng.next() as i32 };
                let v = if rng.chance(1, 2) { v } else { !v };
                write_int(v)
            } else {
                let n = rng.below(7) as usize;
                rng.bytes(n)
            };
            if !bs.is_empty() && rng.chance(1, 3) {
                let i = rng.below(bs.len() as u64) as usize;
                bs[i] ^= 1 << rng.below(8);
            }
            if rng.chance(1, 4) {
                let k = rng.below(bs.len() as u64 + 1) as usize;
                bs.truncate(k);
            }
            if rng.chance(1, 3) {
                let n = rng.below(4) as usize;
                bs.extend(rng.bytes(n));
            }
            writeln!(w, "ri {}", to_hex(&bs)).unwrap();
        }
        // field sequences into buffers of every capacity around the needed size
        let n = if thorough { 20000 } else { 1500 };
        for _ in 0..n {
            let k = rng.below(6) as usize;
            let fields: Vec<String> = (0..k).map(|_| gen_field(&mut rng)).collect();
            let fs: Vec<Field> = fields.iter().map(|f| parse_field(f).unwrap()).collect();
            let total: usize = fs.iter().map(field_len).sum();
            let caps: Vec<usize> = if rng.chance(1, 10) {
                (0..=total + 1).collect()
            } else {
                vec![total, rng.below(total as u64 + 2) as usize, total + 1]
            };
            for cap in caps {
                writeln!(w, "pack {} {}", cap, fields.join(" ")).unwrap();
            }
            // and the matching unpack (from the real encoding), possibly cut or extended
            let mut big = vec![0u8; total + 8];
            let mut enc = with_packer(&mut big[..], |mut p| {
                for f in &fs {
                    match f {
                        Field::Int(v) => p.write_int(*v).unwrap(),
                        Field::Str(s) => p.write_string(s).unwrap(),
                        Field::Data(d) => p.write_data(d).unwrap(),
                        Field::Raw(d) => p.write_raw(d).unwrap(),
                    }
                }
                p.written().to_vec()
            });
            let kinds: Vec<String> = fs
                .iter()
                .map(|f| match f {
                    Field::Int(_) => "i".to_string(),
                    Field::Str(_) => "s".to_string(),
                    Field::Data(_) => "d".to_string(),
                    Field::Raw(d) => format!("r:{}", d.len()),
                })
                .collect();
            match rng.below(4) {
                0 => {
                    let k = rng.below(enc.len() as u64 + 1) as usize;
                    enc.truncate(k);
                }
                1 => {
                    let n = rng.below(6) as usize;
                    enc.extend(if rng.chance(1, 2) { vec![0u8; n] } else { rng.bytes(n) });
                }
                _ => {}
            }
            let demo = rng.chance(1, 3);
            if demo {
                while enc.len() % 4 != 0 {
                    enc.push(if rng.chance(4, 5) { 0 } else { rng.next() as u8 });
                }
                if rng.chance(1, 10) {
                    enc.push(0); // precondition violation: both sides must panic
                }
            }
            let mut ks = kinds.clone();
            if rng.chance(1, 5) {
                ks.push("t".to_string());
            }
            writeln!(w, "unpack {} {} {}", if demo { "demo" } else { "plain" }, to_hex(&enc), ks.join(" ")).unwrap();
        }
        // systematic: every truncation of some encodings, and demo-mode padding with 0..7 zero
        // bytes / one non-zero byte at each padding position
        let n = if thorough { 2000 } else { 150 };
        for _ in 0..n {
            let k = 1 + rng.below(4) as usize;
            let fields: Vec<String> = (0..k).map(|_| gen_field(&mut rng)).collect();
            let fs: Vec<Field> = fields.iter().map(|f| parse_field(f).unwrap()).collect();
            let total: usize = fs.iter().map(field_len).sum();
            if total > 80 {
                continue;
            }
            let mut big = vec![0u8; total + 8];
            let enc = with_packer(&mut big[..], |mut p| {
                for f in &fs {
                    match f {
                        Field::Int(v) => p.write_int(*v).unwrap(),
                        Field::Str(s) => p.write_string(s).unwrap(),
                        Field::Data(d) => p.write_data(d).unwrap(),
                        Field::Raw(d) => p.write_raw(d).unwrap(),
                    }
                }
                p.written().to_vec()
            });
            let kinds: Vec<String> = fs
                .iter()
                .map(|f| match f {
                    Field::Int(_) => "i".to_string(),
                    Field::Str(_) => "s".to_string(),
                    Field::Data(_) => "d".to_string(),
                    Field::Raw(d) => format!("r:{}", d.len()),
                })
                .collect();
            for cut in 0..=enc.len() {
                writeln!(w, "unpack plain {} {}", to_hex(&enc[..cut]), kinds.join(" ")).unwrap();
            }
            for pad in 0..8usize {
                let mut e = enc.clone();
                e.extend(vec![0u8; pad]);
                if e.len() % 4 == 0 {
                    writeln!(w, "unpack demo {} {}", to_hex(&e), kinds.join(" ")).unwrap();
                    if pad > 0 {
                        let i = enc.len() + rng.below(pad as u64) as usize;
                        e[i] = 1 + rng.below(255) as u8;
                        writeln!(w, "unpack demo {} {}", to_hex(&e), kinds.join(" ")).unwrap();
                    }
                }
            }
        }
        // malformed streams for every read kind: negative / huge / just-too-large length prefixes of
        // `data`, random bytes, followed by further reads (what is left after a failed read is
        // part of the observable behaviour: `as_slice`, later reads, `finish`)
        let lens: [i64; 12] = [-1, -2, -64, -65, -2147483648, 2147483647, 64, 65, 8191, 8192, 1, 0];
        for &l in &lens {
            for tail in [0usize, 1, 3, 70] {
                let mut e = write_int(l as i32);
                e.extend(rng.bytes(tail));
                for follow in ["d", "d i", "d s", "d r:1", "d t", "i d", "s d"] {
                    writeln!(w, "unpack plain {} {}", to_hex(&e), follow).unwrap();
                }
                // exactly one byte short / exact / one byte more than announced
                if l >= 0 && l <= 70 {
                    for delta in [-1i64, 0, 1] {
                        let n = (l + delta).max(0) as usize;
                        let mut e = write_int(l as i32);
                        e.extend(rng.bytes(n));
                        writeln!(w, "unpack plain {} d t", to_hex(&e)).unwrap();
                    }
                }
            }
        }
        let n = if thorough { 20000 } else { 2000 };
        let kinds_pool = ["i", "s", "d", "r:0", "r:1", "r:4", "r:9", "t"];
        for _ in 0..n {
            let len = rng.below(14) as usize;
            let bs = rng.bytes(len);
            let k = 1 + rng.below(4) as usize;
            let ks: Vec<&str> = (0..k).map(|_| *rng.pick(&kinds_pool)).collect();
            writeln!(w, "unpack plain {} {}", to_hex(&bs), ks.join(" ")).unwrap();
        }
        // string helpers: boundary shapes first
        for &k in &[1usize, 3, 4, 6] {
            for len in [0usize, 1, k * 4 - 2, k * 4 - 1, k * 4, k * 4 + 1] {
                for fill in [0x01u8, 0x7f, 0x80, 0xff] {
                    writeln!(w, "s2i {} {}", k, to_hex(&vec![fill; len])).unwrap();
                }
            }
        }
        for len in 0..6usize {
            writeln!(w, "b2s {}", to_hex(&vec![0u8; len])).unwrap();
            writeln!(w, "b2s {}", to_hex(&vec![0x41u8; len])).unwrap();
            let mut v = vec![0x41u8; len];
            v.push(0);
            writeln!(w, "b2s {}", to_hex(&v)).unwrap();
            v.push(0x42);
            writeln!(w, "b2s {}", to_hex(&v)).unwrap();
        }
        let n = if thorough { 5000 } else { 500 };
        for _ in 0..n {
            let k = *rng.pick(&[1usize, 3, 4, 6]);
            let len = rng.below((k * 4 + 2) as u64) as usize;
            let s: Vec<u8> = (0..len).map(|_| if rng.chance(1, 30) { 0 } else { 1 + rng.below(255) as u8 }).collect();
            writeln!(w, "s2i {} {}", k, to_hex(&s)).unwrap();
            let len = rng.below(10) as usize;
            let s: Vec<u8> = (0..len).map(|_| if rng.chance(1, 3) { 0 } else { rng.next() as u8 }).collect();
            writeln!(w, "b2s {}", to_hex(&s)).unwrap();
        }
    }
}
